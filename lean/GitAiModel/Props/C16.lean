/-
  Props/C16.lean — property C16: the attribution tracker is total, bounded and conservative.

  Only property theorems, their non-vacuity examples and the axiom audit live here.
  Model: Model/Tracker.lean (mirror of attribution_tracker.rs after the `fix:` commits
  recorded in known_findings.json).  The diff and the move detector are parameters: every
  theorem quantifies over ALL segment lists / substantive ranges / move mappings, subject only
  to the stated hypotheses, which the harness checks on every real diff.
  `update` is the diff path of `update_attributions` (contents differ); `updateAttributions` is the
  whole function: byte-identical contents return the priors in place (§4; `no_panic_all`,
  `in_bounds_all`, `on_boundaries_all` cover both paths; §2b speaks of the diff path, on the identical
  path every byte is unchanged text and `identity_keeps_cover` is its statement).
-/
import GitAiModel.Lemmas.Tracker
import GitAiModel.Lemmas.TrackerRoundtrip
import GitAiModel.Lemmas.TrackerIdentity
import GitAiModel.Lemmas.TrackerMerge
import GitAiModel.Lemmas.TrackerBoundaries
import GitAiModel.Lemmas.TrackerWs
import GitAiModel.Lemmas.TrackerInPlace
import GitAiModel.Lemmas.TrackerProjection
namespace GitAi.Tracker
open GitAi

/-! ## 1. Totality: no panic -/

/-- **C16 no_panic (update).** For all segment lists, substantive ranges, prior attribution
    lists (overlapping, unsorted, out of range, zero-length, inverted), authors and timestamps,
    and all move mappings that name an existing insertion, `update_attributions` (phases 2, 4
    and 5: catalog, transform, merge) reaches no out-of-range index: `.panic` is unreachable.
    Termination is Lean's: every loop is structural or fuel-bounded by a length. -/
theorem no_panic (segs : List Seg) (subst : List (Nat × Nat)) (moves : List Move)
    (old : List Attr) (author : Str) (ts : Nat) (hm : MovesIndexed segs moves) :
    ∃ out, update segs subst moves old author ts = .ok out := by
  obtain ⟨out, h⟩ := transform_ok segs subst moves (normalizeOld old) author ts hm
  exact ⟨merge out, by simp only [update, h]⟩

/-- non-vacuity of `MovesIndexed` (one deletion, one insertion, one move between them) -/
example : MovesIndexed [⟨.delete, [97, 10]⟩, ⟨.equal, [98, 10]⟩, ⟨.insert, [97, 10]⟩] [⟨0, 0, 0, 2, 0, 2⟩] := by
  intro m hm
  simp only [List.mem_singleton] at hm
  subst hm
  decide

/-- the hypothesis is needed: a move naming a missing insertion is an index out of range
    (`insertions[mapping.insertion_idx]`); the real move detector only emits indices it read
    from the catalog (`insertions.get(..)`), which the harness checks on every diff. -/
theorem witness_bad_insertion_index :
    update [⟨.delete, [97, 10]⟩, ⟨.insert, [98, 10]⟩] [] [⟨0, 5, 0, 2, 0, 2⟩] [] ['a'] 1
      = .error .panic := by decide

/-! ## 2. Bounds -/

/-- **C16 in_bounds.** Every range returned by `update_attributions` satisfies
    `start ≤ end ≤ |new|` — for all inputs, with NO hypothesis on the move mappings (their
    source and target may differ in length, as the real detector's do: DESIGN O13). -/
theorem in_bounds (segs : List Seg) (subst : List (Nat × Nat)) (moves : List Move)
    (old : List Attr) (author : Str) (ts : Nat) (out : List Attr)
    (h : update segs subst moves old author ts = .ok out) :
    ∀ a ∈ out, a.start ≤ a.stop ∧ a.stop ≤ (newOf segs).length := by
  simp only [update] at h
  split at h
  · cases h
  · rename_i raw hraw
    cases h
    exact merge_bnd _ raw (transform_bnd segs subst moves _ author ts raw hraw)

/-- regression instance of O13 in the model: a 2-byte source carried into a 1-byte target at
    the very end of the new text stays inside it (before the `fix:` the range was `[13, 15)`
    with `|new| = 14`). -/
example :
    update [⟨.insert, [0xC3, 0x9F, 10]⟩, ⟨.equal, [114, 101, 116, 117, 114, 110, 10, 96, 116, 96]⟩,
            ⟨.insert, [32]⟩, ⟨.delete, [101, 108, 115, 101, 13, 10]⟩]
      [] [⟨0, 1, 0, 2, 0, 1⟩] [⟨0, 16, human, 1⟩] ['A'] 1
    = .ok [⟨0, 3, ['A'], 1⟩, ⟨3, 14, human, 1⟩] := by decide

/-- **C16 on_boundaries.** If every segment that contributes to the new text starts on a char
    boundary (`SegStartsOk`: the segment contract), the prior ranges start and end on char
    boundaries of the old text, and move targets start and end on char boundaries of their
    insertion (`TargetsOk`: the move contract) — then every range returned by
    `update_attributions` starts and ends on a char boundary of the new text.  No hypothesis ties
    the bytes of a move's source to its target: they differ in the real detector's output
    (it matches trimmed lines), which is why `clamp_into_insertion` re-aligns (DESIGN O13). -/
theorem on_boundaries (segs : List Seg) (subst : List (Nat × Nat)) (moves : List Move)
    (old : List Attr) (author : Str) (ts : Nat) (out : List Attr) (hok : SegStartsOk segs)
    (hold : ∀ x ∈ old, OnB (oldOf segs) x) (htg : TargetsOk segs moves)
    (h : update segs subst moves old author ts = .ok out) : ∀ a ∈ out, OnB (newOf segs) a := by
  simp only [update] at h
  split at h
  · cases h
  · rename_i raw hraw
    cases h
    apply merge_boundaries
    refine transform_boundaries segs subst moves _ author ts raw hok ?_ htg hraw
    intro x hx
    simp only [normalizeOld] at hx
    split at hx
    · exact hold x hx
    · exact hold x ((mem_sortBy _ _ _).1 hx)

/-- non-vacuity: "é\n" deleted, "x" kept, "é\n" inserted and named as the move target -/
example : SegStartsOk [⟨.delete, [0xC3, 0xA9, 10]⟩, ⟨.equal, [120]⟩, ⟨.insert, [0xC3, 0xA9, 10]⟩] := by
  intro g hg hne
  simp only [List.mem_cons, List.mem_nil_iff, or_false] at hg
  rcases hg with rfl | rfl | rfl
  · exact absurd rfl hne
  · simp [headOk, isCont]
  · simp [headOk, isCont]
example : TargetsOk [⟨.delete, [0xC3, 0xA9, 10]⟩, ⟨.equal, [120]⟩, ⟨.insert, [0xC3, 0xA9, 10]⟩] [⟨0, 0, 0, 3, 0, 3⟩] := by
  intro m hm i hi
  simp only [List.mem_singleton] at hm
  subst hm
  have : i = ⟨1, 4, [0xC3, 0xA9, 10]⟩ := by
    simp [insertions, insertionsFrom] at hi; exact hi.symm
  subst this
  exact ⟨Or.inl rfl, Or.inr (Or.inl (by simp))⟩

/-- the move contract is needed: a target that starts inside a character yields the reporter's
    gap range `[0, 1)` splitting "é" -/
theorem witness_target_off_boundary :
    update [⟨.delete, [97]⟩, ⟨.insert, [0xC3, 0xA9]⟩] [] [⟨0, 0, 0, 1, 1, 2⟩] [] ['r'] 2
      = .ok [⟨0, 1, ['r'], 2⟩] ∧ isBoundary [0xC3, 0xA9] 1 = false := by decide

/-! ## 2b. Conservative: unchanged text keeps its authors, new text is the reporter's -/

/-- **C16 unchanged_keeps_author (multiset form, before merge).** For every segment list
    `pre ++ Equal d :: post`, all substantive ranges, all priors (any shape; `update` normalises
    them first), all moves whose source starts inside its deletion (`SrcOk`, part of the move
    contract checked on every real diff): after `transform`, byte `k` of the Equal segment is
    covered by exactly the (author, ts) pairs — counted with multiplicity — that covered its
    pre-image in the ORIGINAL prior list. -/
theorem unchanged_keeps_author_multiset (pre post : List Seg) (d : Text) (subst : List (Nat × Nat))
    (moves : List Move) (old : List Attr) (author : Str) (ts : Nat) (raw : List Attr)
    (hsrc : SrcOk moves 0 (pre ++ ⟨.equal, d⟩ :: post))
    (h : transform (pre ++ ⟨.equal, d⟩ :: post) subst moves (normalizeOld old) author ts = .ok raw) :
    ∀ (w : Str × Nat) (k : Nat), k < d.length →
      cov raw w ((newOf pre).length + k) = cov old w ((oldOf pre).length + k) := by
  intro w k hk
  rw [unchanged_transform pre post d subst moves _ author ts raw (normalizeOld_sortedStart old) hsrc h w k hk,
    cov_normalizeOld]

/-- **C16 unchanged_keeps_author (set form, final result).** After `update_attributions`
    (transform + merge) the SET of (author, ts) covering an unchanged byte equals the set that
    covered its pre-image. -/
theorem unchanged_keeps_author (pre post : List Seg) (d : Text) (subst : List (Nat × Nat))
    (moves : List Move) (old : List Attr) (author : Str) (ts : Nat) (out : List Attr)
    (hsrc : SrcOk moves 0 (pre ++ ⟨.equal, d⟩ :: post))
    (h : update (pre ++ ⟨.equal, d⟩ :: post) subst moves old author ts = .ok out) :
    ∀ (w : Str × Nat) (k : Nat), k < d.length →
      (Covered out w ((newOf pre).length + k) ↔ Covered old w ((oldOf pre).length + k)) := by
  intro w k hk
  simp only [update] at h
  split at h
  · cases h
  · rename_i raw hraw
    cases h
    rw [merge_covered, ← cov_pos_iff, ← cov_pos_iff,
      unchanged_keeps_author_multiset pre post d subst moves old author ts raw hsrc hraw w k hk]

/-- non-vacuity of `SrcOk`: a 5-byte deletion with a move whose source is bytes [0, 5) -/
example : SrcOk [⟨0, 0, 0, 5, 0, 5⟩] 0
    [⟨.delete, [97, 10, 98, 10, 99]⟩, ⟨.equal, [120, 10]⟩, ⟨.insert, [97, 10, 98, 10, 99]⟩] := by
  simp [SrcOk]

/-- the hypothesis is needed: a move whose source starts beyond its deletion drags the cursor
    past attributions of the following unchanged text, which then loses its author. -/
theorem witness_src_outside_deletion :
    update [⟨.delete, [97]⟩, ⟨.equal, [98, 99]⟩, ⟨.insert, [100]⟩] [] [⟨0, 0, 3, 4, 0, 1⟩]
      [⟨1, 3, ['a', 'i'], 1⟩] ['r'] 2 = .ok [] := by decide

/-- **C16 new_text_is_reporters.** A plain insertion (not the target of a move mapping) that
    contains a newline or meets a substantive range is, after `update_attributions`, covered at
    every byte by the reporter's (author, ts) and by no other pair. (Pure-whitespace inserts
    without a newline inherit a neighbour's pair: `decideInsert`; parts of a moved-into
    insertion outside the move targets are the reporter's: `gapAttrs_who`.) -/
theorem new_text_is_reporters (pre post : List Seg) (d : Text) (subst : List (Nat × Nat))
    (moves : List Move) (old : List Attr) (author : Str) (ts : Nat) (out : List Attr)
    (hplain : rangesForInsertion moves (insCount pre) = none)
    (hsub : hasNewline d = true ∨
      rangesIntersect subst (newOf pre).length ((newOf pre).length + d.length) = true)
    (h : update (pre ++ ⟨.insert, d⟩ :: post) subst moves old author ts = .ok out) :
    ∀ p, (newOf pre).length ≤ p → p < (newOf pre).length + d.length →
      Covered out (author, ts) p ∧ ∀ w, Covered out w p → w = (author, ts) := by
  intro p hp1 hp2
  simp only [update] at h
  split at h
  · cases h
  · rename_i raw hraw
    cases h
    obtain ⟨hmem, hex⟩ := new_text_exact pre post d subst moves _ author ts raw hplain hsub hraw
    constructor
    · rw [merge_covered]
      exact ⟨_, hmem, rfl, hp1, hp2⟩
    · intro w hw
      rw [merge_covered] at hw
      obtain ⟨x, hx, hxw, h1, h2⟩ := hw
      have := hex x hx p hp1 hp2 h1 h2
      rw [this] at hxw
      exact hxw.symm

/-- non-vacuity: an inserted line between two unchanged lines, no moves -/
example : rangesForInsertion [] (insCount [⟨.equal, [97, 10]⟩]) = none ∧ hasNewline [98, 10] = true := by decide

/-- pure-whitespace insert without newline inherits (here: from the preceding range), so the
    restriction to newline/substantive inserts is needed -/
theorem witness_whitespace_inherits :
    update [⟨.equal, [97]⟩, ⟨.insert, [32]⟩, ⟨.equal, [98]⟩] [] [] [⟨0, 2, ['o'], 1⟩] ['r'] 2
      = .ok [⟨0, 3, ['o'], 1⟩] := by decide

/-! ## 2c. Whitespace-only reformat -/

/-- **C16 whitespace_reformat_keeps_lines (partial: the char-level core).**
    FULL STATEMENT (not proved; checked on the real code by the oracle
    `whitespace_reformat_keeps_lines` for reformats that neither join nor split lines): if every
    Delete/Insert segment is whitespace-only, every new line containing an unchanged
    non-whitespace byte has the dominant author of the old line containing its pre-image.
    PROVED: in such a reformat (no move mappings) `transform` emits only non-empty ranges — no
    deletion marker, which would be a line-attribution candidate regardless of content — and by
    `unchanged_keeps_author` every unchanged byte, in particular every non-whitespace byte,
    keeps exactly its (author, ts) set. The candidates with non-whitespace content on a line are
    therefore the transformed priors; inserted whitespace only contributes candidates on blank
    lines. The missing step is the comparison of `dominant` on the two line contents. -/
theorem whitespace_reformat_keeps_lines_partial (segs : List Seg) (subst : List (Nat × Nat))
    (old : List Attr) (author : Str) (ts : Nat) (raw : List Attr) (hws : WsReformat segs)
    (h : transform segs subst [] (normalizeOld old) author ts = .ok raw) :
    ∀ a ∈ raw, a.start < a.stop :=
  transform_ws_nonempty segs subst _ author ts raw hws h

/-- non-vacuity: re-indenting `  x` to `    x` (Delete "  ", Insert "    ") -/
example : WsReformat [⟨.delete, [32, 32]⟩, ⟨.insert, [32, 32, 32, 32]⟩, ⟨.equal, [120]⟩] := by
  intro g hg hne
  simp only [List.mem_cons, List.mem_nil_iff, or_false] at hg
  rcases hg with rfl | rfl | rfl
  · decide
  · decide
  · exact absurd rfl hne

/-- outside the partial statement: a reformat that splits a line between two authors' tokens
    changes a line's dominant author (old line 1: latest is `b`; new line 1 holds only `a`'s token) -/
theorem witness_reformat_split_line :
    toLineAttrs [⟨0, 1, ['a'], 1⟩, ⟨2, 3, ['b'], 2⟩] [120, 32, 121, 10] = .ok [⟨1, 1, ['b'], none⟩] ∧
    (match update [⟨.equal, [120]⟩, ⟨.delete, [32]⟩, ⟨.insert, [10]⟩, ⟨.equal, [121, 10]⟩] [] []
        [⟨0, 1, ['a'], 1⟩, ⟨2, 3, ['b'], 2⟩] ['r'] 3 with
     | .ok o => toLineAttrs o [120, 10, 121, 10]
     | .error e => .error e) = .ok [⟨1, 1, ['a'], none⟩, ⟨2, 2, ['b'], none⟩] := by decide

/-! ## 3. Line ↔ char round trip -/

/-- **C16 line_char_roundtrip.** For every text whose lines start and end on char boundaries
    (every valid UTF-8 text), every list `L` of in-range, pairwise disjoint, non-human line
    attributions (any order) and every timestamp: converting `L` to char ranges and back
    succeeds (no slice panics) and assigns every line number the author `L` assigns it —
    the same AI lines with the same authors. -/
theorem line_char_roundtrip (c : Text) (L : List LineAttr) (ts : Nat) (hb : LinesOnBoundaries c)
    (hL : LinesOk (lineRanges c).length L) :
    ∃ R, toLineAttrs (lineAttrsToAttrs L c ts) c = .ok R ∧ ∀ k, lineAuthor R k = lineAuthor L k :=
  roundtrip_core c L ts hb hL

/-- non-vacuity: "é\n\n  x\r\nlast" (a blank line, CRLF, no final newline) with two disjoint,
    unsorted AI line attributions -/
example : LinesOnBoundaries [0xC3, 0xA9, 10, 10, 32, 32, 120, 13, 10, 108, 97, 115, 116] := by
  intro p hp
  have : p ∈ [(0, 3), (3, 4), (4, 9), (9, 13)] := by simpa [lineRanges, linesGo] using hp
  simp only [List.mem_cons, List.mem_nil_iff, or_false] at this
  rcases this with rfl | rfl | rfl | rfl <;> decide
example : LinesOk 4 [⟨3, 4, ['a', 'i', '2'], none⟩, ⟨1, 1, ['a', 'i', '1'], none⟩] := by
  refine ⟨?_, ?_⟩
  · intro l hl
    simp only [List.mem_cons, List.mem_nil_iff, or_false] at hl
    rcases hl with rfl | rfl <;> exact ⟨by decide, by decide, by decide, by decide⟩
  · simp [DisjointLines]

/-- excluded region 1: a line attributed to "human" is stripped by the projection, so it does
    not come back (the property speaks of AI lines). -/
theorem witness_roundtrip_human :
    toLineAttrs (lineAttrsToAttrs [⟨1, 1, human, none⟩] [97, 98, 10] 5) [97, 98, 10] = .ok [] := by decide

/-- excluded region 2: for overlapping line attributions the author of a shared line is the
    first in (start, end, index) order — the same SET of AI lines comes back (stated, not
    proved here; checked by the oracle `line_char_roundtrip_set`), not the same authors. -/
theorem witness_roundtrip_overlap :
    toLineAttrs (lineAttrsToAttrs [⟨1, 2, ['x'], none⟩, ⟨2, 2, ['y'], none⟩] [97, 10, 98, 10] 5) [97, 10, 98, 10]
      = .ok [⟨1, 2, ['x'], none⟩] := by decide

/-! ## 3b. Line projection: whitespace never wins a line with content -/

/-- **C16 line_winner_has_non_ws.** For every content, every line `[ls, le)` of it that holds a
    non-whitespace character, and every set of active attributions: when the projection gives
    the line to an author other than "human", one of that author's attributions covers a
    non-whitespace character of the line (`NonWsOn`: the overlap with the line, widened to
    character boundaries inside the line, is not whitespace-only) or is a zero-length deletion
    marker on the line.  In particular indentation that was inserted in front of a person's line
    and inherited the attribution of the line break before it cannot give the line away. -/
theorem line_winner_has_non_ws (content : Text) (ls le : Nat) (active : List Attr) (line : Text)
    (w : Str) (o : Option Str)
    (hs : sliceStr content ls le = .ok line) (hnb : allWs line = false)
    (h : lineResult content ls le active = .ok (some (w, o))) (hw : w ≠ human) :
    ∃ a ∈ active, a.author = w ∧ (a.start = a.stop ∨ NonWsOn content ls le a) := by
  have hne : line.isEmpty = false := by
    cases line with
    | nil => simp [allWs, wsRun] at hnb
    | cons x xs => rfl
  unfold lineResult at h
  simp only [hs, hne, hnb, Bool.or_false] at h
  cases hd : dominant content ls le false active with
  | error e => simp [hd] at h
  | ok d =>
    simp only [hd] at h
    injection h with h
    injection h with h
    subst h
    rcases dominant_winner content ls le false active w o hd with ⟨e, _, _⟩ | ⟨a, ha, haw, hc⟩
    · exact absurd e hw
    · exact ⟨a, ha, haw, isCandidate_nonblank content ls le a hc⟩

/-- **C16 whitespace_only_author_never_wins.** Contrapositive, the shape of the reported case: an
    author (not "human") all of whose active attributions are non-empty and touch only whitespace
    of a line that has content does not get the line. -/
theorem whitespace_only_author_never_wins (content : Text) (ls le : Nat) (active : List Attr) (line : Text)
    (w w' : Str) (o : Option Str)
    (hs : sliceStr content ls le = .ok line) (hnb : allWs line = false) (hw : w ≠ human)
    (hws : ∀ a ∈ active, a.author = w → a.start ≠ a.stop ∧ ¬ NonWsOn content ls le a)
    (h : lineResult content ls le active = .ok (some (w', o))) : w' ≠ w := by
  intro e
  subst e
  obtain ⟨a, ha, haw, hc⟩ := line_winner_has_non_ws content ls le active line w' o hs hnb h hw
  have := hws a ha haw
  rcases hc with hc | hc
  · exact this.1 hc
  · exact this.2 hc

/-- non-vacuity of `NonWsOn` and of the hypotheses: "s }\n    h b;\n", line 2 = [4, 13); an
    attribution over all of line 2 covers content; one over line 1 and the indentation of line 2
    (bytes 0..8) touches only whitespace of line 2 -/
example : NonWsOn [115, 32, 125, 10, 32, 32, 32, 32, 104, 32, 98, 59, 10] 4 13 ⟨4, 13, ['s'], 1⟩ :=
  ⟨by decide, by decide, [32, 32, 32, 32, 104, 32, 98, 59, 10], by decide, by decide⟩
example : ¬ NonWsOn [115, 32, 125, 10, 32, 32, 32, 32, 104, 32, 98, 59, 10] 4 13 ⟨0, 8, ['s'], 1⟩ := by
  rintro ⟨_, _, sl, h1, h2⟩
  have : sl = [32, 32, 32, 32] := by
    have h1' : (Except.ok [32, 32, 32, 32] : Except Err Text) = .ok sl := by
      rw [← h1]; decide
    injection h1' with h1'
    exact h1'.symm
  subst this
  exact absurd h2 (by decide)
example : sliceStr [115, 32, 125, 10, 32, 32, 32, 32, 104, 32, 98, 59, 10] 4 13 = .ok [32, 32, 32, 32, 104, 32, 98, 59, 10]
    ∧ allWs [32, 32, 32, 32, 104, 32, 98, 59, 10] = false := by decide

/-- the reported shape end to end (known_findings `reconstruction-credits-reindented-human-line-
    below-ai-line`, whose stated mechanism this refutes): session `s` owns line 1 including its
    line break and the indentation inserted in front of the person's line 2; the projection
    gives `s` line 1 only. -/
theorem witness_reindent_below_ai_line :
    toLineAttrs [⟨0, 8, ['s'], 1⟩] [115, 32, 125, 10, 32, 32, 32, 32, 104, 32, 98, 59, 10]
      = .ok [⟨1, 1, ['s'], none⟩] := by decide

/-- the marker disjunct is needed: a zero-length deletion marker of `s` on a line with content
    whose text nobody else claims gives the line to `s` (by design: the deleting author) -/
theorem witness_marker_wins_line :
    toLineAttrs [⟨1, 1, ['s'], 1⟩] [120, 121, 10] = .ok [⟨1, 1, ['s'], none⟩] := by decide

/-! ## 4. Identical text

  After the /repo fix "an unchanged content keeps its attributions in place" `update_attributions`
  does not diff two byte-identical contents: the priors are returned in position order (ties keep
  the order they came in — the order the line projection goes by), cut to the content; deletion
  markers stay, nothing is re-sorted by author, nothing is merged
  (`updateAttributions` / `keepInPlace`, Model/Tracker.lean). -/

/-- **C16 no_panic (all of `update_attributions`).** Identical contents or not: `.panic` is
    unreachable (same hypothesis as `no_panic`; not needed on the identical path). -/
theorem no_panic_all (oldC newC : Text) (segs : List Seg) (subst : List (Nat × Nat)) (moves : List Move)
    (old : List Attr) (author : Str) (ts : Nat) (hm : MovesIndexed segs moves) :
    ∃ out, updateAttributions oldC newC segs subst moves old author ts = .ok out := by
  by_cases h : oldC = newC
  · subst h; exact ⟨_, updateAttributions_same ..⟩
  · rw [updateAttributions_ne _ _ h]; exact no_panic segs subst moves old author ts hm

/-- **C16 in_bounds (all of `update_attributions`).** With the segment contract `newC = newOf segs`
    (checked on every real diff): every returned range satisfies `start ≤ end ≤ |newC|`, for ALL
    priors — out of range, inverted, zero-length — on the identical path too. -/
theorem in_bounds_all (oldC newC : Text) (segs : List Seg) (subst : List (Nat × Nat)) (moves : List Move)
    (old : List Attr) (author : Str) (ts : Nat) (out : List Attr) (hnew : newC = newOf segs)
    (h : updateAttributions oldC newC segs subst moves old author ts = .ok out) :
    ∀ a ∈ out, a.start ≤ a.stop ∧ a.stop ≤ newC.length := by
  by_cases he : oldC = newC
  · subst he
    rw [updateAttributions_same] at h
    cases h
    exact keepInPlace_bnd _ old
  · rw [updateAttributions_ne _ _ he] at h
    rw [hnew]
    exact in_bounds segs subst moves old author ts out h

/-- **C16 on_boundaries (all of `update_attributions`).** Same hypotheses as `on_boundaries` plus the
    segment contract; on the identical path only the priors' own boundaries are needed. -/
theorem on_boundaries_all (oldC newC : Text) (segs : List Seg) (subst : List (Nat × Nat)) (moves : List Move)
    (old : List Attr) (author : Str) (ts : Nat) (out : List Attr) (hok : SegStartsOk segs)
    (hoc : oldC = oldOf segs) (hnc : newC = newOf segs)
    (hold : ∀ x ∈ old, OnB oldC x) (htg : TargetsOk segs moves)
    (h : updateAttributions oldC newC segs subst moves old author ts = .ok out) :
    ∀ a ∈ out, OnB newC a := by
  by_cases he : oldC = newC
  · subst he
    rw [updateAttributions_same] at h
    cases h
    exact keepInPlace_boundaries _ old hold
  · rw [updateAttributions_ne _ _ he] at h
    rw [hnc]
    exact on_boundaries segs subst moves old author ts out hok (by rw [← hoc]; exact hold) htg h

/-- **C16 identity (exact form).** On an identical text and priors that lie in it (`start ≤ end ≤
    |c|` — overlapping, unsorted, duplicated, ZERO-LENGTH, off boundaries, any authors and
    timestamps, several authors per timestamp) `update_attributions` returns the priors in stable
    `(start, end)` order: every prior is still there, unchanged, as often as before; whatever the diff
    parameters are. -/
theorem identity_update (c : Text) (segs : List Seg) (subst : List (Nat × Nat)) (moves : List Move)
    (P : List Attr) (author : Str) (ts : Nat) (hP : InRange c.length P) :
    updateAttributions c c segs subst moves P author ts = .ok (sortBy posLe P) ∧
    (∀ q : Attr → Bool, (sortBy posLe P).countP q = P.countP q) := by
  rw [updateAttributions_same, keepInPlace_inRange _ P hP]
  exact ⟨rfl, fun q => countP_sortBy q posLe P⟩

/-- **C16 identity_keeps_lines.** For every text `c` and ALL prior lists that lie in it
    (`InRange`: `start ≤ end ≤ |c|`; zero-length deletion markers, several authors sharing a
    timestamp, any order, duplicates, overlaps, off char boundaries — no normal-form hypothesis):
    the line attributions after `update_attributions(c, c, P)` are those before it — authors AND
    `overrode` fields, and a slice panic of the projection before is one after.
    The three regions excluded from the former `identity_keeps_lines_partial` are regression
    theorems below.  Priors that reach past the content are cut to it (`in_bounds_all`), for those
    and all others every byte keeps its cover set (`identity_keeps_cover`); that the projection is
    unchanged for them too is checked by the oracle `identity_keeps_lines` on the real code (every
    non-inverted prior list), not proved. -/
theorem identity_keeps_lines (c : Text) (segs : List Seg) (subst : List (Nat × Nat)) (moves : List Move)
    (P : List Attr) (author : Str) (ts : Nat) (hP : InRange c.length P) :
    ∀ out, updateAttributions c c segs subst moves P author ts = .ok out →
      toLineAttrs out c = toLineAttrs P c := by
  intro out hout
  rw [(identity_update c segs subst moves P author ts hP).1] at hout
  cases hout
  exact toLineAttrs_sortBy_posLe P c

/-- **C16 identity_keeps_cover.** For ALL prior lists (out of range, inverted, zero-length, …):
    after an identity update every byte of the text is covered by exactly the (author, ts) pairs
    that covered it before. -/
theorem identity_keeps_cover (c : Text) (segs : List Seg) (subst : List (Nat × Nat)) (moves : List Move)
    (P : List Attr) (author : Str) (ts : Nat) (out : List Attr)
    (h : updateAttributions c c segs subst moves P author ts = .ok out) :
    ∀ (w : Str × Nat) (p : Nat), p < c.length → (Covered out w p ↔ Covered P w p) := by
  rw [updateAttributions_same] at h
  cases h
  exact fun w p hp => keepInPlace_covered _ P w p hp

/-- non-vacuity of `InRange`: overlapping ranges of two authors, a deletion marker, a shared timestamp -/
example : InRange 6 [⟨2, 6, human, 2⟩, ⟨0, 4, ['a'], 1⟩, ⟨3, 3, ['b'], 2⟩] := by
  intro a ha
  simp only [List.mem_cons, List.mem_nil_iff, or_false] at ha
  rcases ha with rfl | rfl | rfl <;> exact ⟨by decide, by decide⟩

/-- regression (was known finding `identity:zero-length-prior`, excluded region 1): the deletion
    marker inside the text survives an identity update and line 1 stays human (overrode ai); the
    diff path (`update`, no longer reached for identical contents) dropped it. -/
theorem witness_identity_zero_length :
    toLineAttrs [⟨0, 3, ['a', 'i'], 1⟩, ⟨1, 1, human, 2⟩] [97, 98, 10]
      = .ok [⟨1, 1, human, some ['a', 'i']⟩] ∧
    updateAttributions [97, 98, 10] [97, 98, 10] [⟨.equal, [97, 98, 10]⟩] [] []
        [⟨0, 3, ['a', 'i'], 1⟩, ⟨1, 1, human, 2⟩] ['a', 'i'] 9
      = .ok [⟨0, 3, ['a', 'i'], 1⟩, ⟨1, 1, human, 2⟩] ∧
    update [⟨.equal, [97, 98, 10]⟩] [] [] [⟨0, 3, ['a', 'i'], 1⟩, ⟨1, 1, human, 2⟩] ['a', 'i'] 9
      = .ok [⟨0, 3, ['a', 'i'], 1⟩] := by decide

/-- regression (was `identity:timestamp-shared-by-authors`, excluded region 2): two authors with
    the same timestamp on the same range keep their order, the first-on-tie winner `b` stays; the
    diff path sorted by author and the winner flipped to `a`. -/
theorem witness_identity_ts_tie :
    toLineAttrs [⟨0, 3, ['b'], 1⟩, ⟨0, 3, ['a'], 1⟩] [97, 98, 10] = .ok [⟨1, 1, ['b'], none⟩] ∧
    updateAttributions [97, 98, 10] [97, 98, 10] [⟨.equal, [97, 98, 10]⟩] [] []
        [⟨0, 3, ['b'], 1⟩, ⟨0, 3, ['a'], 1⟩] ['z'] 9
      = .ok [⟨0, 3, ['b'], 1⟩, ⟨0, 3, ['a'], 1⟩] ∧
    (match update [⟨.equal, [97, 98, 10]⟩] [] [] [⟨0, 3, ['b'], 1⟩, ⟨0, 3, ['a'], 1⟩] ['z'] 9 with
     | .ok o => toLineAttrs o [97, 98, 10]
     | .error e => .error e) = .ok [⟨1, 1, ['a'], none⟩] := by decide

/-- regression (was `identity:overrode-depends-on-prior-order`, excluded region 3): three priors on
    the same range keep their order, so `overrode = a` (read from the last AI / human candidate
    in list order) stays; the diff path re-sorted by author and it became `none`. -/
theorem witness_identity_overrode_order :
    toLineAttrs [⟨0, 3, ['b'], 6⟩, ⟨0, 3, ['a'], 0⟩, ⟨0, 3, human, 5⟩] [97, 98, 10]
      = .ok [⟨1, 1, ['b'], some ['a']⟩] ∧
    updateAttributions [97, 98, 10] [97, 98, 10] [⟨.equal, [97, 98, 10]⟩] [] []
        [⟨0, 3, ['b'], 6⟩, ⟨0, 3, ['a'], 0⟩, ⟨0, 3, human, 5⟩] ['z'] 9
      = .ok [⟨0, 3, ['b'], 6⟩, ⟨0, 3, ['a'], 0⟩, ⟨0, 3, human, 5⟩] ∧
    (match update [⟨.equal, [97, 98, 10]⟩] [] [] [⟨0, 3, ['b'], 6⟩, ⟨0, 3, ['a'], 0⟩, ⟨0, 3, human, 5⟩] ['z'] 9 with
     | .ok o => toLineAttrs o [97, 98, 10]
     | .error e => .error e) = .ok [⟨1, 1, ['b'], none⟩] := by decide

/-- the position order matters: priors that reach past the content are cut to it, and two of them
    with one start would trade places under the projection's `(start, end, index)` order if they
    were cut where they stand; sorted first they keep the projection's order (`a` before `b`). -/
theorem witness_identity_out_of_range_order :
    toLineAttrs [⟨0, 12, ['b'], 1⟩, ⟨0, 10, ['a'], 1⟩] [97, 98, 10] = .ok [⟨1, 1, ['a'], none⟩] ∧
    updateAttributions [97, 98, 10] [97, 98, 10] [⟨.equal, [97, 98, 10]⟩] [] []
        [⟨0, 12, ['b'], 1⟩, ⟨0, 10, ['a'], 1⟩] ['z'] 9
      = .ok [⟨0, 3, ['a'], 1⟩, ⟨0, 3, ['b'], 1⟩] ∧
    toLineAttrs [⟨0, 3, ['a'], 1⟩, ⟨0, 3, ['b'], 1⟩] [97, 98, 10] = .ok [⟨1, 1, ['a'], none⟩] ∧
    toLineAttrs [⟨0, 3, ['b'], 1⟩, ⟨0, 3, ['a'], 1⟩] [97, 98, 10] = .ok [⟨1, 1, ['b'], none⟩] := by decide

/-- outside the property's quantifier: an INVERTED prior (`end < start`) is a candidate on a
    whitespace-only line it straddles; an identity update drops it (every returned range has
    `start ≤ end`, `in_bounds_all`), so that line's attribution goes. -/
theorem witness_identity_inverted :
    toLineAttrs [⟨3, 1, ['a'], 5⟩] [32, 32, 32, 32, 10] = .ok [⟨1, 1, ['a'], none⟩] ∧
    updateAttributions [32, 32, 32, 32, 10] [32, 32, 32, 32, 10] [⟨.equal, [32, 32, 32, 32, 10]⟩] [] []
        [⟨3, 1, ['a'], 5⟩] ['z'] 9 = .ok [] := by decide

end GitAi.Tracker

#print axioms GitAi.Tracker.witness_identity_overrode_order
#print axioms GitAi.Tracker.on_boundaries
#print axioms GitAi.Tracker.witness_target_off_boundary
#print axioms GitAi.Tracker.whitespace_reformat_keeps_lines_partial
#print axioms GitAi.Tracker.witness_reformat_split_line
#print axioms GitAi.Tracker.unchanged_keeps_author_multiset
#print axioms GitAi.Tracker.unchanged_keeps_author
#print axioms GitAi.Tracker.witness_src_outside_deletion
#print axioms GitAi.Tracker.new_text_is_reporters
#print axioms GitAi.Tracker.witness_whitespace_inherits
#print axioms GitAi.Tracker.line_char_roundtrip
#print axioms GitAi.Tracker.witness_roundtrip_human
#print axioms GitAi.Tracker.witness_roundtrip_overlap
#print axioms GitAi.Tracker.identity_update
#print axioms GitAi.Tracker.identity_keeps_lines
#print axioms GitAi.Tracker.identity_keeps_cover
#print axioms GitAi.Tracker.no_panic_all
#print axioms GitAi.Tracker.in_bounds_all
#print axioms GitAi.Tracker.on_boundaries_all
#print axioms GitAi.Tracker.witness_identity_out_of_range_order
#print axioms GitAi.Tracker.witness_identity_inverted
#print axioms GitAi.Tracker.witness_identity_zero_length
#print axioms GitAi.Tracker.witness_identity_ts_tie
#print axioms GitAi.Tracker.no_panic
#print axioms GitAi.Tracker.witness_bad_insertion_index
#print axioms GitAi.Tracker.in_bounds
#print axioms GitAi.Tracker.line_winner_has_non_ws
#print axioms GitAi.Tracker.whitespace_only_author_never_wins
#print axioms GitAi.Tracker.witness_reindent_below_ai_line
#print axioms GitAi.Tracker.witness_marker_wins_line
