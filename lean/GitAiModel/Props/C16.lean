/-
  Props/C16.lean — property C16: the attribution tracker is total, bounded and conservative.

  Only property theorems, their non-vacuity examples and the axiom audit live here.
  Model: Model/Tracker.lean (mirror of attribution_tracker.rs after the two `fix:` commits
  recorded in known_findings.json).  The diff and the move detector are parameters: every
  theorem quantifies over ALL segment lists / substantive ranges / move mappings, subject only
  to the stated hypotheses, which the harness checks on every real diff.
-/
import GitAiModel.Lemmas.Tracker
import GitAiModel.Lemmas.TrackerRoundtrip
import GitAiModel.Lemmas.TrackerIdentity
import GitAiModel.Lemmas.TrackerMerge
import GitAiModel.Lemmas.TrackerBoundaries
import GitAiModel.Lemmas.TrackerWs
namespace GitAi.Tracker
open GitAi

/-! ## 1. Totality: no panic -/

/-- **C16 no_panic (update).** For all segment lists, substantive ranges, prior attribution
    lists (overlapping, unsorted, out of range, zero-length, inverted), authors and timestamps,
    and all move mappings that name an existing insertion, `update_attributions` (phases 2, 4
    and 5: catalog, transform, merge) reaches no out-of-range index: `.panic` is unreachable.
    Termination is Lean's: every loop is structural or fuel-bounded by a length. -/
theorem no_panic (segs : List Seg) (subst : List (Nat × Nat)) (moves : List Move)
    (old : List Attr) (author : Str) (ts : Nat) (hm : MovesIndexed segs moves) :
    ∃ out, update segs subst moves old author ts = .ok out := by
  obtain ⟨out, h⟩ := transform_ok segs subst moves (normalizeOld old) author ts hm
  exact ⟨merge out, by simp only [update, h]⟩

/-- non-vacuity of `MovesIndexed` (one deletion, one insertion, one move between them) -/
example : MovesIndexed [⟨.delete, [97, 10]⟩, ⟨.equal, [98, 10]⟩, ⟨.insert, [97, 10]⟩] [⟨0, 0, 0, 2, 0, 2⟩] := by
  intro m hm
  simp only [List.mem_singleton] at hm
  subst hm
  decide

/-- the hypothesis is needed: a move naming a missing insertion is an index out of range
    (`insertions[mapping.insertion_idx]`); the real move detector only emits indices it read
    from the catalog (`insertions.get(..)`), which the harness checks on every diff. -/
theorem witness_bad_insertion_index :
    update [⟨.delete, [97, 10]⟩, ⟨.insert, [98, 10]⟩] [] [⟨0, 5, 0, 2, 0, 2⟩] [] ['a'] 1
      = .error .panic := by decide

/-! ## 2. Bounds -/

/-- **C16 in_bounds.** Every range returned by `update_attributions` satisfies
    `start ≤ end ≤ |new|` — for all inputs, with NO hypothesis on the move mappings (their
    source and target may differ in length, as the real detector's do: DESIGN O13). -/
theorem in_bounds (segs : List Seg) (subst : List (Nat × Nat)) (moves : List Move)
    (old : List Attr) (author : Str) (ts : Nat) (out : List Attr)
    (h : update segs subst moves old author ts = .ok out) :
    ∀ a ∈ out, a.start ≤ a.stop ∧ a.stop ≤ (newOf segs).length := by
  simp only [update] at h
  split at h
  · cases h
  · rename_i raw hraw
    cases h
    exact merge_bnd _ raw (transform_bnd segs subst moves _ author ts raw hraw)

/-- regression instance of O13 in the model: a 2-byte source carried into a 1-byte target at
    the very end of the new text stays inside it (before the `fix:` the range was `[13, 15)`
    with `|new| = 14`). -/
example :
    update [⟨.insert, [0xC3, 0x9F, 10]⟩, ⟨.equal, [114, 101, 116, 117, 114, 110, 10, 96, 116, 96]⟩,
            ⟨.insert, [32]⟩, ⟨.delete, [101, 108, 115, 101, 13, 10]⟩]
      [] [⟨0, 1, 0, 2, 0, 1⟩] [⟨0, 16, human, 1⟩] ['A'] 1
    = .ok [⟨0, 3, ['A'], 1⟩, ⟨3, 14, human, 1⟩] := by decide

/-- **C16 on_boundaries.** If every segment that contributes to the new text starts on a char
    boundary (`SegStartsOk`: the segment contract), the prior ranges start and end on char
    boundaries of the old text, and move targets start and end on char boundaries of their
    insertion (`TargetsOk`: the move contract) — then every range returned by
    `update_attributions` starts and ends on a char boundary of the new text.  No hypothesis ties
    the bytes of a move's source to its target: they differ in the real detector's output
    (it matches trimmed lines), which is why `clamp_into_insertion` re-aligns (DESIGN O13). -/
theorem on_boundaries (segs : List Seg) (subst : List (Nat × Nat)) (moves : List Move)
    (old : List Attr) (author : Str) (ts : Nat) (out : List Attr) (hok : SegStartsOk segs)
    (hold : ∀ x ∈ old, OnB (oldOf segs) x) (htg : TargetsOk segs moves)
    (h : update segs subst moves old author ts = .ok out) : ∀ a ∈ out, OnB (newOf segs) a := by
  simp only [update] at h
  split at h
  · cases h
  · rename_i raw hraw
    cases h
    apply merge_boundaries
    refine transform_boundaries segs subst moves _ author ts raw hok ?_ htg hraw
    intro x hx
    simp only [normalizeOld] at hx
    split at hx
    · exact hold x hx
    · exact hold x ((mem_sortBy _ _ _).1 hx)

/-- non-vacuity: "é\n" deleted, "x" kept, "é\n" inserted and named as the move target -/
example : SegStartsOk [⟨.delete, [0xC3, 0xA9, 10]⟩, ⟨.equal, [120]⟩, ⟨.insert, [0xC3, 0xA9, 10]⟩] := by
  intro g hg hne
  simp only [List.mem_cons, List.mem_nil_iff, or_false] at hg
  rcases hg with rfl | rfl | rfl
  · exact absurd rfl hne
  · simp [headOk, isCont]
  · simp [headOk, isCont]
example : TargetsOk [⟨.delete, [0xC3, 0xA9, 10]⟩, ⟨.equal, [120]⟩, ⟨.insert, [0xC3, 0xA9, 10]⟩] [⟨0, 0, 0, 3, 0, 3⟩] := by
  intro m hm i hi
  simp only [List.mem_singleton] at hm
  subst hm
  have : i = ⟨1, 4, [0xC3, 0xA9, 10]⟩ := by
    simp [insertions, insertionsFrom] at hi; exact hi.symm
  subst this
  exact ⟨Or.inl rfl, Or.inr (Or.inl (by simp))⟩

/-- the move contract is needed: a target that starts inside a character yields the reporter's
    gap range `[0, 1)` splitting "é" -/
theorem witness_target_off_boundary :
    update [⟨.delete, [97]⟩, ⟨.insert, [0xC3, 0xA9]⟩] [] [⟨0, 0, 0, 1, 1, 2⟩] [] ['r'] 2
      = .ok [⟨0, 1, ['r'], 2⟩] ∧ isBoundary [0xC3, 0xA9] 1 = false := by decide

/-! ## 2b. Conservative: unchanged text keeps its authors, new text is the reporter's -/

/-- **C16 unchanged_keeps_author (multiset form, before merge).** For every segment list
    `pre ++ Equal d :: post`, all substantive ranges, all priors (any shape; `update` normalises
    them first), all moves whose source starts inside its deletion (`SrcOk`, part of the move
    contract checked on every real diff): after `transform`, byte `k` of the Equal segment is
    covered by exactly the (author, ts) pairs — counted with multiplicity — that covered its
    pre-image in the ORIGINAL prior list. -/
theorem unchanged_keeps_author_multiset (pre post : List Seg) (d : Text) (subst : List (Nat × Nat))
    (moves : List Move) (old : List Attr) (author : Str) (ts : Nat) (raw : List Attr)
    (hsrc : SrcOk moves 0 (pre ++ ⟨.equal, d⟩ :: post))
    (h : transform (pre ++ ⟨.equal, d⟩ :: post) subst moves (normalizeOld old) author ts = .ok raw) :
    ∀ (w : Str × Nat) (k : Nat), k < d.length →
      cov raw w ((newOf pre).length + k) = cov old w ((oldOf pre).length + k) := by
  intro w k hk
  rw [unchanged_transform pre post d subst moves _ author ts raw (normalizeOld_sortedStart old) hsrc h w k hk,
    cov_normalizeOld]

/-- **C16 unchanged_keeps_author (set form, final result).** After `update_attributions`
    (transform + merge) the SET of (author, ts) covering an unchanged byte equals the set that
    covered its pre-image. -/
theorem unchanged_keeps_author (pre post : List Seg) (d : Text) (subst : List (Nat × Nat))
    (moves : List Move) (old : List Attr) (author : Str) (ts : Nat) (out : List Attr)
    (hsrc : SrcOk moves 0 (pre ++ ⟨.equal, d⟩ :: post))
    (h : update (pre ++ ⟨.equal, d⟩ :: post) subst moves old author ts = .ok out) :
    ∀ (w : Str × Nat) (k : Nat), k < d.length →
      (Covered out w ((newOf pre).length + k) ↔ Covered old w ((oldOf pre).length + k)) := by
  intro w k hk
  simp only [update] at h
  split at h
  · cases h
  · rename_i raw hraw
    cases h
    rw [merge_covered, ← cov_pos_iff, ← cov_pos_iff,
      unchanged_keeps_author_multiset pre post d subst moves old author ts raw hsrc hraw w k hk]

/-- non-vacuity of `SrcOk`: a 5-byte deletion with a move whose source is bytes [0, 5) -/
example : SrcOk [⟨0, 0, 0, 5, 0, 5⟩] 0
    [⟨.delete, [97, 10, 98, 10, 99]⟩, ⟨.equal, [120, 10]⟩, ⟨.insert, [97, 10, 98, 10, 99]⟩] := by
  simp [SrcOk]

/-- the hypothesis is needed: a move whose source starts beyond its deletion drags the cursor
    past attributions of the following unchanged text, which then loses its author. -/
theorem witness_src_outside_deletion :
    update [⟨.delete, [97]⟩, ⟨.equal, [98, 99]⟩, ⟨.insert, [100]⟩] [] [⟨0, 0, 3, 4, 0, 1⟩]
      [⟨1, 3, ['a', 'i'], 1⟩] ['r'] 2 = .ok [] := by decide

/-- **C16 new_text_is_reporters.** A plain insertion (not the target of a move mapping) that
    contains a newline or meets a substantive range is, after `update_attributions`, covered at
    every byte by the reporter's (author, ts) and by no other pair. (Pure-whitespace inserts
    without a newline inherit a neighbour's pair: `decideInsert`; parts of a moved-into
    insertion outside the move targets are the reporter's: `gapAttrs_who`.) -/
theorem new_text_is_reporters (pre post : List Seg) (d : Text) (subst : List (Nat × Nat))
    (moves : List Move) (old : List Attr) (author : Str) (ts : Nat) (out : List Attr)
    (hplain : rangesForInsertion moves (insCount pre) = none)
    (hsub : hasNewline d = true ∨
      rangesIntersect subst (newOf pre).length ((newOf pre).length + d.length) = true)
    (h : update (pre ++ ⟨.insert, d⟩ :: post) subst moves old author ts = .ok out) :
    ∀ p, (newOf pre).length ≤ p → p < (newOf pre).length + d.length →
      Covered out (author, ts) p ∧ ∀ w, Covered out w p → w = (author, ts) := by
  intro p hp1 hp2
  simp only [update] at h
  split at h
  · cases h
  · rename_i raw hraw
    cases h
    obtain ⟨hmem, hex⟩ := new_text_exact pre post d subst moves _ author ts raw hplain hsub hraw
    constructor
    · rw [merge_covered]
      exact ⟨_, hmem, rfl, hp1, hp2⟩
    · intro w hw
      rw [merge_covered] at hw
      obtain ⟨x, hx, hxw, h1, h2⟩ := hw
      have := hex x hx p hp1 hp2 h1 h2
      rw [this] at hxw
      exact hxw.symm

/-- non-vacuity: an inserted line between two unchanged lines, no moves -/
example : rangesForInsertion [] (insCount [⟨.equal, [97, 10]⟩]) = none ∧ hasNewline [98, 10] = true := by decide

/-- pure-whitespace insert without newline inherits (here: from the preceding range), so the
    restriction to newline/substantive inserts is needed -/
theorem witness_whitespace_inherits :
    update [⟨.equal, [97]⟩, ⟨.insert, [32]⟩, ⟨.equal, [98]⟩] [] [] [⟨0, 2, ['o'], 1⟩] ['r'] 2
      = .ok [⟨0, 3, ['o'], 1⟩] := by decide

/-! ## 2c. Whitespace-only reformat -/

/-- **C16 whitespace_reformat_keeps_lines (partial: the char-level core).**
    FULL STATEMENT (not proved; checked on the real code by the oracle
    `whitespace_reformat_keeps_lines` for reformats that neither join nor split lines): if every
    Delete/Insert segment is whitespace-only, every new line containing an unchanged
    non-whitespace byte has the dominant author of the old line containing its pre-image.
    PROVED: in such a reformat (no move mappings) `transform` emits only non-empty ranges — no
    deletion marker, which would be a line-attribution candidate regardless of content — and by
    `unchanged_keeps_author` every unchanged byte, in particular every non-whitespace byte,
    keeps exactly its (author, ts) set. The candidates with non-whitespace content on a line are
    therefore the transformed priors; inserted whitespace only contributes candidates on blank
    lines. The missing step is the comparison of `dominant` on the two line contents. -/
theorem whitespace_reformat_keeps_lines_partial (segs : List Seg) (subst : List (Nat × Nat))
    (old : List Attr) (author : Str) (ts : Nat) (raw : List Attr) (hws : WsReformat segs)
    (h : transform segs subst [] (normalizeOld old) author ts = .ok raw) :
    ∀ a ∈ raw, a.start < a.stop :=
  transform_ws_nonempty segs subst _ author ts raw hws h

/-- non-vacuity: re-indenting `  x` to `    x` (Delete "  ", Insert "    ") -/
example : WsReformat [⟨.delete, [32, 32]⟩, ⟨.insert, [32, 32, 32, 32]⟩, ⟨.equal, [120]⟩] := by
  intro g hg hne
  simp only [List.mem_cons, List.mem_nil_iff, or_false] at hg
  rcases hg with rfl | rfl | rfl
  · decide
  · decide
  · exact absurd rfl hne

/-- outside the partial statement: a reformat that splits a line between two authors' tokens
    changes a line's dominant author (old line 1: latest is `b`; new line 1 holds only `a`'s token) -/
theorem witness_reformat_split_line :
    toLineAttrs [⟨0, 1, ['a'], 1⟩, ⟨2, 3, ['b'], 2⟩] [120, 32, 121, 10] = .ok [⟨1, 1, ['b'], none⟩] ∧
    (match update [⟨.equal, [120]⟩, ⟨.delete, [32]⟩, ⟨.insert, [10]⟩, ⟨.equal, [121, 10]⟩] [] []
        [⟨0, 1, ['a'], 1⟩, ⟨2, 3, ['b'], 2⟩] ['r'] 3 with
     | .ok o => toLineAttrs o [120, 10, 121, 10]
     | .error e => .error e) = .ok [⟨1, 1, ['a'], none⟩, ⟨2, 2, ['b'], none⟩] := by decide

/-! ## 3. Line ↔ char round trip -/

/-- **C16 line_char_roundtrip.** For every text whose lines start and end on char boundaries
    (every valid UTF-8 text), every list `L` of in-range, pairwise disjoint, non-human line
    attributions (any order) and every timestamp: converting `L` to char ranges and back
    succeeds (no slice panics) and assigns every line number the author `L` assigns it —
    the same AI lines with the same authors. -/
theorem line_char_roundtrip (c : Text) (L : List LineAttr) (ts : Nat) (hb : LinesOnBoundaries c)
    (hL : LinesOk (lineRanges c).length L) :
    ∃ R, toLineAttrs (lineAttrsToAttrs L c ts) c = .ok R ∧ ∀ k, lineAuthor R k = lineAuthor L k :=
  roundtrip_core c L ts hb hL

/-- non-vacuity: "é\n\n  x\r\nlast" (a blank line, CRLF, no final newline) with two disjoint,
    unsorted AI line attributions -/
example : LinesOnBoundaries [0xC3, 0xA9, 10, 10, 32, 32, 120, 13, 10, 108, 97, 115, 116] := by
  intro p hp
  have : p ∈ [(0, 3), (3, 4), (4, 9), (9, 13)] := by simpa [lineRanges, linesGo] using hp
  simp only [List.mem_cons, List.mem_nil_iff, or_false] at this
  rcases this with rfl | rfl | rfl | rfl <;> decide
example : LinesOk 4 [⟨3, 4, ['a', 'i', '2'], none⟩, ⟨1, 1, ['a', 'i', '1'], none⟩] := by
  refine ⟨?_, ?_⟩
  · intro l hl
    simp only [List.mem_cons, List.mem_nil_iff, or_false] at hl
    rcases hl with rfl | rfl <;> exact ⟨by decide, by decide, by decide, by decide⟩
  · simp [DisjointLines]

/-- excluded region 1: a line attributed to "human" is stripped by the projection, so it does
    not come back (the property speaks of AI lines). -/
theorem witness_roundtrip_human :
    toLineAttrs (lineAttrsToAttrs [⟨1, 1, human, none⟩] [97, 98, 10] 5) [97, 98, 10] = .ok [] := by decide

/-- excluded region 2: for overlapping line attributions the author of a shared line is the
    first in (start, end, index) order — the same SET of AI lines comes back (stated, not
    proved here; checked by the oracle `line_char_roundtrip_set`), not the same authors. -/
theorem witness_roundtrip_overlap :
    toLineAttrs (lineAttrsToAttrs [⟨1, 2, ['x'], none⟩, ⟨2, 2, ['y'], none⟩] [97, 10, 98, 10] 5) [97, 10, 98, 10]
      = .ok [⟨1, 2, ['x'], none⟩] := by decide

/-! ## 4. Identical text -/

/-- **C16 identity (exact form).** On an identical text (the diff is one Equal segment) and
    priors that are non-empty ranges inside the text — overlapping, unsorted, duplicated, off
    boundaries, any authors and timestamps — `update_attributions` returns exactly the
    sorted, de-duplicated, coalesced priors: nothing is moved, dropped or re-attributed, and no
    move mapping or substantive range can interfere. -/
theorem identity_update (c : Text) (subst : List (Nat × Nat)) (moves : List Move) (P : List Attr)
    (author : Str) (ts : Nat) (hP : Tame c.length P) :
    update [⟨.equal, c⟩] subst moves P author ts = .ok (merge (normalizeOld P)) :=
  update_identity c subst moves P author ts hP

/-- **C16 identity_keeps_lines (partial).** If moreover the priors are already in the normal
    form every `update_attributions` result has (`merge (normalizeOld P) = P`), the identity
    update returns them unchanged, hence every line attribution is kept.
    FULL STATEMENT (not proved; checked by the oracle `identity_keeps_lines` on the real code):
    for all in-range priors with `start ≤ end`,
    `toLineAttrs (update [Equal c] … P) c = toLineAttrs P c`.  It is false in two regions,
    witnessed below and replayed on the real code (known findings): zero-length priors
    (deletion markers are dropped by the Equal branch) and two authors sharing a timestamp on
    one line (update re-sorts by author, the first-on-tie winner flips); a third region keeps
    the authors but changes the `overrode` field (read from the last candidate in list order). -/
theorem identity_keeps_lines_partial (c : Text) (subst : List (Nat × Nat)) (moves : List Move)
    (P : List Attr) (author : Str) (ts : Nat) (hP : Tame c.length P)
    (hnorm : merge (normalizeOld P) = P) :
    update [⟨.equal, c⟩] subst moves P author ts = .ok P ∧
    (∀ out, update [⟨.equal, c⟩] subst moves P author ts = .ok out →
      toLineAttrs out c = toLineAttrs P c) := by
  have h := update_identity c subst moves P author ts hP
  rw [hnorm] at h
  refine ⟨h, ?_⟩
  intro out hout
  rw [h] at hout
  cases hout
  rfl

/-- non-vacuity of `Tame` and of the normal-form hypothesis (overlapping ranges of two authors) -/
example : Tame 6 [⟨0, 4, ['a'], 1⟩, ⟨2, 6, human, 2⟩] := by
  intro a ha
  simp only [List.mem_cons, List.mem_nil_iff, or_false] at ha
  rcases ha with rfl | rfl <;> exact ⟨by decide, by decide⟩
example : merge (normalizeOld [⟨0, 4, ['a'], 1⟩, ⟨2, 6, human, 2⟩]) = [⟨0, 4, ['a'], 1⟩, ⟨2, 6, human, 2⟩] := by
  decide

/-- excluded region 1 (known finding `identity:zero-length-prior`): a deletion marker inside
    the text is dropped by an identity update and line 1 changes from human (overrode ai) to ai. -/
theorem witness_identity_zero_length :
    toLineAttrs [⟨0, 3, ['a', 'i'], 1⟩, ⟨1, 1, human, 2⟩] [97, 98, 10]
      = .ok [⟨1, 1, human, some ['a', 'i']⟩] ∧
    update [⟨.equal, [97, 98, 10]⟩] [] [] [⟨0, 3, ['a', 'i'], 1⟩, ⟨1, 1, human, 2⟩] ['a', 'i'] 9
      = .ok [⟨0, 3, ['a', 'i'], 1⟩] ∧
    toLineAttrs [⟨0, 3, ['a', 'i'], 1⟩] [97, 98, 10] = .ok [⟨1, 1, ['a', 'i'], none⟩] := by decide

/-- excluded region 2 (known finding `identity:timestamp-shared-by-authors`): two authors with
    the same timestamp on the same range; the update sorts by author and the winner flips. -/
theorem witness_identity_ts_tie :
    toLineAttrs [⟨0, 3, ['b'], 1⟩, ⟨0, 3, ['a'], 1⟩] [97, 98, 10] = .ok [⟨1, 1, ['b'], none⟩] ∧
    update [⟨.equal, [97, 98, 10]⟩] [] [] [⟨0, 3, ['b'], 1⟩, ⟨0, 3, ['a'], 1⟩] ['z'] 9
      = .ok [⟨0, 3, ['a'], 1⟩, ⟨0, 3, ['b'], 1⟩] ∧
    toLineAttrs [⟨0, 3, ['a'], 1⟩, ⟨0, 3, ['b'], 1⟩] [97, 98, 10] = .ok [⟨1, 1, ['a'], none⟩] := by decide

/-- excluded region 3 (known finding `identity:overrode-depends-on-prior-order`): three priors
    on the same range with distinct timestamps; the dominant author `b` is kept, but `overrode`
    is read from the LAST AI / human candidate in list order, and the update re-sorts the
    list by author: `overrode = a` becomes `none`. -/
theorem witness_identity_overrode_order :
    toLineAttrs [⟨0, 3, ['b'], 6⟩, ⟨0, 3, ['a'], 0⟩, ⟨0, 3, human, 5⟩] [97, 98, 10]
      = .ok [⟨1, 1, ['b'], some ['a']⟩] ∧
    update [⟨.equal, [97, 98, 10]⟩] [] [] [⟨0, 3, ['b'], 6⟩, ⟨0, 3, ['a'], 0⟩, ⟨0, 3, human, 5⟩] ['z'] 9
      = .ok [⟨0, 3, ['a'], 0⟩, ⟨0, 3, ['b'], 6⟩, ⟨0, 3, human, 5⟩] ∧
    toLineAttrs [⟨0, 3, ['a'], 0⟩, ⟨0, 3, ['b'], 6⟩, ⟨0, 3, human, 5⟩] [97, 98, 10]
      = .ok [⟨1, 1, ['b'], none⟩] := by decide

end GitAi.Tracker

#print axioms GitAi.Tracker.witness_identity_overrode_order
#print axioms GitAi.Tracker.on_boundaries
#print axioms GitAi.Tracker.witness_target_off_boundary
#print axioms GitAi.Tracker.whitespace_reformat_keeps_lines_partial
#print axioms GitAi.Tracker.witness_reformat_split_line
#print axioms GitAi.Tracker.unchanged_keeps_author_multiset
#print axioms GitAi.Tracker.unchanged_keeps_author
#print axioms GitAi.Tracker.witness_src_outside_deletion
#print axioms GitAi.Tracker.new_text_is_reporters
#print axioms GitAi.Tracker.witness_whitespace_inherits
#print axioms GitAi.Tracker.line_char_roundtrip
#print axioms GitAi.Tracker.witness_roundtrip_human
#print axioms GitAi.Tracker.witness_roundtrip_overlap
#print axioms GitAi.Tracker.identity_update
#print axioms GitAi.Tracker.identity_keeps_lines_partial
#print axioms GitAi.Tracker.witness_identity_zero_length
#print axioms GitAi.Tracker.witness_identity_ts_tie
#print axioms GitAi.Tracker.no_panic
#print axioms GitAi.Tracker.witness_bad_insertion_index
#print axioms GitAi.Tracker.in_bounds
