/-
  Props/C16.lean — property C16: the attribution tracker is total, bounded and conservative.

  Only property theorems, their non-vacuity examples and the axiom audit live here.
  Model: Model/Tracker.lean (mirror of attribution_tracker.rs after the two `fix:` commits
  recorded in known_findings.json).  The diff and the move detector are parameters: every
  theorem quantifies over ALL segment lists / substantive ranges / move mappings, subject only
  to the stated hypotheses, which the harness checks on every real diff.
-/
import GitAiModel.Lemmas.Tracker
namespace GitAi.Tracker
open GitAi

/-! ## 1. Totality: no panic -/

/-- **C16 no_panic (update).** For all segment lists, substantive ranges, prior attribution
    lists (overlapping, unsorted, out of range, zero-length, inverted), authors and timestamps,
    and all move mappings that name an existing insertion, `update_attributions` (phases 2, 4
    and 5: catalog, transform, merge) reaches no out-of-range index: `.panic` is unreachable.
    Termination is Lean's: every loop is structural or fuel-bounded by a length. -/
theorem no_panic (segs : List Seg) (subst : List (Nat × Nat)) (moves : List Move)
    (old : List Attr) (author : Str) (ts : Nat) (hm : MovesIndexed segs moves) :
    ∃ out, update segs subst moves old author ts = .ok out := by
  obtain ⟨out, h⟩ := transform_ok segs subst moves (normalizeOld old) author ts hm
  exact ⟨merge out, by simp only [update, h]⟩

/-- non-vacuity of `MovesIndexed` (one deletion, one insertion, one move between them) -/
example : MovesIndexed [⟨.delete, [97, 10]⟩, ⟨.equal, [98, 10]⟩, ⟨.insert, [97, 10]⟩] [⟨0, 0, 0, 2, 0, 2⟩] := by
  intro m hm
  simp only [List.mem_singleton] at hm
  subst hm
  decide

/-- the hypothesis is needed: a move naming a missing insertion is an index out of range
    (`insertions[mapping.insertion_idx]`); the real move detector only emits indices it read
    from the catalog (`insertions.get(..)`), which the harness checks on every diff. -/
theorem witness_bad_insertion_index :
    update [⟨.delete, [97, 10]⟩, ⟨.insert, [98, 10]⟩] [] [⟨0, 5, 0, 2, 0, 2⟩] [] ['a'] 1
      = .error .panic := by decide

/-! ## 2. Bounds -/

/-- **C16 in_bounds.** Every range returned by `update_attributions` satisfies
    `start ≤ end ≤ |new|` — for all inputs, with NO hypothesis on the move mappings (their
    source and target may differ in length, as the real detector's do: DESIGN O13). -/
theorem in_bounds (segs : List Seg) (subst : List (Nat × Nat)) (moves : List Move)
    (old : List Attr) (author : Str) (ts : Nat) (out : List Attr)
    (h : update segs subst moves old author ts = .ok out) :
    ∀ a ∈ out, a.start ≤ a.stop ∧ a.stop ≤ (newOf segs).length := by
  simp only [update] at h
  split at h
  · cases h
  · rename_i raw hraw
    cases h
    exact merge_bnd _ raw (transform_bnd segs subst moves _ author ts raw hraw)

/-- regression instance of O13 in the model: a 2-byte source carried into a 1-byte target at
    the very end of the new text stays inside it (before the `fix:` the range was `[13, 15)`
    with `|new| = 14`). -/
example :
    update [⟨.insert, [0xC3, 0x9F, 10]⟩, ⟨.equal, [114, 101, 116, 117, 114, 110, 10, 96, 116, 96]⟩,
            ⟨.insert, [32]⟩, ⟨.delete, [101, 108, 115, 101, 13, 10]⟩]
      [] [⟨0, 1, 0, 2, 0, 1⟩] [⟨0, 16, human, 1⟩] ['A'] 1
    = .ok [⟨0, 3, ['A'], 1⟩, ⟨3, 14, human, 1⟩] := by decide

end GitAi.Tracker

#print axioms GitAi.Tracker.no_panic
#print axioms GitAi.Tracker.witness_bad_insertion_index
#print axioms GitAi.Tracker.in_bounds
