/-
  Props/C16.lean — property C16: the attribution tracker is total, bounded and conservative.

  Only property theorems, their non-vacuity examples and the axiom audit live here.
  Model: Model/Tracker.lean (mirror of attribution_tracker.rs after the two `fix:` commits
  recorded in known_findings.json).  The diff and the move detector are parameters: every
  theorem quantifies over ALL segment lists / substantive ranges / move mappings, subject only
  to the stated hypotheses, which the harness checks on every real diff.
-/
import GitAiModel.Lemmas.Tracker
import GitAiModel.Lemmas.TrackerRoundtrip
import GitAiModel.Lemmas.TrackerIdentity
namespace GitAi.Tracker
open GitAi

/-! ## 1. Totality: no panic -/

/-- **C16 no_panic (update).** For all segment lists, substantive ranges, prior attribution
    lists (overlapping, unsorted, out of range, zero-length, inverted), authors and timestamps,
    and all move mappings that name an existing insertion, `update_attributions` (phases 2, 4
    and 5: catalog, transform, merge) reaches no out-of-range index: `.panic` is unreachable.
    Termination is Lean's: every loop is structural or fuel-bounded by a length. -/
theorem no_panic (segs : List Seg) (subst : List (Nat × Nat)) (moves : List Move)
    (old : List Attr) (author : Str) (ts : Nat) (hm : MovesIndexed segs moves) :
    ∃ out, update segs subst moves old author ts = .ok out := by
  obtain ⟨out, h⟩ := transform_ok segs subst moves (normalizeOld old) author ts hm
  exact ⟨merge out, by simp only [update, h]⟩

/-- non-vacuity of `MovesIndexed` (one deletion, one insertion, one move between them) -/
example : MovesIndexed [⟨.delete, [97, 10]⟩, ⟨.equal, [98, 10]⟩, ⟨.insert, [97, 10]⟩] [⟨0, 0, 0, 2, 0, 2⟩] := by
  intro m hm
  simp only [List.mem_singleton] at hm
  subst hm
  decide

/-- the hypothesis is needed: a move naming a missing insertion is an index out of range
    (`insertions[mapping.insertion_idx]`); the real move detector only emits indices it read
    from the catalog (`insertions.get(..)`), which the harness checks on every diff. -/
theorem witness_bad_insertion_index :
    update [⟨.delete, [97, 10]⟩, ⟨.insert, [98, 10]⟩] [] [⟨0, 5, 0, 2, 0, 2⟩] [] ['a'] 1
      = .error .panic := by decide

/-! ## 2. Bounds -/

/-- **C16 in_bounds.** Every range returned by `update_attributions` satisfies
    `start ≤ end ≤ |new|` — for all inputs, with NO hypothesis on the move mappings (their
    source and target may differ in length, as the real detector's do: DESIGN O13). -/
theorem in_bounds (segs : List Seg) (subst : List (Nat × Nat)) (moves : List Move)
    (old : List Attr) (author : Str) (ts : Nat) (out : List Attr)
    (h : update segs subst moves old author ts = .ok out) :
    ∀ a ∈ out, a.start ≤ a.stop ∧ a.stop ≤ (newOf segs).length := by
  simp only [update] at h
  split at h
  · cases h
  · rename_i raw hraw
    cases h
    exact merge_bnd _ raw (transform_bnd segs subst moves _ author ts raw hraw)

/-- regression instance of O13 in the model: a 2-byte source carried into a 1-byte target at
    the very end of the new text stays inside it (before the `fix:` the range was `[13, 15)`
    with `|new| = 14`). -/
example :
    update [⟨.insert, [0xC3, 0x9F, 10]⟩, ⟨.equal, [114, 101, 116, 117, 114, 110, 10, 96, 116, 96]⟩,
            ⟨.insert, [32]⟩, ⟨.delete, [101, 108, 115, 101, 13, 10]⟩]
      [] [⟨0, 1, 0, 2, 0, 1⟩] [⟨0, 16, human, 1⟩] ['A'] 1
    = .ok [⟨0, 3, ['A'], 1⟩, ⟨3, 14, human, 1⟩] := by decide

/-! ## 3. Line ↔ char round trip -/

/-- **C16 line_char_roundtrip.** For every text whose lines start and end on char boundaries
    (every valid UTF-8 text), every list `L` of in-range, pairwise disjoint, non-human line
    attributions (any order) and every timestamp: converting `L` to char ranges and back
    succeeds (no slice panics) and assigns every line number the author `L` assigns it —
    the same AI lines with the same authors. -/
theorem line_char_roundtrip (c : Text) (L : List LineAttr) (ts : Nat) (hb : LinesOnBoundaries c)
    (hL : LinesOk (lineRanges c).length L) :
    ∃ R, toLineAttrs (lineAttrsToAttrs L c ts) c = .ok R ∧ ∀ k, lineAuthor R k = lineAuthor L k :=
  roundtrip_core c L ts hb hL

/-- non-vacuity: "é\n\n  x\r\nlast" (a blank line, CRLF, no final newline) with two disjoint,
    unsorted AI line attributions -/
example : LinesOnBoundaries [0xC3, 0xA9, 10, 10, 32, 32, 120, 13, 10, 108, 97, 115, 116] := by
  intro p hp
  have : p ∈ [(0, 3), (3, 4), (4, 9), (9, 13)] := by simpa [lineRanges, linesGo] using hp
  simp only [List.mem_cons, List.mem_nil_iff, or_false] at this
  rcases this with rfl | rfl | rfl | rfl <;> decide
example : LinesOk 4 [⟨3, 4, ['a', 'i', '2'], none⟩, ⟨1, 1, ['a', 'i', '1'], none⟩] := by
  refine ⟨?_, ?_⟩
  · intro l hl
    simp only [List.mem_cons, List.mem_nil_iff, or_false] at hl
    rcases hl with rfl | rfl <;> exact ⟨by decide, by decide, by decide, by decide⟩
  · simp [DisjointLines]

/-- excluded region 1: a line attributed to "human" is stripped by the projection, so it does
    not come back (the property speaks of AI lines). -/
theorem witness_roundtrip_human :
    toLineAttrs (lineAttrsToAttrs [⟨1, 1, human, none⟩] [97, 98, 10] 5) [97, 98, 10] = .ok [] := by decide

/-- excluded region 2: for overlapping line attributions the author of a shared line is the
    first in (start, end, index) order — the same SET of AI lines comes back (stated, not
    proved here; checked by the oracle `line_char_roundtrip_set`), not the same authors. -/
theorem witness_roundtrip_overlap :
    toLineAttrs (lineAttrsToAttrs [⟨1, 2, ['x'], none⟩, ⟨2, 2, ['y'], none⟩] [97, 10, 98, 10] 5) [97, 10, 98, 10]
      = .ok [⟨1, 2, ['x'], none⟩] := by decide

/-! ## 4. Identical text -/

/-- **C16 identity (exact form).** On an identical text (the diff is one Equal segment) and
    priors that are non-empty ranges inside the text — overlapping, unsorted, duplicated, off
    boundaries, any authors and timestamps — `update_attributions` returns exactly the
    sorted, de-duplicated, coalesced priors: nothing is moved, dropped or re-attributed, and no
    move mapping or substantive range can interfere. -/
theorem identity_update (c : Text) (subst : List (Nat × Nat)) (moves : List Move) (P : List Attr)
    (author : Str) (ts : Nat) (hP : Tame c.length P) :
    update [⟨.equal, c⟩] subst moves P author ts = .ok (merge (normalizeOld P)) :=
  update_identity c subst moves P author ts hP

/-- **C16 identity_keeps_lines (partial).** If moreover the priors are already in the normal
    form every `update_attributions` result has (`merge (normalizeOld P) = P`), the identity
    update returns them unchanged, hence every line attribution is kept.
    FULL STATEMENT (not proved; checked by the oracle `identity_keeps_lines` on the real code):
    for all in-range priors with `start ≤ end`,
    `toLineAttrs (update [Equal c] … P) c = toLineAttrs P c`.  It is false in two regions,
    witnessed below and replayed on the real code (known findings): zero-length priors
    (deletion markers are dropped by the Equal branch) and two authors sharing a timestamp on
    one line (update re-sorts by author, the first-on-tie winner flips). -/
theorem identity_keeps_lines_partial (c : Text) (subst : List (Nat × Nat)) (moves : List Move)
    (P : List Attr) (author : Str) (ts : Nat) (hP : Tame c.length P)
    (hnorm : merge (normalizeOld P) = P) :
    update [⟨.equal, c⟩] subst moves P author ts = .ok P ∧
    (∀ out, update [⟨.equal, c⟩] subst moves P author ts = .ok out →
      toLineAttrs out c = toLineAttrs P c) := by
  have h := update_identity c subst moves P author ts hP
  rw [hnorm] at h
  refine ⟨h, ?_⟩
  intro out hout
  rw [h] at hout
  cases hout
  rfl

/-- non-vacuity of `Tame` and of the normal-form hypothesis (overlapping ranges of two authors) -/
example : Tame 6 [⟨0, 4, ['a'], 1⟩, ⟨2, 6, human, 2⟩] := by
  intro a ha
  simp only [List.mem_cons, List.mem_nil_iff, or_false] at ha
  rcases ha with rfl | rfl <;> exact ⟨by decide, by decide⟩
example : merge (normalizeOld [⟨0, 4, ['a'], 1⟩, ⟨2, 6, human, 2⟩]) = [⟨0, 4, ['a'], 1⟩, ⟨2, 6, human, 2⟩] := by
  decide

/-- excluded region 1 (known finding `identity:zero-length-prior`): a deletion marker inside
    the text is dropped by an identity update and line 1 changes from human (overrode ai) to ai. -/
theorem witness_identity_zero_length :
    toLineAttrs [⟨0, 3, ['a', 'i'], 1⟩, ⟨1, 1, human, 2⟩] [97, 98, 10]
      = .ok [⟨1, 1, human, some ['a', 'i']⟩] ∧
    update [⟨.equal, [97, 98, 10]⟩] [] [] [⟨0, 3, ['a', 'i'], 1⟩, ⟨1, 1, human, 2⟩] ['a', 'i'] 9
      = .ok [⟨0, 3, ['a', 'i'], 1⟩] ∧
    toLineAttrs [⟨0, 3, ['a', 'i'], 1⟩] [97, 98, 10] = .ok [⟨1, 1, ['a', 'i'], none⟩] := by decide

/-- excluded region 2 (known finding `identity:timestamp-shared-by-authors`): two authors with
    the same timestamp on the same range; the update sorts by author and the winner flips. -/
theorem witness_identity_ts_tie :
    toLineAttrs [⟨0, 3, ['b'], 1⟩, ⟨0, 3, ['a'], 1⟩] [97, 98, 10] = .ok [⟨1, 1, ['b'], none⟩] ∧
    update [⟨.equal, [97, 98, 10]⟩] [] [] [⟨0, 3, ['b'], 1⟩, ⟨0, 3, ['a'], 1⟩] ['z'] 9
      = .ok [⟨0, 3, ['a'], 1⟩, ⟨0, 3, ['b'], 1⟩] ∧
    toLineAttrs [⟨0, 3, ['a'], 1⟩, ⟨0, 3, ['b'], 1⟩] [97, 98, 10] = .ok [⟨1, 1, ['a'], none⟩] := by decide

end GitAi.Tracker

#print axioms GitAi.Tracker.line_char_roundtrip
#print axioms GitAi.Tracker.witness_roundtrip_human
#print axioms GitAi.Tracker.witness_roundtrip_overlap
#print axioms GitAi.Tracker.identity_update
#print axioms GitAi.Tracker.identity_keeps_lines_partial
#print axioms GitAi.Tracker.witness_identity_zero_length
#print axioms GitAi.Tracker.witness_identity_ts_tie
#print axioms GitAi.Tracker.no_panic
#print axioms GitAi.Tracker.witness_bad_insertion_index
#print axioms GitAi.Tracker.in_bounds
