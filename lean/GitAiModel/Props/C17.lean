/-
  Props/C17.lean — property C17: authorship logs survive a write/read round trip unchanged.

  Only property theorems, their non-vacuity examples and the axiom audit live here.
  Model: Model/NoteFormat.lean (mirror of authorship_log_serialization.rs).
-/
import GitAiModel.Lemmas.NoteFormat
import GitAiModel.Base.Chars
namespace GitAi.NoteFormat
open GitAi

/-! ## 1. Round trip -/

/-- **C17 round trip.** For every log satisfying the decidable predicate `Serializable`
    (the exact region the current serializer/parser pair handles; everything outside it has a
    negation witness below) and every metadata text with serde's pretty-printer facts,
    parsing the serialized text returns the same files, hashes, range multisets (stably
    sorted by start) and the same metadata text. -/
theorem roundtrip (fs : List FileAtt) (J : Str)
    (h : Serializable fs = true) (hJ : jsonOk J = true) :
    deserialize (serialize fs J) = .ok (normalise fs, J) := by
  have hfacts := attLines_facts fs h
  simp only [jsonOk, Bool.and_eq_true, Bool.not_eq_true', bne_iff_ne, ne_eq] at hJ
  have hcr : '\r' ∉ J := (not_contains_iff _ _).1 hJ.1
  have hlines : rustLines (serialize fs J) = attLines fs ++ divider :: rustLines J := by
    unfold serialize
    rw [rustLines_unlinesNl _ _ (fun l hl => (hfacts l hl).1)]
    have : ('-' :: '-' :: '-' :: '\n' :: J) = divider ++ '\n' :: J := rfl
    rw [this, rustLines_cons _ _ (by decide), stripCr_eq_self _ (by decide)]
  unfold deserialize
  rw [hlines, splitAtDivider_append _ _ (fun l hl => (hfacts l hl).2)]
  simp only [parseAtt_attLines fs h, joinWith_rustLines J hcr hJ.2]
  simp [flush]

/-- `normalise` only reorders ranges inside an entry and drops files without entries:
    the range multiset of each entry is preserved (membership both ways). -/
theorem normalise_keeps_ranges (e : Entry) (r : LineRange) :
    r ∈ (normEntry e).ranges ↔ r ∈ e.ranges := by
  simp [normEntry, mem_sortByStart]

theorem normalise_keeps_hash (e : Entry) : (normEntry e).hash = e.hash := rfl

/-- non-vacuity: a concrete non-trivial log (quoted path, a path equal to the divider, a
    quote-shaped path, NBSP, an empty-range entry, unsorted ranges) meets the hypotheses. -/
example : Serializable [⟨chars% "src/my file.rs",
    [⟨chars% "d9978a8723e02b52", [.range 9 10, .single 1, .range 1 4]⟩,
     ⟨chars% "e5be5f8723e02b52", [.single 4294967295]⟩, ⟨chars% "00", []⟩]⟩,
    ⟨chars% "---", [⟨chars% "h", [.single 1]⟩]⟩, ⟨chars% "\"q\"", []⟩,
    ⟨chars% "a\u00a0", [⟨chars% "h", [.single 2]⟩]⟩] = true := by decide
example : jsonOk (chars% "{\n  \"a\": 1\n}") = true := by decide

/-! ### Regression instances of shapes that failed before the `fix:` commit in /repo
    (DESIGN appendix A, O5/O15): they are now inside `Serializable` and round-trip. -/

example : deserialize (serialize [⟨chars% "---", [⟨chars% "h", [.single 1]⟩]⟩] (chars% "{}"))
    = .ok ([⟨chars% "---", [⟨chars% "h", [.single 1]⟩]⟩], chars% "{}") := by decide
example : deserialize (serialize [⟨chars% "\"q\"", [⟨chars% "h", [.single 1]⟩]⟩] (chars% "{}"))
    = .ok ([⟨chars% "\"q\"", [⟨chars% "h", [.single 1]⟩]⟩], chars% "{}") := by decide
example : deserialize (serialize [⟨chars% "a\r", [⟨chars% "h", [.single 1]⟩]⟩] (chars% "{}"))
    = .ok ([⟨chars% "a\r", [⟨chars% "h", [.single 1]⟩]⟩], chars% "{}") := by decide
example : deserialize (serialize [⟨chars% "a", [⟨chars% "h", []⟩, ⟨chars% "g", [.single 3]⟩]⟩] (chars% "{}"))
    = .ok ([⟨chars% "a", [⟨chars% "g", [.single 3]⟩]⟩], chars% "{}") := by decide

/-! ### The remaining excluded shape has a negation witness (known finding). -/

/-- a path containing a newline does not round-trip: the format has no escaping, and
    `str::lines` splits the quoted path. -/
theorem witness_newline_path :
    deserialize (serialize [⟨chars% "a\nb c", [⟨chars% "h", [.single 1]⟩]⟩] (chars% "{}"))
      ≠ .ok (normalise [⟨chars% "a\nb c", [⟨chars% "h", [.single 1]⟩]⟩], chars% "{}") := by decide

/-! ## 2. Grammar of the serialized text (standard v3 §1.2) -/

/-- range starts ascend -/
def Ascending (l : List LineRange) : Prop := List.Pairwise (fun a b => a.start ≤ b.start) l

/-- a line of the attestation section -/
inductive AttLine : Str → Prop
  /-- unquoted path: contains no space, tab or newline (so in particular no leading space) -/
  | path (p : Str) (h : needsQuoting p = false) : AttLine p
  /-- path with whitespace: wrapped in double quotes -/
  | quoted (p : Str) (h : needsQuoting p = true) : AttLine ('"' :: (p ++ ['"']))
  /-- two-space indent, hash, one space, comma-separated ranges (no spaces) ascending by start -/
  | entry (hash : Str) (rs : List LineRange) (h : Ascending rs) :
      AttLine (' ' :: ' ' :: hash ++ ' ' :: joinWith ',' (rs.map fmtRange))

theorem insertFront_ascending (r : LineRange) (l : List LineRange) (h : Ascending l) :
    Ascending (sortByStart.insertFront r l) := by
  induction l with
  | nil => simp [sortByStart.insertFront, Ascending]
  | cons x xs ih =>
    unfold Ascending at h ih ⊢
    rw [List.pairwise_cons] at h
    unfold sortByStart.insertFront
    split
    · rename_i hle
      rw [List.pairwise_cons]
      refine ⟨?_, List.pairwise_cons.2 h⟩
      intro y hy
      simp at hy
      rcases hy with rfl | hy
      · exact hle
      · exact Nat.le_trans hle (h.1 y hy)
    · rename_i hnle
      rw [List.pairwise_cons]
      refine ⟨?_, ih h.2⟩
      intro y hy
      rcases (mem_insertFront r y xs).1 hy with rfl | hy
      · omega
      · exact h.1 y hy

theorem sortByStart_ascending (l : List LineRange) : Ascending (sortByStart l) := by
  induction l with
  | nil => simp [sortByStart, Ascending]
  | cons x xs ih => exact insertFront_ascending x _ ih

theorem attLines_grammar (fs : List FileAtt) : ∀ l ∈ attLines fs, AttLine l := by
  induction fs with
  | nil => simp [attLines]
  | cons f fs ih =>
    intro l hl
    simp only [attLines, List.mem_cons, List.mem_append, List.mem_map] at hl
    rcases hl with rfl | ⟨e, _, rfl⟩ | hl
    · unfold pathLine
      split
      · rename_i hq; exact AttLine.quoted _ hq
      · rename_i hq; exact AttLine.path _ (by simpa using hq)
    · exact AttLine.entry e.hash (sortByStart e.ranges) (sortByStart_ascending _)
    · exact ih l hl

/-- **C17 grammar.** The serialized text is: attestation lines (each an `AttLine`, each
    terminated by `\n`), then exactly the divider line, then the JSON text. For serializable
    logs no attestation line is itself a divider and none contains a newline, so there is
    exactly one divider line before the JSON object. -/
theorem grammar (fs : List FileAtt) (J : Str) :
    ∃ ls : List Str, (∀ l ∈ ls, AttLine l) ∧
      serialize fs J = unlinesNl ls ++ (divider ++ '\n' :: J) ∧
      (Serializable fs = true → ∀ l ∈ ls, l ≠ divider ∧ '\n' ∉ l) := by
  refine ⟨attLines fs, attLines_grammar fs, rfl, ?_⟩
  intro h l hl
  have := attLines_facts fs h l hl
  exact ⟨this.2, this.1.1⟩

/-! ## 3. Parsing is total; text without a divider is rejected -/

/-- **no divider ⇒ rejected.** -/
theorem no_divider_rejected (t : Str) (h : divider ∉ rustLines t) :
    deserialize t = .error .noDivider := by
  have : ∀ ls : List Str, divider ∉ ls → splitAtDivider ls = none := by
    intro ls
    induction ls with
    | nil => intro _; rfl
    | cons l ls ih =>
      intro hm
      have h1 : l ≠ divider := fun e => hm (by simp [e])
      have h2 : divider ∉ ls := fun e => hm (by simp [e])
      simp [splitAtDivider, h1, ih h2]
  simp [deserialize, this _ h]

theorem parsePathLine_no_panic (line : Str) : parsePathLine line ≠ .error .panic := by
  unfold parsePathLine
  split <;> simp

theorem parseParts_no_panic (ps : List Str) : parseParts ps ≠ .error .panic := by
  induction ps with
  | nil => simp [parseParts]
  | cons p ps ih =>
    unfold parseParts
    split
    · exact ih
    · have hp : ∀ e, parsePart p = .error e → e = .badInt := by
        intro e he
        unfold parsePart at he
        repeat' split at he
        all_goals first | (cases he; rfl) | cases he
      split
      · rename_i e he; rw [hp e he]; simp
      · split
        · rename_i e he; intro h; cases h; exact ih he
        · simp

theorem parseAtt_no_panic (ls : List Str)
    (acc : List FileAtt) (cur : Option FileAtt) : parseAtt ls acc cur ≠ .error .panic := by
  induction ls generalizing acc cur with
  | nil => simp [parseAtt]
  | cons l ls ih =>
    have ih' := ih
    rw [parseAtt]
    split
    · exact ih' _ _
    · split
      · split
        · simp
        · split
          · rename_i e he
            intro hh; cases hh
            exact parseParts_no_panic _ he
          · split
            · simp
            · exact ih' _ _
      · split
        · rename_i e he
          intro hh; cases hh
          exact parsePathLine_no_panic _ he
        · exact ih' _ _

/-- **C17 parse totality.** `deserialize` is a total function (Lean totality: it returns a
    value on every text) and on no text does it reach an out-of-range slice: every Rust
    index/slice in the parser is modelled as a guarded operation and `.panic` is unreachable. -/
theorem parse_no_panic (t : Str) : deserialize t ≠ .error .panic := by
  unfold deserialize
  split
  · simp
  · rename_i att json hs
    have hatt := parseAtt_no_panic att [] none
    split
    · rename_i e he; intro hh; cases hh; exact hatt he
    · simp

/-- regression instance: the lone-quote line that used to panic (O15) is a plain path now -/
example : deserialize (chars% "\"\n  h 1\n---\n{}") = .ok ([⟨chars% "\"", [⟨chars% "h", [.single 1]⟩]⟩], chars% "{}") := by
  decide

end GitAi.NoteFormat

#print axioms GitAi.NoteFormat.roundtrip
#print axioms GitAi.NoteFormat.normalise_keeps_ranges
#print axioms GitAi.NoteFormat.grammar
#print axioms GitAi.NoteFormat.sortByStart_ascending
#print axioms GitAi.NoteFormat.no_divider_rejected
#print axioms GitAi.NoteFormat.parse_no_panic
#print axioms GitAi.NoteFormat.witness_newline_path
