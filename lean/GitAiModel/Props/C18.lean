/-
  Props/C18.lean — property C18: the proxy hands git exactly the arguments the user typed.

  Only property theorems, their non-vacuity examples, negation witnesses and the axiom audit.
  Models: Model/Cli.lean (cli_parser.rs), Model/Alias.lean (git_handlers.rs), tables
  Extracted/CliTables.lean (regenerated), git reference Model/GitRef.lean.
-/
import GitAiModel.Lemmas.CliGit
import GitAiModel.Lemmas.Alias
import GitAiModel.Lemmas.AliasGit
import GitAiModel.Base.Chars
namespace GitAi.C18
open GitAi GitAi.Cli GitAi.Alias GitAi.GitRef CliTables

/-! ## 1. Argv identity -/

/-- **C18 identity.** For every argument vector: if the first pass buffered no meta token
    (`-h`, `--help`, `-v`, `--version`, `--html-path`, `--man-path`, `--info-path` before the
    command position),
    the reconstruction is the vector itself — same tokens, same order, including `--`,
    attached and detached option values, unknown dash options, empty strings. -/
theorem identity_without_meta (a : List Str) (h : preMeta a = []) : toVec (parse a) = a :=
  toVec_parse_of_no_meta a h

/-- the hypothesis in terms of the tokens alone: no token of the vector is classified as a
    meta option (sufficient; a meta spelling *after* the command position is harmless too). -/
theorem identity_no_meta_token (a : List Str) (h : ∀ t ∈ a, classify t ≠ .metaNoValue) :
    toVec (parse a) = a := by
  apply identity_without_meta
  unfold preMeta
  cases hm : (scan a [] []).pmeta with
  | nil => rfl
  | cons t ts =>
    have := scan_pmeta_mem a [] [] t (by rw [hm]; exact List.mem_cons_self)
    rcases this with h0 | ⟨h1, h2⟩
    · cases h0
    · exact absurd h2 (h t h1)

/-- the first pass never reaches `all[i + 1]` without a next token -/
theorem parse_no_panic (a : List Str) : (scan a [] []).panicked = false :=
  scan_not_panicked a [] []

/-- non-vacuity: a vector with attached and detached values, `-c k=v`, `-C dir`, an unknown
    dash option, an empty string, unicode, a top-level `--` and a dash-leading command. -/
example : preMeta [chars% "-c", chars% "a=b", chars% "-C", chars% "dir", chars% "--git-dir=/x",
    chars% "--exec-path", chars% "status", chars% "--no-pager", chars% "--",
    chars% "--weird", chars% "", chars% "é", chars% "--help"] = [] := by decide
example : preMeta [chars% "-p", chars% "--bogus", chars% "--version", chars% "commit"] = [] := by decide
example : ∀ t ∈ [chars% "-c", chars% "--amend", chars% "commit", chars% "-m", chars% ""],
    classify t ≠ .metaNoValue := by decide

/-! ## 2. Documented normalisation (`--help`, `-h` → `help`; `--version`, `-v` → `version`)

  Full statement (FALSE for the current code, witnesses below):
      ∀ a, toVec (parse a) = gitNormalise a
  where `gitNormalise` (Model/GitRef.lean) is git's own conversion: the token at which git's
  option scan stops is replaced in place, nothing else moves.  -/

/-- **C18 documented normalisation (partial).**  `a = P ++ t :: R` where git consumes `P` as
    global options (`gitConsumes`), none of them in a spelling git-ai's table lacks
    (`gitOnly`), `t` is a help/version token and the tail `R` satisfies `tailOk`
    (Lemmas/CliGit.lean): then what git-ai hands to git is exactly git's own conversion.
    The missing hypotheses of the full statement are `tailOk` and "the first meta token is a
    help/version token" — each has a negation witness below. -/
theorem documented_normalisation_partial (P R : List Str) (t : Str)
    (hG : gitConsumes P = true) (hC : ∀ x ∈ P, x ∉ gitOnly)
    (ht : t ∈ helpTokens ++ versionTokens) (hR : tailOk (isVersionTok t) R = true) :
    toVec (parse (P ++ t :: R)) = gitNormalise (P ++ t :: R) ∧
      gitNormalise (P ++ t :: R) = P ++ normWord t :: R := by
  have hP := consumes_of_gitConsumes P hG hC
  have hN := gitNormalise_help_version P R t hG ht
  refine ⟨?_, hN⟩
  rw [hN]
  rcases List.mem_append.1 ht with h | h
  · have hv : isVersionTok t = false := by
      cases hv : isVersionTok t
      · rfl
      · have hm : t ∈ versionTokens := by simpa [isVersionTok] using hv
        have := tbl_help_version_disjoint t hm
        simp [isHelpTok, h] at this
    rw [hv] at hR
    simp only [normWord, hv, Bool.false_eq_true, if_false]
    exact toVec_parse_help P R t hP h hR
  · have hv : isVersionTok t = true := by simpa [isVersionTok] using h
    rw [hv] at hR
    simp only [normWord, hv, if_true]
    exact toVec_parse_version P R t hP h hR

/-- non-vacuity of every hypothesis, on `git -c a=b --no-pager --help commit -a --help` -/
example : gitConsumes [chars% "-c", chars% "a=b", chars% "--no-pager"] = true := by decide
example : ∀ x ∈ [chars% "-c", chars% "a=b", chars% "--no-pager"], x ∉ gitOnly := by decide
example : chars% "--help" ∈ helpTokens ++ versionTokens := by decide
example : tailOk (isVersionTok (chars% "--help")) [chars% "commit", chars% "-a", chars% "--help"] = true := by decide
example : tailOk (isVersionTok (chars% "--version")) [chars% "--build-options"] = true := by decide
example : tailOk (isVersionTok (chars% "-h")) [chars% "-a", chars% "--no-verbose"] = true := by decide
example : tailOk (isVersionTok (chars% "-v")) [] = true := by decide

/-! ### negation witnesses for the excluded region (each replayed on the real code:
      corpus/C18/cases.jsonl; known findings) -/

/-- O10a: a path-query option before a command is dropped; git would print the path and exit,
    git-ai runs the command. -/
theorem witness_path_query_dropped :
    toVec (parse [chars% "--html-path", chars% "status", chars% "--short"])
      = [chars% "status", chars% "--short"] ∧
    gitNormalise [chars% "--html-path", chars% "status", chars% "--short"]
      = [chars% "--html-path", chars% "status", chars% "--short"] := by decide

/-- a top-level option after the help/version token is moved in front of it
    (`git --version -p`: git says "unknown switch `p'", git-ai runs `git -p version`). -/
theorem witness_option_after_version :
    toVec (parse [chars% "--version", chars% "-p"]) = [chars% "-p", chars% "version"] ∧
    gitNormalise [chars% "--version", chars% "-p"] = [chars% "version", chars% "-p"] := by decide

/-- words after `--version` are dropped (`tailOk true` requires dash tokens only) -/
theorem witness_version_drops_words :
    toVec (parse [chars% "--version", chars% "status"]) = [chars% "version"] ∧
    gitNormalise [chars% "--version", chars% "status"] = [chars% "version", chars% "status"] := by decide

/-- after `--help <unknown dash option>` later help/version tokens are dropped -/
theorem witness_help_drops_later_tokens :
    toVec (parse [chars% "--help", chars% "-a", chars% "--version"]) = [chars% "help", chars% "-a"] ∧
    gitNormalise [chars% "--help", chars% "-a", chars% "--version"]
      = [chars% "help", chars% "-a", chars% "--version"] := by decide

/-- the full statement is false -/
theorem documented_normalisation_full_is_false :
    ¬ ∀ a, toVec (parse a) = gitNormalise a := by
  intro h
  have := h [chars% "--html-path", chars% "status", chars% "--short"]
  rw [witness_path_query_dropped.1, witness_path_query_dropped.2] at this
  exact absurd this (by decide)

/-! ## 3. Command position -/

/-- **C18 command position.**  Whenever git's own option scan (`handle_options`, git 2.39)
    ends at a command — `pre` are the global options with their values, `c` the first token
    that is neither — git-ai either reports exactly that split (same command, the same tokens
    as global options, the same arguments) or reports no command at all.  In particular a
    token git consumes as an option's value is never taken as the command. -/
theorem command_position (a pre rest : List Str) (c : Str)
    (h : gitScan a [] = .command pre c rest) :
    (parse a).command = none ∨
    ((parse a).command = some c ∧ (parse a).globalArgs = pre ∧ (parse a).commandArgs = rest ∧
      (parse a).sawEndOfOpts = false) := by
  rcases scan_of_gitScan a [] pre c rest h with ⟨hs, hd⟩ | ⟨⟨hm, he, d, r, hr, hdd⟩, _⟩
  · right
    unfold parse
    rw [hs]
    simp [decideCommand, hd, rewrite_nil]
  · left
    unfold parse
    simp only [hm, he, hr, decideCommand, hdd, rewrite_nil]
    simp

/-- … and it is exactly git's split unless the vector uses one of the seven spellings git
    accepts and the table lacks (`--shallow-file`, or an attached form with an empty value). -/
theorem command_position_exact (a pre rest : List Str) (c : Str)
    (h : gitScan a [] = .command pre c rest) (hC : ∀ t ∈ a, t ∉ gitOnly) :
    (parse a).command = some c ∧ (parse a).globalArgs = pre ∧ (parse a).commandArgs = rest ∧
      (parse a).sawEndOfOpts = false ∧ toVec (parse a) = a := by
  rcases scan_of_gitScan a [] pre c rest h with ⟨hs, hd⟩ | ⟨_, t, ht, hg⟩
  · have hm : preMeta a = [] := by unfold preMeta; rw [hs]
    refine ⟨?_, ?_, ?_, ?_, identity_without_meta a hm⟩
    all_goals (unfold parse; simp [hs, decideCommand, hd, rewrite_nil])
  · exact absurd hg (hC t ht)

/-- the table knows every option of git's grammar except the `gitOnly` spellings, which it
    treats as unknown (so no command is reported) — `decide`d against the extracted tables -/
theorem grammar_tables_agree :
    (∀ t ∈ gitNoValue, classify t = .globalNoValue) ∧
    (∀ t ∈ gitDetached, t ≠ shallowFile → classify t = .globalTakesValue ∧ takesNext t (keyOf t) true = true) ∧
    (∀ t ∈ gitOnly, classify t = .unknown) := by
  refine ⟨fun t ht => (tbl_no_value t ht).1, fun t ht hs => ?_, fun t ht => (tbl_git_only t ht).1⟩
  have := tbl_detached t ht hs
  exact ⟨this.1, this.2.1⟩

/-- a word is never an option, whatever it is (`status`, `-`less values, the empty string) -/
theorem word_is_not_an_option (t : Str) (h : startsWithDash t = false) : classify t = .unknown :=
  classify_of_not_dash t h

/-- non-vacuity: `-c` takes `status` as its value, the command is `commit` -/
example : gitScan [chars% "-c", chars% "status", chars% "-C", chars% "log", chars% "commit", chars% "-m", chars% "x"] []
    = .command [chars% "-c", chars% "status", chars% "-C", chars% "log"] (chars% "commit") [chars% "-m", chars% "x"] := by decide
example : ∀ t ∈ [chars% "-c", chars% "status", chars% "-C", chars% "log", chars% "commit", chars% "-m", chars% "x"],
    t ∉ gitOnly := by decide

/-- witness for the excluded spellings: git runs `status`, git-ai sees no command (the argv
    is still handed over unchanged; only the hooks do not run). -/
theorem witness_shallow_file :
    gitScan [chars% "--shallow-file", chars% "f", chars% "status"] []
      = .command [chars% "--shallow-file", chars% "f"] (chars% "status") [] ∧
    (parse [chars% "--shallow-file", chars% "f", chars% "status"]).command = none ∧
    toVec (parse [chars% "--shallow-file", chars% "f", chars% "status"])
      = [chars% "--shallow-file", chars% "f", chars% "status"] := by decide

/-! ## 4. Aliases -/

/-- **C18 alias tokenizer.**  For every alias value that is not a `!` alias, if git's
    `split_cmdline` accepts it then `parse_alias_tokens` returns git's arguments minus the
    ones no character started (the empty arguments git creates for an empty value or for
    leading/trailing whitespace); empty *quoted* arguments are kept. -/
theorem alias_tokens_vs_gitSplit (v : Str) (hs : isShell v = false) (ms : List (Str × Bool))
    (h : gitSplitM v = .ok ms) : tokens v = some (startedOnly ms) := by
  have := tokens_sim v hs
  rw [h] at this
  exact this

/-- … so whenever git's split yields no empty argument at all, the two agree exactly. -/
theorem alias_tokens_eq_gitSplit (v : Str) (hs : isShell v = false) (ts : List Str)
    (h : gitSplit v = .ok ts) (hne : [] ∉ ts) : tokens v = some ts :=
  tokens_eq_gitSplit v hs ts h hne

/-- **`None` exactly for shell aliases and values git itself rejects inside a quote.** -/
theorem alias_tokens_none_iff (v : Str) :
    tokens v = none ↔
      (isShell v = true ∨ gitSplit v = .error .unclosedQuote ∨ gitSplit v = .error (.badEnding true)) := by
  cases hs : isShell v
  · have hsim := tokens_sim v hs
    unfold gitSplit
    cases hm : gitSplitM v with
    | ok ms => rw [hm] at hsim; simp only [SimRel] at hsim; simp [hsim]
    | error e =>
      rw [hm] at hsim
      cases e with
      | unclosedQuote => simp only [SimRel] at hsim; simp [hsim]
      | badEnding b =>
        cases b
        · simp only [SimRel] at hsim; obtain ⟨ts, hts⟩ := hsim; simp [hts]
        · simp only [SimRel] at hsim; simp [hsim]
  · simp [tokens, hs]

/-- regression instances of the shapes that failed before the `fix:` commit in /repo (O10b):
    empty quoted arguments are kept; only git's whitespace separates. -/
example : tokens (chars% "commit --allow-empty -m ''")
    = some [chars% "commit", chars% "--allow-empty", chars% "-m", chars% ""] := by decide
example : tokens (chars% "commit -m \"\" -v")
    = some [chars% "commit", chars% "-m", chars% "", chars% "-v"] := by decide
example : tokens (chars% "log --grep=a b") = some [chars% "log", chars% "--grep=a b"] := by decide
example : gitSplit (chars% "log --grep=a b") = .ok [chars% "log", chars% "--grep=a b"] := by decide
/-- non-vacuity of `alias_tokens_eq_gitSplit` -/
example : isShell (chars% "log '--format=%H %s' \\-\\-oneline") = false ∧
    gitSplit (chars% "log '--format=%H %s' \\-\\-oneline")
      = .ok [chars% "log", chars% "--format=%H %s", chars% "--oneline"] := by decide

/-- witness (known finding): a trailing backslash is accepted where git dies with
    "bad alias string: cmdline ends with \" -/
theorem witness_trailing_backslash :
    gitSplit (chars% "commit\\") = .error (.badEnding false) ∧
    tokens (chars% "commit\\") = some [chars% "commit\\"] := by decide

/-- witness (known finding): the empty arguments git makes out of an empty value or
    leading/trailing whitespace are not produced -/
theorem witness_edge_whitespace :
    gitSplit (chars% "log ") = .ok [chars% "log", chars% ""] ∧ tokens (chars% "log ") = some [chars% "log"] ∧
    gitSplit (chars% "") = .ok [chars% ""] ∧ tokens (chars% "") = some [] := by decide

/-- **Alias resolution terminates**: with one iteration more than there are aliases the loop
    always ends by itself (each iteration that continues marks a new alias as seen). -/
theorem resolve_terminates (tbl : List (Str × Str)) (p : Parsed) :
    resolveO (lookupIn tbl) (tbl.length + 1) [] p ≠ .outOfFuel :=
  resolveO_fuel tbl _ [] p List.nodup_nil (fun x hx => by cases hx) (by simp)

/-- **`None` exactly for shell aliases, unterminated quotes and cycles** (given enough fuel) -/
theorem resolve_none_iff (lookup : Str → Option Str) (fuel : Nat) (p : Parsed)
    (hf : resolveO lookup fuel [] p ≠ .outOfFuel) :
    resolve lookup fuel p = none ↔
      (∃ c, resolveO lookup fuel [] p = .cycle c) ∨ (∃ c, resolveO lookup fuel [] p = .shell c) ∨
      (∃ c, resolveO lookup fuel [] p = .unterminated c) := by
  unfold resolve
  cases h : resolveO lookup fuel [] p <;> simp_all

/-- what the three `None` outcomes mean -/
theorem resolve_outcomes (lookup : Str → Option Str) (fuel : Nat) (seen : List Str) (p : Parsed) (c : Str) :
    (resolveO lookup fuel seen p = .shell c → ∃ v, lookup c = some v ∧ isShell v = true) ∧
    (resolveO lookup fuel seen p = .unterminated c → ∃ v, lookup c = some v ∧
      (gitSplit v = .error .unclosedQuote ∨ gitSplit v = .error (.badEnding true))) ∧
    (resolveO lookup fuel seen p = .cycle c → c ∈ seen ∨ (lookup c).isSome = true) := by
  induction fuel generalizing seen p with
  | zero => simp [resolveO]
  | succ n ih =>
    unfold resolveO
    split
    · simp
    · rename_i c' _
      split
      · rename_i hc
        refine ⟨by simp, by simp, ?_⟩
        intro h; cases h
        left; simpa using hc
      · split
        · simp
        · rename_i v hv
          split
          · rename_i ht
            split
            · rename_i hsh
              refine ⟨?_, by simp, by simp⟩
              intro h; cases h; exact ⟨v, hv, hsh⟩
            · rename_i hsh
              refine ⟨by simp, ?_, by simp⟩
              intro h; cases h
              refine ⟨v, hv, ?_⟩
              have := (alias_tokens_none_iff v).1 ht
              simpa [hsh] using this
          · rename_i ts _
            have := ih (c' :: seen) (parse (p.globalArgs ++ (if p.sawEndOfOpts then [dashDash] else []) ++ ts ++ p.commandArgs))
            refine ⟨this.1, this.2.1, ?_⟩
            intro h
            rcases this.2.2 h with hm | hm
            · rcases List.mem_cons.1 hm with rfl | hm
              · right; simp [hv]
              · left; exact hm
            · right; exact hm

/-- **One expansion replaces the command token by the alias's arguments, in place**:
    global options, a top-level `--` and the user's remaining arguments stay where they were
    (whenever the expansion itself contains no top-level meta option). -/
theorem alias_step_in_place (g ts args : List Str) (e : Bool)
    (h : preMeta (g ++ (if e then [dashDash] else []) ++ ts ++ args) = []) :
    toVec (parse (g ++ (if e then [dashDash] else []) ++ ts ++ args))
      = g ++ (if e then [dashDash] else []) ++ ts ++ args :=
  identity_without_meta _ h

/-- non-vacuity + regression: `git -p ci -m ''` with `alias.ci = commit -v`, and the `--` kept -/
example : resolve (lookupIn [(chars% "ci", chars% "commit -v")]) 2 (parse [chars% "-p", chars% "ci", chars% "-m", chars% ""])
    = some (parse [chars% "-p", chars% "commit", chars% "-v", chars% "-m", chars% ""]) := by decide
example : (resolve (lookupIn [(chars% "st", chars% "status")]) 2 (parse [chars% "--", chars% "st"])).map toVec
    = some [chars% "--", chars% "status"] := by decide
example : resolve (lookupIn [(chars% "a", chars% "b"), (chars% "b", chars% "a")]) 3 (parse [chars% "a"]) = none := by decide
example : resolveO (lookupIn [(chars% "a", chars% "b"), (chars% "b", chars% "a")]) 3 [] (parse [chars% "a"])
    = .cycle (chars% "a") := by decide
example : resolveO (lookupIn [(chars% "r", chars% "!git rev-parse")]) 2 [] (parse [chars% "r"])
    = .shell (chars% "r") := by decide
example : resolveO (lookupIn [(chars% "l", chars% "log 'x")]) 2 [] (parse [chars% "l"])
    = .unterminated (chars% "l") := by decide


/-- **C18 alias expansion agrees with git's own (partial).**  Full statement: for every alias
    table and invocation, `resolve … = some q → gitExpand … = .runs (toVec q)`.  Proved for
    invocations in which git finds a command (`GitValid`) and alias tables whose names are not
    git commands and whose values are `AliasClean` (git-ai and git agree on the shell test,
    no unquoted trailing backslash, no empty argument, the expansion is itself a git command
    line without the `gitOnly` spellings): then what git-ai hands to git is exactly the argv
    git's own alias loop (`run_argv`/`handle_alias`: builtins first, `split_cmdline`, loop
    detection) ends up executing.  Each excluded hypothesis has a witness: names of git
    commands (`witness_alias_shadows_command`), trailing backslash, edge whitespace (above),
    meta options inside the expansion (section 2). -/
theorem alias_agrees_partial (lookup : Str → Option Str) (isCommand : Str → Bool)
    (hclean : ∀ c v, lookup c = some v → isCommand c = false ∧ AliasClean v)
    (fuel : Nat) (a : List Str) (ha : GitValid a) (q : Parsed)
    (h : resolve lookup fuel (parse a) = some q) :
    gitExpand lookup isCommand fuel [] a = .runs (toVec q) := by
  unfold resolve at h
  cases hr : resolveO lookup fuel [] (parse a) with
  | final q' =>
    rw [hr] at h
    simp only [Option.some.injEq] at h
    subst h
    exact resolve_agrees lookup isCommand hclean fuel [] a ha q' hr
  | cycle c => rw [hr] at h; cases h
  | shell c => rw [hr] at h; cases h
  | unterminated c => rw [hr] at h; cases h
  | outOfFuel => rw [hr] at h; cases h

/-- non-vacuity: `git -p --no-pager l -- f` with `alias.l = lg -5`, `alias.lg = log --oneline` -/
example : GitValid [chars% "-p", chars% "--no-pager", chars% "l", chars% "--", chars% "f"] :=
  ⟨⟨[chars% "-p", chars% "--no-pager"], chars% "l", [chars% "--", chars% "f"], by decide⟩, by decide⟩
example : AliasClean (chars% "lg -5") := by
  refine ⟨by decide, by decide, ?_⟩
  intro ts hts
  have : ts = [chars% "lg", chars% "-5"] := by
    have h2 : gitSplit (chars% "lg -5") = .ok [chars% "lg", chars% "-5"] := by decide
    rw [h2] at hts; cases hts; rfl
  subst this
  exact ⟨by decide, ⟨[], chars% "lg", [chars% "-5"], by decide⟩, by decide⟩
example : (resolve (lookupIn [(chars% "l", chars% "lg -5"), (chars% "lg", chars% "log --oneline")]) 3
      (parse [chars% "-p", chars% "--no-pager", chars% "l", chars% "--", chars% "f"])).map toVec
    = some [chars% "-p", chars% "--no-pager", chars% "log", chars% "--oneline", chars% "-5", chars% "--", chars% "f"] ∧
    gitExpand (lookupIn [(chars% "l", chars% "lg -5"), (chars% "lg", chars% "log --oneline")])
      (fun c => c = chars% "log") 3 [] [chars% "-p", chars% "--no-pager", chars% "l", chars% "--", chars% "f"]
    = .runs [chars% "-p", chars% "--no-pager", chars% "log", chars% "--oneline", chars% "-5", chars% "--", chars% "f"] := by
  decide

/-- witness (known finding): an alias named like a git command is expanded although git never
    consults it — `alias.status = log --oneline`, `git status` reaches git as `git log --oneline`;
    git's own loop (`gitExpand`, builtins win) runs `status`. -/
theorem witness_alias_shadows_command :
    (resolve (lookupIn [(chars% "status", chars% "log --oneline")]) 2 (parse [chars% "status"])).map toVec
      = some [chars% "log", chars% "--oneline"] ∧
    gitExpand (lookupIn [(chars% "status", chars% "log --oneline")]) (fun c => c = chars% "status" || c = chars% "log")
      2 [] [chars% "status"] = .runs [chars% "status"] := by decide

end GitAi.C18

#print axioms GitAi.C18.identity_without_meta
#print axioms GitAi.C18.identity_no_meta_token
#print axioms GitAi.C18.parse_no_panic
#print axioms GitAi.C18.documented_normalisation_partial
#print axioms GitAi.C18.documented_normalisation_full_is_false
#print axioms GitAi.C18.witness_path_query_dropped
#print axioms GitAi.C18.witness_option_after_version
#print axioms GitAi.C18.witness_version_drops_words
#print axioms GitAi.C18.witness_help_drops_later_tokens
#print axioms GitAi.C18.command_position
#print axioms GitAi.C18.command_position_exact
#print axioms GitAi.C18.grammar_tables_agree
#print axioms GitAi.C18.word_is_not_an_option
#print axioms GitAi.C18.witness_shallow_file
#print axioms GitAi.C18.alias_tokens_vs_gitSplit
#print axioms GitAi.C18.alias_tokens_eq_gitSplit
#print axioms GitAi.C18.alias_tokens_none_iff
#print axioms GitAi.C18.witness_trailing_backslash
#print axioms GitAi.C18.witness_edge_whitespace
#print axioms GitAi.C18.resolve_terminates
#print axioms GitAi.C18.resolve_none_iff
#print axioms GitAi.C18.resolve_outcomes
#print axioms GitAi.C18.alias_step_in_place
#print axioms GitAi.C18.alias_agrees_partial
#print axioms GitAi.C18.witness_alias_shadows_command
