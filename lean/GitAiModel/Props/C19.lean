/-
  Props/C19.lean — property C19: commit statistics add up and agree with the note and the diff.

  Only property theorems, their non-vacuity examples and the axiom audit live here.
  Model: Model/Stats.lean (mirror of /repo/src/authorship/stats.rs); vocabulary
  (`listed`, `intersectionCount`, `WF`, `AddedOk`, `sumF`, `recValue` …) in Lemmas/Stats*.lean.

  `u32`: the model computes ideal `Nat` values; the `…Checked` variants return `none` exactly
  when a `u32` addition of the Rust code overflows (debug build: panic).  Every theorem that
  speaks about reported numbers takes the checked result (`= some s`) as hypothesis.
-/
import GitAiModel.Lemmas.StatsAccepted
import GitAiModel.Lemmas.StatsFromLog
import GitAiModel.Lemmas.StatsNumstat
import GitAiModel.Base.Chars
namespace GitAi.Stats
open GitAi GitAi.NoteFormat

/-! ## 0. `line_range_overlap_len` -/

/-- **overlap = count.** On the strictly ascending list `stats_for_commit_stats` builds, the
    binary-search arithmetic returns the number of added lines the range contains
    (`LineRange::contains`); in particular 0 for a descending range. -/
theorem overlap_counts (r : LineRange) (added : List Nat) (hs : StrictSorted added)
    (hlen : added.length < 4294967296) : overlapLen r added = added.countP (contains r) :=
  overlapLen_eq_countP r added hs hlen

/-- the `get_unchecked` indices of `binary_search_by` are in range: no UB, on every input
    (sorted or not) -/
theorem partitionPoint_in_bounds (q : Nat → Bool) (n : Nat) (h : 1 ≤ n) : bsBase q n n 0 < n := by
  have := bsBase_in_bounds q n n 0 (Nat.le_refl _) h
  omega

/-- `sort_unstable(); dedup()` establishes the hypothesis -/
theorem sortDedup_ok (l : List Nat) :
    StrictSorted (sortDedup l) ∧ (∀ y, y ∈ sortDedup l ↔ y ∈ l) ∧ (sortDedup l).length ≤ l.length :=
  ⟨sortDedup_strict l, fun y => mem_sortDedup y l, sortDedup_length l⟩

example : overlapLen (.range 5 15) [1, 3, 10, 12, 20] = 2 := by decide
example : overlapLen (.range 4 6) [1, 3, 4, 5, 6, 7] = 3 := by decide
example : overlapLen (.single 3) [1, 3, 4] = 1 := by decide
example : overlapLen (.range 7 2) [1, 3, 4] = 0 := by decide
example : StrictSorted [1, 3, 10, 12, 20] := by unfold StrictSorted; decide

/-! ## 1. accepted = note ∩ added lines -/

/-- **C19.1 `accepted_is_intersection`.** If the note has one attestation per path and the
    ranges of each file are pairwise disjoint across all its sessions (the part of C05's
    well-formedness that matters here), then for every added-line map (distinct paths, each list
    strictly ascending — what `stats_for_commit_stats` passes) the accepted count is exactly the
    number of (file, line) pairs that are both added by the commit and listed by the note. -/
theorem accepted_is_intersection (lg : Log) (added : List (Str × List Nat))
    (hwf : WF lg.files) (ha : AddedOk added) :
    (accepted (some lg) added false).total = intersectionCount lg.files added :=
  accepted_total_eq_intersection lg added hwf ha

/-- hence accepted ≤ number of added lines (and the `u32` sum cannot overflow when that fits) -/
theorem accepted_le_added (lg : Log) (added : List (Str × List Nat))
    (hwf : WF lg.files) (ha : AddedOk added) :
    (accepted (some lg) added false).total ≤ addedCount added := by
  rw [accepted_is_intersection lg added hwf ha]
  exact intersection_le_added _ _

/-- decidable sufficient condition for `RangesDisjoint`, used for the non-vacuity examples -/
def hi : LineRange → Nat | .single n => n | .range _ e => e
def lo : LineRange → Nat | .single n => n | .range s _ => s
def apartB (a b : LineRange) : Bool := decide (hi a < lo b) || decide (hi b < lo a)

theorem apart_disjoint (a b : LineRange) (h : apartB a b = true) (l : Nat) :
    ¬ (contains a l = true ∧ contains b l = true) := by
  intro ⟨ha, hb⟩
  cases a <;> cases b <;>
    simp [apartB, hi, lo, contains] at h ha hb <;>
    (rcases h with h | h <;> have := of_decide_eq_true h <;> omega)

theorem rangesDisjoint_of_apart (rs : List LineRange)
    (h : List.Pairwise (fun a b => apartB a b = true) rs) : RangesDisjoint rs :=
  List.Pairwise.imp (fun hab l => apart_disjoint _ _ hab l) h

/-- non-vacuity: two sessions with adjacent ranges in one file, a second file, a quoted path -/
def exampleLog : Log :=
  { files := [⟨chars% "src/a.rs", [⟨chars% "aaaa", [.range 1 3, .single 9]⟩, ⟨chars% "bbbb", [.range 4 6]⟩]⟩,
              ⟨chars% "b c.txt", [⟨chars% "aaaa", [.range 2 2]⟩]⟩],
    prompts := [(chars% "aaaa", ⟨chars% "cursor", chars% "gpt", 10, 2, 1⟩),
                (chars% "bbbb", ⟨chars% "claude", chars% "opus", 5, 0, 0⟩)] }

def exampleAdded : List (Str × List Nat) :=
  [(chars% "src/a.rs", [2, 3, 4, 7, 9]), (chars% "b c.txt", [1, 2]), (chars% "other", [1])]

example : WF exampleLog.files :=
  ⟨by decide, by
    intro f hf
    simp only [exampleLog, List.mem_cons, List.mem_nil_iff, or_false] at hf
    rcases hf with rfl | rfl <;> exact rangesDisjoint_of_apart _ (by decide)⟩

example : AddedOk exampleAdded :=
  ⟨by decide,
   by intro kv hkv; simp only [exampleAdded, List.mem_cons, List.mem_nil_iff, or_false] at hkv
      rcases hkv with rfl | rfl | rfl <;> (unfold StrictSorted; decide),
   by intro kv hkv; simp only [exampleAdded, List.mem_cons, List.mem_nil_iff, or_false] at hkv
      rcases hkv with rfl | rfl | rfl <;> decide⟩

example : accepted (some exampleLog) exampleAdded false
    = ⟨5, [(chars% "claude::opus", 1), (chars% "cursor::gpt", 4)]⟩ := by decide
example : intersectionCount exampleLog.files exampleAdded = 5 := by decide

/-- **negation witness (no disjointness ⇒ double counting).** Two sessions list the same lines;
    the sum counts them twice and exceeds the number of added lines.  So C19 is conditional on
    C05, and the condition is necessary. (Replayed on the real code: corpus/C19/cases.jsonl.) -/
theorem witness_double_count :
    (accepted (some ⟨[⟨chars% "f", [⟨chars% "h1", [.range 1 2]⟩, ⟨chars% "h2", [.range 2 3]⟩]⟩], []⟩)
      [(chars% "f", [1, 2, 3])] false).total = 4
    ∧ intersectionCount [⟨chars% "f", [⟨chars% "h1", [.range 1 2]⟩, ⟨chars% "h2", [.range 2 3]⟩]⟩]
        [(chars% "f", [1, 2, 3])] = 3
    ∧ addedCount [(chars% "f", [1, 2, 3])] = 3 := by decide

/-- the same with two attestations for one path -/
theorem witness_duplicate_file :
    (accepted (some ⟨[⟨chars% "f", [⟨chars% "h1", [.single 1]⟩]⟩, ⟨chars% "f", [⟨chars% "h1", [.single 1]⟩]⟩], []⟩)
      [(chars% "f", [1])] false).total = 2 := by decide

/-! ## 2. the identities between the reported fields -/

/-- Σ `overriden_lines` over the note's prompt records -/
def overridenSum : Option Log → Nat
  | some lg => sumP Prompt.overriden lg.prompts
  | none => 0

/-- the fields of `stats_from_authorship_log`'s result (ideal values) -/
theorem fromLog_fields (log : Option Log) (ga gd acc : Nat) (byTool : List (Str × Nat)) :
    (fromLog log ga gd acc byTool).aiAccepted = acc ∧
    (fromLog log ga gd acc byTool).gitAdded = ga ∧
    (fromLog log ga gd acc byTool).gitDeleted = gd ∧
    (fromLog log ga gd acc byTool).human = ga - acc ∧
    (fromLog log ga gd acc byTool).mixed
      = min (overridenSum log) (ga - acc) ∧
    (fromLog log ga gd acc byTool).aiAdditions
      = (fromLog log ga gd acc byTool).aiAccepted + (fromLog log ga gd acc byTool).mixed ∧
    (fromLog log ga gd acc byTool).mixed ≤ ga - acc := by
  cases log with
  | none =>
    refine ⟨rfl, rfl, rfl, rfl, ?_, ?_, ?_⟩ <;> simp only [fromLog, overridenSum] <;> (try split) <;> omega
  | some lg =>
    obtain ⟨_, _, h3, h4, h5, h6, _, _, _⟩ :=
      addPrompts_fields lg.prompts ⟨0, 0, 0, acc, 0, 0, gd, ga, []⟩
    simp only [Nat.zero_add] at h3
    refine ⟨h4, h5, h6, rfl, ?_, ?_, ?_⟩ <;> simp only [fromLog, overridenSum, h3, h4] <;> (try split) <;> omega

/-- **C19.2 `identities`.** For every note, diff totals, accepted count and per-tool split for
    which no `u32` addition overflows (`fromLogChecked … = some s`):
    the inputs are passed through; `human = added ∸ accepted` (saturating); the cap holds
    (`mixed = min(Σ overriden, added ∸ accepted)`); `ai_additions = accepted + mixed`;
    and when `accepted ≤ added` (true by C19.1 for well-formed notes):
    `human + accepted = added` and `ai_additions ≤ added`. -/
theorem identities (log : Option Log) (ga gd acc : Nat) (byTool : List (Str × Nat)) (s : CommitStats)
    (h : fromLogChecked log ga gd acc byTool = some s) :
    s.aiAccepted = acc ∧ s.gitAdded = ga ∧ s.gitDeleted = gd ∧
    s.human = ga - acc ∧
    s.mixed = min (overridenSum log) (ga - acc) ∧
    s.aiAdditions = s.aiAccepted + s.mixed ∧
    s.mixed ≤ ga - acc ∧
    (acc ≤ ga → s.human + s.aiAccepted = ga ∧ s.aiAdditions ≤ ga) := by
  unfold fromLogChecked at h
  split at h
  · cases h
    obtain ⟨h1, h2, h3, h4, h5, h6, h7⟩ := fromLog_fields log ga gd acc byTool
    refine ⟨h1, h2, h3, h4, h5, h6, h7, ?_⟩
    intro hle; omega
  · cases h

/-- the last addition `mixed + accepted` can never overflow: it is bounded by the inputs -/
theorem ai_additions_fits (log : Option Log) (ga gd acc : Nat) (byTool : List (Str × Nat)) :
    (fromLog log ga gd acc byTool).aiAdditions ≤ max ga acc := by
  obtain ⟨h1, _, _, _, _, h6, h7⟩ := fromLog_fields log ga gd acc byTool
  omega

/-- non-vacuity of the guard, and an instance where it fails (two prompts of `u32::MAX`) -/
example : (fromLogChecked (some exampleLog) 8 1 5 [(chars% "claude::opus", 1), (chars% "cursor::gpt", 4)]).isSome = true := by
  decide
example : fromLogChecked (some ⟨[], [(chars% "a", ⟨[], [], 4294967295, 0, 0⟩), (chars% "b", ⟨[], [], 1, 0, 0⟩)]⟩) 1 0 0 [] = none := by
  decide

/-! ## 3. numstat -/

/-- **C19.3 `numstat_totals`.** For every list of numstat records as git prints them
    (`added TAB deleted TAB path LF`, `-`/`-` for binary files, the path C-quoted when it
    contains a control character, quote, backslash or non-ASCII byte — so never a raw tab or
    newline), the parsed totals are the sums over the non-binary records whose *real* path
    (`pathStr`: the path bytes read as UTF-8) is not ignored: `unescape_git_path` undoes git's
    quoting before the ignore matcher runs. (Before /repo commit 00c217c5 the matcher saw the
    printed form, so an ignored `café.lock` was counted.) -/
theorem numstat_totals (ign : Str → Bool) (rs : List NumRec)
    (hbytes : ∀ r ∈ rs, ∀ b ∈ r.path, b < 256)
    (hfit : ∀ r ∈ rs, ∀ a d, r.counts = some (a, d) → a < 4294967296 ∧ d < 4294967296) :
    numstat ign (renderNumstat rs) = sumRecs ign rs :=
  numstat_render ign rs hbytes hfit

/-- the value of a record, spelled out -/
theorem recValue_cases (ign : Str → Bool) (r : NumRec) :
    recValue ign r = match r.counts with
      | none => (0, 0)
      | some (a, d) => if ign (pathStr r.path) then (0, 0) else (a, d) := by
  unfold recValue
  cases r.counts with
  | none => rfl
  | some ad => cases ad; rfl

/-- `unescape_git_path` inverts git's quoting on every byte string (valid UTF-8 or not) -/
theorem unescape_inverts_gitQuote (p : List Nat) (hp : ∀ b ∈ p, b < 256) :
    unescapeGitPath (gitQuote p) = pathStr p := unescape_gitQuote p hp

/-- git's C-quoting never emits a raw tab, newline or carriage return (so splitting the line
    on tabs finds the path whole) -/
theorem gitQuote_no_tab_newline (path : List Nat) :
    '\t' ∉ gitQuote path ∧ '\n' ∉ gitQuote path ∧ '\r' ∉ gitQuote path :=
  ⟨fun h => gitQuote_clean path _ h (Or.inl rfl),
   fun h => gitQuote_clean path _ h (Or.inr (Or.inl rfl)),
   fun h => gitQuote_clean path _ h (Or.inr (Or.inr rfl))⟩

/-- `a<TAB>b.txt` (1/2), a binary file, an ignored lock file, `café.rs` (7/0), and an ignored
    `é.lock` (5/5, printed as `"\303\251.lock"`) -/
example : numstat (fun f => f == chars% "Cargo.lock" || f == chars% "é.lock")
    (renderNumstat [⟨some (1, 2), [97, 9, 98, 46, 116, 120, 116]⟩, ⟨none, [120]⟩,
                    ⟨some (30, 4), [67, 97, 114, 103, 111, 46, 108, 111, 99, 107]⟩,
                    ⟨some (7, 0), [99, 97, 102, 195, 169, 46, 114, 115]⟩,
                    ⟨some (5, 5), [195, 169, 46, 108, 111, 99, 107]⟩]) = (8, 2) := by decide
example : pathStr [99, 97, 102, 195, 169] = chars% "café" := by decide
example : unescapeGitPath (chars% "\"a\\tb \\303\\251\"") = chars% "a\tb é" := by decide
example : gitQuote [97, 9, 98] = chars% "\"a\\tb\"" := by decide
example : gitQuote [99, 97, 102, 195, 169] = chars% "\"caf\\303\\251\"" := by decide

/-! ## 4. the per-tool breakdown -/

/-- **C19.4a per-tool accepted.** Exact accounting: the per-tool accepted counts plus the
    accepted lines of sessions whose hash has no prompt record add up to the accepted total. -/
theorem per_tool_accepted_accounting (lg : Log) (added : List (Str × List Nat)) :
    toolSum (accepted (some lg) added false).perTool + missingCount lg added
      = (accepted (some lg) added false).total :=
  accepted_tools_accounting lg added

/-- hence the per-tool counts sum to the total iff no accepted line belongs to a session
    without a prompt record — in particular when every hash has one (C05) -/
theorem per_tool_accepted_sum_iff (lg : Log) (added : List (Str × List Nat)) :
    toolSum (accepted (some lg) added false).perTool = (accepted (some lg) added false).total
      ↔ missingCount lg added = 0 := by
  have := per_tool_accepted_accounting lg added
  omega

theorem per_tool_accepted_sum (lg : Log) (added : List (Str × List Nat))
    (h : ∀ f ∈ lg.files, ∀ e ∈ f.entries, lg.prompts.lookup e.hash ≠ none) :
    toolSum (accepted (some lg) added false).perTool = (accepted (some lg) added false).total :=
  (per_tool_accepted_sum_iff lg added).2 (missingCount_zero_of_prompts lg added h)

/-- a session without a prompt record: its lines are accepted but credited to no tool -/
theorem witness_missing_prompt :
    accepted (some ⟨[⟨chars% "f", [⟨chars% "h1", [.range 1 2]⟩]⟩], []⟩) [(chars% "f", [1, 2, 3])] false
      = ⟨2, []⟩ := by decide

/-- **C19.4b `per_tool_sums`.** For every note and inputs (per-tool split with distinct keys, as
    a `BTreeMap` has): the per-tool totals sum to the totals; the per-tool mixed lines sum to the
    (capped) commit value; the per-tool accepted lines sum to the split's sum; per-tool
    `ai_additions` sum to split + mixed, i.e. to the commit's `ai_additions` when the split sums
    to `accepted`.  (Before the `fix:` commit in /repo the mixed and ai_additions sums failed
    whenever the cap fired — DESIGN O11; regression instance below.) -/
theorem per_tool_sums (log : Option Log) (ga gd acc : Nat) (byTool : List (Str × Nat))
    (hk : (byTool.map (·.1)).Nodup) :
    let s := fromLog log ga gd acc byTool
    sumF ToolStats.totalAdd s.tools = s.totalAdd ∧
    sumF ToolStats.totalDel s.tools = s.totalDel ∧
    sumF ToolStats.mixed s.tools = s.mixed ∧
    sumF ToolStats.aiAccepted s.tools = toolSum byTool ∧
    sumF ToolStats.aiAdditions s.tools = toolSum byTool + s.mixed ∧
    (toolSum byTool = acc → sumF ToolStats.aiAdditions s.tools = s.aiAdditions) := by
  intro s
  -- the state after the first loop
  let s0 : CommitStats := ⟨0, 0, 0, acc, 0, 0, gd, ga, []⟩
  let s1 := match log with
    | some lg => addPrompts lg.prompts s0
    | none => s0
  have hs1 : s1.totalAdd = sumF ToolStats.totalAdd s1.tools ∧ s1.totalDel = sumF ToolStats.totalDel s1.tools ∧
      s1.mixed = sumF ToolStats.mixed s1.tools ∧ (∀ kv ∈ s1.tools, kv.2.aiAccepted = 0) := by
    cases log with
    | none => simp [s1, s0]
    | some lg =>
      obtain ⟨h1, h2, h3, _, _, _, h7, h8, h9⟩ := addPrompts_fields lg.prompts s0
      refine ⟨?_, ?_, ?_, ?_⟩
      · show (addPrompts lg.prompts s0).totalAdd = _; rw [h1, h7]; simp [s0]
      · show (addPrompts lg.prompts s0).totalDel = _; rw [h2, h8]; simp [s0]
      · show (addPrompts lg.prompts s0).mixed = _; rw [h3, h9]; simp [s0]
      · exact addPrompts_accepted_zero lg.prompts s0 (by simp [s0])
  obtain ⟨ha, hd, hm, hz⟩ := hs1
  let mixed := if s1.mixed > ga - acc then ga - acc else s1.mixed
  have hmixle : mixed ≤ s1.mixed := by simp only [mixed]; split <;> omega
  let tools0 := capTools mixed s1.tools
  let tools1 := setAccepted byTool tools0
  have hs : s = { s1 with
      mixed := mixed
      aiAdditions := mixed + acc
      human := ga - acc
      tools := tools1.map (fun kv => (kv.1, { kv.2 with aiAdditions := kv.2.aiAccepted + kv.2.mixed })) } := by
    cases log <;> rfl
  have hz0 : ∀ kv ∈ tools0, kv.2.aiAccepted = 0 := by
    intro kv hkv
    obtain ⟨t, ht, he, _⟩ := capTools_mem _ _ _ hkv
    rw [he]; exact hz _ ht
  have hacc0 : sumF ToolStats.aiAccepted tools0 = 0 := by
    unfold sumF; apply sum_map_zero; exact hz0
  have hA : sumF ToolStats.aiAccepted tools1 = toolSum byTool := by
    rw [setAccepted_sum byTool hk tools0 (fun kv hkv _ => hz0 kv hkv), hacc0]; omega
  have hM : sumF ToolStats.mixed tools1 = mixed := by
    rw [setAccepted_other ToolStats.mixed (fun _ _ => rfl) rfl, capTools_mixed, ← hm]; omega
  have hTA : sumF ToolStats.totalAdd tools1 = s1.totalAdd := by
    rw [setAccepted_other ToolStats.totalAdd (fun _ _ => rfl) rfl,
      capTools_other ToolStats.totalAdd (fun _ _ => rfl), ha]
  have hTD : sumF ToolStats.totalDel tools1 = s1.totalDel := by
    rw [setAccepted_other ToolStats.totalDel (fun _ _ => rfl) rfl,
      capTools_other ToolStats.totalDel (fun _ _ => rfl), hd]
  rw [hs]
  simp only [sumF_aiAdditions, sumF_map_other ToolStats.totalAdd (fun _ _ => rfl),
    sumF_map_other ToolStats.totalDel (fun _ _ => rfl), sumF_map_other ToolStats.mixed (fun _ _ => rfl),
    sumF_map_other ToolStats.aiAccepted (fun _ _ => rfl), hA, hM, hTA, hTD]
  refine ⟨trivial, trivial, trivial, trivial, trivial, ?_⟩
  intro h; omega

/-- consequently no tool reports more AI lines than the commit added
    (given a consistent split and `accepted ≤ added`) -/
theorem per_tool_ai_additions_le_added (log : Option Log) (ga gd acc : Nat) (byTool : List (Str × Nat))
    (hk : (byTool.map (·.1)).Nodup) (hsplit : toolSum byTool ≤ acc) (hle : acc ≤ ga) :
    ∀ kv ∈ (fromLog log ga gd acc byTool).tools, kv.2.aiAdditions ≤ ga := by
  intro kv hkv
  obtain ⟨_, _, _, _, h5, _⟩ := per_tool_sums log ga gd acc byTool hk
  have h1 := le_sumF ToolStats.aiAdditions _ kv hkv
  have h2 : (fromLog log ga gd acc byTool).mixed ≤ ga - acc := by
    cases log <;> simp only [fromLog] <;> split <;> omega
  omega

/-- regression instance of DESIGN O11 (one prompt with `overriden_lines = 5`, 3 lines added, 1
    accepted): before the fix the tool reported `mixed = 5`, `ai_additions = 6 > 3`; now it
    follows the capped total -/
example : (fromLog (some ⟨[], [(chars% "h", ⟨chars% "cursor", chars% "m", 4, 0, 5⟩)]⟩) 3 0 1
      [(chars% "cursor::m", 1)]) =
    ⟨2, 2, 3, 1, 4, 0, 0, 3, [(chars% "cursor::m", ⟨3, 2, 1, 4, 0⟩)]⟩ := by decide

/-- two tools share a capped total: handed out in key order -/
example : ((fromLog (some ⟨[], [(chars% "h1", ⟨chars% "b", chars% "m", 0, 0, 4⟩),
      (chars% "h2", ⟨chars% "a", chars% "m", 0, 0, 3⟩)]⟩) 5 0 0 []).tools.map (fun kv => (kv.1, kv.2.mixed)))
    = [(chars% "a::m", 3), (chars% "b::m", 2)] := by decide

/-! ## 5. whole commits: ordinary, root and merge commits -/

theorem effectiveAdded_ok (ign : Str → Bool) (diffAdded : List (Str × List Nat))
    (hkeys : (diffAdded.map (·.1)).Nodup) (hsmall : ∀ kv ∈ diffAdded, kv.2.length < 4294967296) :
    AddedOk (effectiveAdded ign diffAdded) := by
  unfold effectiveAdded
  refine ⟨?_, ?_, ?_⟩
  · have : ((diffAdded.filter (fun kv => !ign kv.1)).map (fun kv => (kv.1, sortDedup kv.2))).map (·.1)
        = (diffAdded.filter (fun kv => !ign kv.1)).map (·.1) := by
      simp [List.map_map, Function.comp_def]
    rw [this]
    exact List.Nodup.sublist (List.Sublist.map _ List.filter_sublist) hkeys
  · intro kv hkv
    obtain ⟨kv', _, rfl⟩ := List.mem_map.1 hkv
    exact sortDedup_strict _
  · intro kv hkv
    obtain ⟨kv', hkv', rfl⟩ := List.mem_map.1 hkv
    have := sortDedup_length kv'.2
    have := hsmall kv' (List.mem_filter.1 hkv').1
    simp only []; omega

/-- **C19.5 ordinary and root commits.** `stats_for_commit_stats` on a commit with at most one
    parent (for a root commit `diffAdded` is the diff against the empty tree, i.e. all lines):
    with a well-formed note, and git's two views of the commit agreeing (the numstat total of
    the non-ignored files = the number of added line numbers of the non-ignored files), the
    reported numbers satisfy all identities of the property. -/
theorem commit_identities (ign : Str → Bool) (text : Str) (lg : Log) (parentCount : Nat)
    (diffAdded : List (Str × List Nat))
    (hwf : WF lg.files) (hkeys : (diffAdded.map (·.1)).Nodup)
    (hsmall : ∀ kv ∈ diffAdded, kv.2.length < 4294967296)
    (hpar : parentCount ≤ 1)
    (hgit : (numstat ign text).1 = addedCount (effectiveAdded ign diffAdded)) :
    let s := forCommit ign text (some lg) parentCount diffAdded
    s.gitAdded = (numstat ign text).1 ∧ s.gitDeleted = (numstat ign text).2 ∧
    s.aiAccepted = intersectionCount lg.files (effectiveAdded ign diffAdded) ∧
    s.aiAccepted ≤ s.gitAdded ∧
    s.human + s.aiAccepted = s.gitAdded ∧
    s.aiAdditions = s.aiAccepted + s.mixed ∧
    s.aiAdditions ≤ s.gitAdded ∧
    s.mixed ≤ s.gitAdded - s.aiAccepted := by
  intro s
  have hnm : decide (parentCount > 1) = false := by simp; omega
  have hok := effectiveAdded_ok ign diffAdded hkeys hsmall
  have hacc := accepted_is_intersection lg _ hwf hok
  have hle := accepted_le_added lg _ hwf hok
  have hs : s = fromLog (some lg) (numstat ign text).1 (numstat ign text).2
      (accepted (some lg) (effectiveAdded ign diffAdded) false).total
      (accepted (some lg) (effectiveAdded ign diffAdded) false).perTool := by
    simp only [s, forCommit, hnm, Bool.false_eq_true, if_false]
  obtain ⟨h1, h2, h3, h4, h5, h6, h7⟩ := fromLog_fields (some lg) (numstat ign text).1 (numstat ign text).2
      (accepted (some lg) (effectiveAdded ign diffAdded) false).total
      (accepted (some lg) (effectiveAdded ign diffAdded) false).perTool
  rw [← hs] at h1 h2 h3 h4 h5 h6 h7
  rw [hacc] at hle h1
  refine ⟨h2, h3, h1, ?_, ?_, h6, ?_, ?_⟩ <;> omega

/-- root commit = the case `parentCount = 0` of `commit_identities` -/
theorem root_commit_identities (ign : Str → Bool) (text : Str) (lg : Log)
    (allLines : List (Str × List Nat))
    (hwf : WF lg.files) (hkeys : (allLines.map (·.1)).Nodup)
    (hsmall : ∀ kv ∈ allLines, kv.2.length < 4294967296)
    (hgit : (numstat ign text).1 = addedCount (effectiveAdded ign allLines)) :
    let s := forCommit ign text (some lg) 0 allLines
    s.human + s.aiAccepted = s.gitAdded ∧ s.aiAdditions = s.aiAccepted + s.mixed ∧
    s.aiAdditions ≤ s.gitAdded ∧ s.aiAccepted = intersectionCount lg.files (effectiveAdded ign allLines) := by
  intro s
  obtain ⟨_, _, h3, _, h5, h6, h7, _⟩ :=
    commit_identities ign text lg 0 allLines hwf hkeys hsmall (by omega) hgit
  exact ⟨h5, h6, h7, h3⟩

/-- **merge commits**: nothing is accepted, whatever the note says -/
theorem merge_accepted_zero (log : Option Log) (added : List (Str × List Nat)) :
    accepted log added true = ⟨0, []⟩ := by
  simp [accepted]

/-- and the identities hold with `accepted = 0`: all added lines are human, AI additions are the
    (capped) mixed lines -/
theorem merge_commit_identities (ign : Str → Bool) (text : Str) (log : Option Log) (parentCount : Nat)
    (diffAdded : List (Str × List Nat)) (hpar : 1 < parentCount) :
    let s := forCommit ign text log parentCount diffAdded
    s.aiAccepted = 0 ∧ s.human = s.gitAdded ∧ s.gitAdded = (numstat ign text).1 ∧
    s.aiAdditions = s.mixed ∧ s.aiAdditions ≤ s.gitAdded ∧
    ∀ kv ∈ s.tools, kv.2.aiAccepted = 0 := by
  intro s
  have hm : decide (parentCount > 1) = true := by simp; omega
  have hs : s = fromLog log (numstat ign text).1 (numstat ign text).2 0 [] := by
    simp only [s, forCommit, hm, if_true, merge_accepted_zero]
  obtain ⟨h1, h2, h3, h4, h5, h6, h7⟩ := fromLog_fields log (numstat ign text).1 (numstat ign text).2 0 []
  rw [← hs] at h1 h2 h3 h4 h5 h6 h7
  refine ⟨h1, by omega, h2, by omega, by omega, ?_⟩
  rw [hs]
  obtain ⟨_, _, _, h4', _, _⟩ := per_tool_sums log (numstat ign text).1 (numstat ign text).2 0 [] (by simp)
  intro kv hkv
  have := le_sumF ToolStats.aiAccepted _ kv hkv
  simp only [toolSum, List.map_nil, List.sum_nil] at h4'
  omega

/-- a whole commit, end to end: numstat with an ignored lock file, two sessions, one parent -/
example : forCommit (fun f => f == chars% "Cargo.lock")
    (chars% "5\t1\tsrc/a.rs\n2\t0\t\"b c.txt\"\n40\t2\tCargo.lock\n1\t0\tother\n") (some exampleLog) 1
    (exampleAdded ++ [(chars% "Cargo.lock", [1, 2, 3])])
    = ⟨3, 1, 6, 5, 15, 2, 1, 8,
       [(chars% "claude::opus", ⟨1, 0, 1, 5, 0⟩), (chars% "cursor::gpt", ⟨5, 1, 4, 10, 2⟩)]⟩ := by decide

/-- non-vacuity of `commit_identities`' git-consistency hypothesis on that instance -/
example : (numstat (fun f => f == chars% "Cargo.lock")
      (chars% "5\t1\tsrc/a.rs\n2\t0\t\"b c.txt\"\n40\t2\tCargo.lock\n1\t0\tother\n")).1
    = addedCount (effectiveAdded (fun f => f == chars% "Cargo.lock")
        (exampleAdded ++ [(chars% "Cargo.lock", [1, 2, 3])])) := by decide

end GitAi.Stats

#print axioms GitAi.Stats.overlap_counts
#print axioms GitAi.Stats.partitionPoint_in_bounds
#print axioms GitAi.Stats.sortDedup_ok
#print axioms GitAi.Stats.accepted_is_intersection
#print axioms GitAi.Stats.accepted_le_added
#print axioms GitAi.Stats.witness_double_count
#print axioms GitAi.Stats.witness_duplicate_file
#print axioms GitAi.Stats.identities
#print axioms GitAi.Stats.ai_additions_fits
#print axioms GitAi.Stats.numstat_totals
#print axioms GitAi.Stats.gitQuote_no_tab_newline
#print axioms GitAi.Stats.unescape_inverts_gitQuote
#print axioms GitAi.Stats.per_tool_accepted_accounting
#print axioms GitAi.Stats.per_tool_accepted_sum_iff
#print axioms GitAi.Stats.per_tool_accepted_sum
#print axioms GitAi.Stats.witness_missing_prompt
#print axioms GitAi.Stats.per_tool_sums
#print axioms GitAi.Stats.per_tool_ai_additions_le_added
#print axioms GitAi.Stats.commit_identities
#print axioms GitAi.Stats.root_commit_identities
#print axioms GitAi.Stats.merge_accepted_zero
#print axioms GitAi.Stats.merge_commit_identities
