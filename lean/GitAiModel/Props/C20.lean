/-
  Props/C20.lean — property C20: agent hook ingestion never fails the agent and never escapes
  the repository.

  Only property theorems, their non-vacuity examples and the axiom audit live here.
  Model: Model/Routing.lean. Extracted table: Extracted/CheckpointExits.lean (regenerated from
  `handle_checkpoint`'s source on every run).
-/
import GitAiModel.Lemmas.Routing
import GitAiModel.Lemmas.RoutingJson
import GitAiModel.Extracted.CheckpointExits
import GitAiModel.Base.Chars
namespace GitAi.Routing
open GitAi GitAi.CheckpointExits

/-! ## 1. Routing -/

/-- **C20 routing_exact.** `find_repository_for_file` on a path whose containing directory
    exists (`startDir`: the path itself when it is a directory, its parent otherwise; `d` is
    where that directory physically is): the answer is `r` exactly when `r` is a work-tree
    root, contains `d` COMPONENT-WISE, lies inside the workspace boundary, and every other
    work-tree root containing `d` is an ancestor of `r` (so `r` is the innermost one).
    Submodule and bare roots are never answers. -/
theorem routing_exact (fs : FS) (hwf : fs.WF = true) (file : RawPath) (boundary : Option RawPath)
    (b : Option Dir) (hb : boundary.map (canonOr fs) = b.map asRaw)
    (hlen : rawLen file ≤ maxSearchablePathBytes)
    (d : Dir) (hstart : resolve fs (startDir fs file) = some d) (hd : dirOK fs d) (r : Dir) :
    findRepoForFile fs file boundary = some r ↔ Innermost fs b d r := by
  unfold findRepoForFile
  have hnot : ¬ rawLen file > maxSearchablePathBytes := by omega
  simp only [hnot, ↓reduceIte, canonOr, hstart, hb, asRaw_length]
  exact walk_canon fs hwf b (d.length + 1) d rfl hd r

/-- paths under no root are orphans (same hypotheses): `none` exactly when no work-tree root
    inside the boundary contains the directory. -/
theorem routing_orphan (fs : FS) (hwf : fs.WF = true) (file : RawPath) (boundary : Option RawPath)
    (b : Option Dir) (hb : boundary.map (canonOr fs) = b.map asRaw)
    (hlen : rawLen file ≤ maxSearchablePathBytes)
    (d : Dir) (hstart : resolve fs (startDir fs file) = some d) (hd : dirOK fs d) :
    findRepoForFile fs file boundary = none ↔ ¬ ∃ r, Innermost fs b d r := by
  constructor
  · intro h ⟨r, hr⟩
    rw [(routing_exact fs hwf file boundary b hb hlen d hstart hd r).2 hr] at h
    cases h
  · intro h
    cases hres : findRepoForFile fs file boundary with
    | none => rfl
    | some r => exact absurd ⟨r, (routing_exact fs hwf file boundary b hb hlen d hstart hd r).1 hres⟩ h

/-- the excluded region of `hlen`: a path text longer than every platform's limit is an orphan
    by decision of the code (since the second `fix:` commit; before it the walk was quadratic
    in the path length and a 1 MiB path in a hook payload kept the hook busy for 40 s) -/
theorem too_long_is_orphan (fs : FS) (file : RawPath) (boundary : Option RawPath)
    (h : rawLen file > maxSearchablePathBytes) : findRepoForFile fs file boundary = none := by
  simp [findRepoForFile, h]

/-- **`_partial`: the chosen root contains the path.** Provable only with `hstart` (the
    containing directory exists, so `canonicalize` succeeds): FULL STATEMENT without it is false,
    see `witness_dotdot_through_missing`; the excluded region is closed again by the second gate,
    `recorded_only_in_containing_root`, which has no such hypothesis. -/
theorem routing_contains_path_partial (fs : FS) (hwf : fs.WF = true) (file : RawPath) (boundary : Option RawPath)
    (b : Option Dir) (hb : boundary.map (canonOr fs) = b.map asRaw)
    (hlen : rawLen file ≤ maxSearchablePathBytes)
    (d : Dir) (hstart : resolve fs (startDir fs file) = some d) (hd : dirOK fs d) (r : Dir)
    (h : findRepoForFile fs file boundary = some r) : r <+: d :=
  ((routing_exact fs hwf file boundary b hb hlen d hstart hd r).1 h).2.1

/-- in every case (missing directories, `..` through them, …) the answer is a work-tree root -/
theorem routing_answer_is_root (fs : FS) (file : RawPath) (boundary : Option RawPath) (r : Dir)
    (h : findRepoForFile fs file boundary = some r) : fs.rootKind r = some .normal := by
  unfold findRepoForFile at h
  split at h
  · cases h
  · exact walk_some_is_root fs _ _ _ r h

/-- `group_files_by_repository`: the files of each group are exactly those the search assigned
    to the group's root; an orphan is in no group. -/
theorem group_assignment (fs : FS) (files : List RawPath) (boundary : Option RawPath)
    (g : Dir × List RawPath) (hg : g ∈ groupsOf (groupFiles fs files boundary)) (x : RawPath) (hx : x ∈ g.2) :
    x ∈ files ∧ findRepoForFile fs x boundary = some g.1 := by
  have := mem_groupsOf _ g x hg hx
  have h2 := mem_groupFiles fs files boundary x (some g.1) this
  exact ⟨h2.1, h2.2.symm⟩

theorem orphan_in_no_group (fs : FS) (files : List RawPath) (boundary : Option RawPath) (x : RawPath)
    (horph : findRepoForFile fs x boundary = none) :
    ∀ g ∈ groupsOf (groupFiles fs files boundary), x ∉ g.2 := by
  intro g hg hx
  have := (group_assignment fs files boundary g hg x hx).2
  rw [horph] at this; cases this

/-! ### non-vacuity and the string-prefix trap -/

/-- `/a/repo`, `/a/repo2` siblings with a common string prefix; `/a/repo/in` nested;
    `/a/repo/sub` a submodule; `/a/bare.git` bare; `/a/plain` no repository. -/
def exFs : FS :=
  { dirs := [[chars% "a"], [chars% "a", chars% "repo"], [chars% "a", chars% "repo2"],
             [chars% "a", chars% "repo", chars% "in"], [chars% "a", chars% "repo", chars% "sub"],
             [chars% "a", chars% "repo", chars% "src"], [chars% "a", chars% "bare.git"],
             [chars% "a", chars% "plain"]],
    files := [[chars% "a", chars% "repo2", chars% "f.txt"], [chars% "a", chars% "repo", chars% "src", chars% "m.rs"]],
    roots := [([chars% "a", chars% "repo"], .normal), ([chars% "a", chars% "repo", chars% "in"], .normal),
              ([chars% "a", chars% "repo", chars% "sub"], .submodule), ([chars% "a", chars% "bare.git"], .bare)] }

def p (s : Str) : RawPath := (parsePath s).comps

example : exFs.WF = true := by decide
/-- the hypotheses of `routing_exact` are satisfiable (existing file, missing file in an existing dir) -/
example : resolve exFs (startDir exFs (p (chars% "/a/repo/src/m.rs"))) = some [chars% "a", chars% "repo", chars% "src"] := by decide
example : resolve exFs (startDir exFs (p (chars% "/a/repo/in/new.txt"))) = some [chars% "a", chars% "repo", chars% "in"] := by decide
example : rawLen (p (chars% "/a/repo/in/new.txt")) ≤ maxSearchablePathBytes := by decide
/-- `/a/repo2/f.txt` is NOT routed to `/a/repo`, although "/a/repo" is a string prefix of it -/
example : stringPrefix [chars% "a", chars% "repo"] [chars% "a", chars% "repo2", chars% "f.txt"] = true := by decide
example : findRepoForFile exFs (p (chars% "/a/repo2/f.txt")) none = none := by decide
/-- innermost root wins; submodules are skipped; bare and plain directories give orphans -/
example : findRepoForFile exFs (p (chars% "/a/repo/in/x")) none = some [chars% "a", chars% "repo", chars% "in"] := by decide
example : findRepoForFile exFs (p (chars% "/a/repo/src/m.rs")) none = some [chars% "a", chars% "repo"] := by decide
example : findRepoForFile exFs (p (chars% "/a/repo/sub/x")) none = some [chars% "a", chars% "repo"] := by decide
example : findRepoForFile exFs (p (chars% "/a/bare.git/HEAD")) none = none := by decide
example : findRepoForFile exFs (p (chars% "/a/plain/x")) none = none := by decide
/-- the boundary stops the search: a workspace `/a/repo/src` does not see the root above it -/
example : findRepoForFile exFs (p (chars% "/a/repo/src/m.rs")) (some (p (chars% "/a/repo/src"))) = none := by decide
/-- `..` through existing directories is resolved physically first -/
example : findRepoForFile exFs (p (chars% "/a/repo/src/../../repo2/f.txt")) none = none := by decide

/-- **FULL STATEMENT (not provable for `find_repository_for_file` alone):**
    `findRepoForFile fs file b = some r → r <+: normalise file` for every path.
    It fails when a `..` crosses a directory that does not exist: `canonicalize` fails, the
    search walks the un-normalised components upwards and finds the root lexically above the
    missing directory. Witness (replayed on the real function by the harness, oracle
    `routed-to-non-containing-repo:dotdot-through-missing-dir`): -/
theorem witness_dotdot_through_missing :
    findRepoForFile exFs (p (chars% "/a/repo/nodir/../../repo2/new.txt")) none = some [chars% "a", chars% "repo"] ∧
    ¬ ([chars% "a", chars% "repo"] <+: normalise (p (chars% "/a/repo/nodir/../../repo2/new.txt"))) := by
  constructor
  · decide
  · rw [← List.isPrefixOf_iff_prefix]; decide

/-! ### what is recorded: the second gate (`checkpoint::run`'s filter) holds in full -/

/-- **C20 recorded_only_in_containing_root (full strength).** Whatever repository a path was
    routed to, `checkpoint::run` hands git a pathspec for it only if the repository root
    contains the (lexically normalised) path COMPONENT-WISE, and that pathspec, resolved from
    the root, denotes exactly that path — i.e. it is root-relative. Holds for every tree,
    root and path (absolute, relative, with `..`, missing). -/
theorem recorded_only_in_containing_root (fs : FS) (root : Dir) (path : PathArg) (rel : RawPath)
    (h : filterPath fs root path = some rel) :
    root <+: normalise (absOf (asRaw root) path) ∧
    normalise (asRaw root ++ rel) = normalise (absOf (asRaw root) path) :=
  filterPath_sound fs root path rel h

/-- the witness above is stopped by the second gate: nothing is recorded for it in `/a/repo` -/
example : filterPath exFs [chars% "a", chars% "repo"] (parsePath (chars% "/a/repo/nodir/../../repo2/new.txt")) = none := by decide
/-- non-vacuity: relative, absolute, `..` inside the root, canonical fallback -/
example : filterPath exFs [chars% "a", chars% "repo"] (parsePath (chars% "src/m.rs")) = some (p (chars% "src/m.rs")) := by decide
example : filterPath exFs [chars% "a", chars% "repo"] (parsePath (chars% "/a/repo/src/../src/m.rs")) = some (p (chars% "src/../src/m.rs")) := by decide
example : filterPath exFs [chars% "a", chars% "repo"] (parsePath (chars% "/a/repo2/../repo/src/m.rs")) = some (p (chars% "src/m.rs")) := by decide
example : filterPath exFs [chars% "a", chars% "repo"] (parsePath (chars% "/a/repo2/f.txt")) = none := by decide
example : filterPath exFs [chars% "a", chars% "repo"] (parsePath (chars% "../repo2/f.txt")) = none := by decide

/-- every pathspec of a run comes from a named path that passed the gate -/
theorem scope_specs_from_named (fs : FS) (root : Dir) (ps : List PathArg) (rel : RawPath)
    (h : rel ∈ (scopeOf fs root (some ps)).specs) :
    ∃ q ∈ ps, root <+: normalise (absOf (asRaw root) q) ∧
      normalise (asRaw root ++ rel) = normalise (absOf (asRaw root) q) := by
  obtain ⟨q, hq, hf⟩ := scopeOf_specs fs root ps rel h
  exact ⟨q, hq, filterPath_sound fs root q rel hf⟩

/-- **no widening**: naming paths never turns a run into "every changed file of the
    repository" (this is what failed before the `fix:` commit, where `skipped` was `all`). -/
theorem named_paths_never_widen (fs : FS) (root : Dir) (ps : List PathArg) (hne : ps ≠ []) :
    scopeOf fs root (some ps) ≠ .all := scopeOf_ne_all fs root ps hne

example : scopeOf exFs [chars% "a", chars% "repo"] (some [parsePath (chars% "/a/repo2/f.txt")]) = .skipped := by decide
example : scopeOf exFs [chars% "a", chars% "repo"] none = .all := by decide

/-- **single-repository mode of `handle_checkpoint`** (work dir inside repository `r0`): every
    pathspec of every `checkpoint::run` it starts — the local one and the cross-repository
    ones — stems from a named path `q`, lies in a repository whose root contains `q`
    component-wise, and is relative to that root; relative names are resolved against `r0`. -/
theorem single_mode_contained (w : World) (r0 : Dir) (bare : Bool) (ps : List PathArg)
    (c : Call) (hc : c ∈ singleCalls w r0 bare (some ps)) (rel : RawPath) (hrel : rel ∈ c.scope.specs) :
    ∃ q ∈ ps, c.root <+: normalise (absOf (asRaw r0) q) ∧
      normalise (asRaw c.root ++ rel) = normalise (absOf (asRaw r0) q) := by
  unfold singleCalls at hc
  simp only [List.mem_cons] at hc
  rcases hc with rfl | hc
  · exact scope_specs_from_named w.fs r0 ps rel hrel
  · simp only [fanOut, List.mem_map, List.mem_filter] at hc
    obtain ⟨g, ⟨hg, _⟩, rfl⟩ := hc
    simp only at hrel
    obtain ⟨q', hq', h1, h2⟩ := scope_specs_from_named w.fs g.1 _ rel hrel
    obtain ⟨f, hf, rfl⟩ := List.mem_map.1 hq'
    have hmem := (group_assignment w.fs _ none g hg f hf).1
    obtain ⟨hf2, _⟩ := List.mem_filter.1 hmem
    obtain ⟨q, hq, rfl⟩ := List.mem_map.1 hf2
    refine ⟨q, hq, ?_, ?_⟩
    · simpa [absOf] using h1
    · simpa [absOf] using h2

/-- **multi-repository mode** (work dir in no repository): the same, with relative names
    resolved against `repository_working_dir`; and the repository of each pathspec is the one
    `find_repository_for_file` chose (innermost by `routing_exact`). -/
theorem multi_mode_contained (w : World) (workDir : RawPath) (files : List PathArg)
    (c : Call) (hc : c ∈ fanOut w (multiGroups w workDir files)) (rel : RawPath) (hrel : rel ∈ c.scope.specs) :
    ∃ q ∈ files, c.root <+: normalise (absOf workDir q) ∧
      normalise (asRaw c.root ++ rel) = normalise (absOf workDir q) ∧
      findRepoForFile w.fs (absOf workDir q) (some workDir) = some c.root := by
  simp only [fanOut, List.mem_map, List.mem_filter] at hc
  obtain ⟨g, ⟨hg, _⟩, rfl⟩ := hc
  simp only at hrel
  obtain ⟨q', hq', h1, h2⟩ := scope_specs_from_named w.fs g.1 _ rel hrel
  obtain ⟨f, hf, rfl⟩ := List.mem_map.1 hq'
  have hga := group_assignment w.fs _ (some workDir) g hg f hf
  obtain ⟨q, hq, rfl⟩ := List.mem_map.1 hga.1
  refine ⟨q, hq, ?_, ?_, hga.2⟩
  · simpa [absOf] using h1
  · simpa [absOf] using h2

/-- no run started by the fan-out is unfiltered: each group carries at least one named path -/
theorem fanOut_never_widens (w : World) (l : List (RawPath × Option Dir)) :
    ∀ c ∈ fanOut w (groupsOf l), c.scope ≠ .all := by
  intro c hc
  simp only [fanOut, List.mem_map, List.mem_filter] at hc
  obtain ⟨g, ⟨hg, _⟩, rfl⟩ := hc
  apply scopeOf_ne_all
  have := groupsOf_nonempty l g hg
  intro h
  exact this (List.map_eq_nil_iff.1 h)

/-- **FULL STATEMENT (innermost root in single-repository mode) — not true of the code:** a
    named path under a repository nested inside `r0` is kept by `r0`'s own filter (component-wise
    containment in the OUTER root) and is not sent to the nested repository. Witness below;
    on the real binary git refuses to look inside the nested repository, so nothing is recorded
    anywhere (confirmed by the end-to-end oracle `nested-file-recorded-in-outer`, which has
    never fired): attribution is lost, not misplaced. -/
theorem witness_nested_single_mode :
    (singleCalls { fs := exFs, cwd := [], stdin := none, parser := fun _ _ => .error .err,
                   allowed := fun _ => true, runOk := fun _ => true, dirty := [] }
        [chars% "a", chars% "repo"] false (some [parsePath (chars% "in/x.txt")])) =
      [⟨[chars% "a", chars% "repo"], false, .only [p (chars% "in/x.txt")]⟩] ∧
    findRepoForFile exFs (p (chars% "/a/repo/in/x.txt")) none = some [chars% "a", chars% "repo", chars% "in"] := by
  constructor <;> decide

/-! ## 2. Exit status -/

theorem parseFlags_exit (w : World) (l : List Str) (h : Option Str) (s : ExitSite)
    (hs : parseFlags w l h = .error s) :
    s = .hookInputNoValue ∨ s = .stdinReadErr ∨ s = .stdinEmpty ∨ s = .hookInputBlank := by
  fun_induction parseFlags w l h <;> simp_all

theorem dispatch_exit (w : World) (args : List Str) (h : Option Str) (s : ExitSite)
    (hs : dispatch w args h = .error s) : ∃ q, s = .presetErr q := by
  unfold dispatch at hs
  split at hs
  · cases hs
  · split at hs
    · split at hs
      · cases hs; exact ⟨_, rfl⟩
      · cases hs
    · split at hs <;> cases hs

theorem multiTrace_exit (w : World) (wd : RawPath) (ps : Option (List PathArg)) :
    (multiTrace w wd ps).exit = .noRepoNoFiles ∨ (multiTrace w wd ps).exit = .noRepoForFiles ∨
    (multiTrace w wd ps).exit = .mainReturn := by
  unfold multiTrace
  split
  · simp
  · split
    · simp
    · split <;> simp

theorem singleTrace_exit (w : World) (r0 : Dir) (bare : Bool) (ps : Option (List PathArg)) :
    (singleTrace w r0 bare ps).exit = .notAllowed ∨ (singleTrace w r0 bare ps).exit = .mainReturn ∨
    (singleTrace w r0 bare ps).exit = .localFailed := by
  unfold singleTrace
  split
  · simp
  · simp only; split <;> simp

/-- every exit of the control-flow model is one of the modelled sites (never `.other`) -/
theorem handle_exit_modelled (w : World) (args : List Str) :
    (handleCheckpoint w args).exit ∈ ExitSite.modelled := by
  have hpreset : ∀ q : Preset, ExitSite.presetErr q ∈ ExitSite.modelled := by
    intro q; cases q <;> decide
  unfold handleCheckpoint
  split
  · rename_i s hs
    rcases parseFlags_exit w _ _ s hs with rfl | rfl | rfl | rfl <;> decide
  · split
    · rename_i s hs
      obtain ⟨q, rfl⟩ := dispatch_exit w _ _ s hs
      exact hpreset q
    · unfold afterDispatch
      split
      · rcases multiTrace_exit w _ _ with h | h | h <;> rw [h] <;> decide
      · rcases singleTrace_exit w _ _ _ with h | h | h <;> rw [h] <;> decide

/-- the extracted table of `process::exit` sites: every site exits with 0 and every modelled
    site is present (regenerated from the source on every run; `decide` re-checks it) -/
theorem extracted_exits_all_zero : exitSites.all (fun s => s.2 == 0) = true := by decide
theorem extracted_exits_cover_model :
    ExitSite.modelled.all (fun s => exitSites.lookup s == some 0) = true := by decide
/-- the preset arms in the source are exactly the modelled presets, with the modelled
    `repo_working_dir` copying behaviour -/
theorem extracted_presets_match_model :
    presetArms = Preset.all.map (fun q => (q.name, q.copiesDir)) ∧ otherArms = [mockAiName] := by decide
/-- no `unwrap()`/`expect(`/`panic!` in `handle_checkpoint` on a value that the code just before
    it does not prove `Some`/`Ok`; the agent-v1 decoder has none at all. The payload-independent
    `current_dir().unwrap()` is an environmental assumption (the hook's directory exists). -/
theorem extracted_no_unguarded_unwrap : unguardedUnwraps = [] ∧ agentV1Panicky = 0 := by decide

/-- every panic-capable expression (`unwrap`, `expect`, panic-family macros, asserts, index and slice
    expressions) in the non-test code of the preset decoders (src/commands/checkpoint_agent/*.rs) is either
    a string-literal index on a `serde_json::Value` (class 0: yields `Null`, never panics) or one whose guard
    was reviewed (class 1: extract/preset_panic_sites_reviewed.json gives the reason per site). The table is
    regenerated from the source on every run; a new unwrap / byte-index slice of a payload string in a
    decoder (class 2) breaks this obligation and starts the failing-payload search of the check. This is a
    statement about the inventory, not a proof that the decoders cannot panic (see DESIGN §8 C20 limits). -/
theorem extracted_preset_panic_sites_reviewed :
    presetPanicSites.all (fun s => s.2 == 0 || s.2 == 1) = true := by decide

/-- **C20 exit_zero.** For every argument list, stdin content, preset decoder (any function
    returning `Ok`/`Err`), directory tree, allow-list and `checkpoint::run` outcome, the
    control-flow model of `handle_checkpoint` leaves the process with status 0, the status
    being read off the extracted exit table of the current source. -/
theorem exit_zero (w : World) (args : List Str) :
    exitStatus exitSites (handleCheckpoint w args) = some 0 := by
  have hmem := handle_exit_modelled w args
  have hall := extracted_exits_cover_model
  simp only [List.all_eq_true, beq_iff_eq] at hall
  exact hall _ hmem

/-- non-vacuity: preset error, blank hook input, no repository, local failure, normal return -/
def exWorld (parser : Preset → Option Str → Except PresetError AgentRun) (ok : Bool) : World :=
  { fs := exFs, cwd := p (chars% "/a/repo"), stdin := some (chars% "  "), parser := parser,
    allowed := fun _ => true, runOk := fun _ => ok, dirty := [] }
example : (handleCheckpoint (exWorld (fun _ _ => .error .err) true) [chars% "claude", chars% "--hook-input", chars% "{"]).exit
    = .presetErr .claude := by decide
example : (handleCheckpoint (exWorld (fun _ _ => .error .err) true) [chars% "claude", chars% "--hook-input", chars% "stdin"]).exit
    = .stdinEmpty := by decide
example : (handleCheckpoint (exWorld (fun _ _ => .ok ⟨.aiAgent, some (parsePath (chars% "/a/plain")), none, none⟩) true)
    [chars% "agent-v1", chars% "--hook-input", chars% "{}"]).exit = .noRepoNoFiles := by decide
example : (handleCheckpoint (exWorld (fun _ _ => .ok ⟨.aiAgent, none, some [parsePath (chars% "src/m.rs")], none⟩) false)
    [chars% "claude", chars% "--hook-input", chars% "{}"]) =
    ⟨[⟨[chars% "a", chars% "repo"], false, .only [p (chars% "src/m.rs")]⟩], .localFailed⟩ := by decide
example : (handleCheckpoint (exWorld (fun _ _ => .ok ⟨.aiAgent, some (parsePath (chars% "/a")), some [parsePath (chars% "/a/repo2/f.txt"), parsePath (chars% "/a/repo/in/y")], none⟩) true)
    [chars% "cursor", chars% "--hook-input", chars% "{}"]) =
    ⟨[⟨[chars% "a", chars% "repo", chars% "in"], false, .only [p (chars% "y")]⟩], .mainReturn⟩ := by decide

/-! ## 3. The agent-v1 decoder -/

/-- the documented input: a JSON object whose `type` is `"human"` or `"ai_agent"` (exactly
    once), with the variant's required string fields exactly once, its optional fields at
    most once and well-typed; unknown keys are ignored. -/
def HumanShape (kvs : List (Str × JVal)) : Prop :=
  (∃ d, reqField asStr (field kvs sRepoWorkingDir) = some d) ∧
  (∃ w, optField asStrList (field kvs sWillEdit) = some w) ∧
  (∃ m, optField asStrMap (field kvs sDirtyFiles) = some m)

def AiAgentShape (kvs : List (Str × JVal)) : Prop :=
  (∃ d, reqField asStr (field kvs sRepoWorkingDir) = some d) ∧
  (∃ e, optField asStrList (field kvs sEdited) = some e) ∧
  reqField decodeTranscript (field kvs sTranscript) = some () ∧
  (∃ a, reqField asStr (field kvs sAgentName) = some a) ∧
  (∃ m, reqField asStr (field kvs sModel) = some m) ∧
  (∃ c, reqField asStr (field kvs sConversationId) = some c) ∧
  (∃ m, optField asStrMap (field kvs sDirtyFiles) = some m)

/-- **C20 agentv1_total.** The decoder is a total function into `ok`/`err` (no third
    outcome: the Rust code has no `unwrap`/index, see `extracted_no_unguarded_unwrap`), it
    rejects every JSON value that is neither an object nor an array, and on objects it
    accepts exactly the documented shape. -/
theorem agentv1_total (j : JVal) :
    (∃ r, decodeAgentV1 j = .ok r) ∨ decodeAgentV1 j = .error .rejected := by
  unfold decodeAgentV1
  cases decodeAgentV1Opt j with
  | some a => left; exact ⟨a, rfl⟩
  | none => right; rfl

theorem agentv1_ok_iff (j : JVal) (r : AgentRun) :
    decodeAgentV1 j = .ok r ↔ decodeAgentV1Opt j = some r := by
  unfold decodeAgentV1
  cases decodeAgentV1Opt j <;> simp

theorem agentv1_scalars_rejected (j : JVal)
    (h : j = .null ∨ (∃ b, j = .bool b) ∨ (∃ n, j = .num n) ∨ (∃ s, j = .str s)) :
    decodeAgentV1 j = .error .rejected := by
  rcases h with rfl | ⟨b, rfl⟩ | ⟨n, rfl⟩ | ⟨s, rfl⟩ <;> rfl

/-- an object tagged `human` is accepted exactly on the documented shape -/
theorem agentv1_human_ok_iff (kvs : List (Str × JVal))
    (ht : field kvs sType = .one (.str sHuman)) :
    (∃ r, decodeAgentV1 (.obj kvs) = .ok r) ↔ HumanShape kvs := by
  simp only [agentv1_ok_iff, decodeAgentV1Opt, ht, ↓reduceIte, decodeHumanMap, HumanShape]
  constructor
  · intro ⟨r, hr⟩
    cases h1 : reqField asStr (field kvs sRepoWorkingDir) with
    | none => simp [h1] at hr
    | some d =>
      cases h2 : optField asStrList (field kvs sWillEdit) with
      | none => simp [h1, h2] at hr
      | some wl =>
        cases h3 : optField asStrMap (field kvs sDirtyFiles) with
        | none => simp [h1, h2, h3] at hr
        | some m => exact ⟨⟨d, rfl⟩, ⟨wl, rfl⟩, ⟨m, rfl⟩⟩
  · intro ⟨⟨d, h1⟩, ⟨wl, h2⟩, ⟨m, h3⟩⟩
    simp [h1, h2, h3]

/-- an object tagged `ai_agent` is accepted exactly on the documented shape -/
theorem agentv1_ai_ok_iff (kvs : List (Str × JVal))
    (ht : field kvs sType = .one (.str sAiAgent)) :
    (∃ r, decodeAgentV1 (.obj kvs) = .ok r) ↔ AiAgentShape kvs := by
  have hne : ¬ sAiAgent = sHuman := by decide
  simp only [agentv1_ok_iff, decodeAgentV1Opt, ht, hne, ↓reduceIte, decodeAiMap, AiAgentShape]
  constructor
  · intro ⟨r, hr⟩
    cases h1 : reqField asStr (field kvs sRepoWorkingDir) with
    | none => simp [h1] at hr
    | some d =>
    cases h2 : optField asStrList (field kvs sEdited) with
    | none => simp [h1, h2] at hr
    | some e =>
    cases h3 : reqField decodeTranscript (field kvs sTranscript) with
    | none => simp [h1, h2, h3] at hr
    | some u =>
    cases h4 : reqField asStr (field kvs sAgentName) with
    | none => simp [h1, h2, h3, h4] at hr
    | some an =>
    cases h5 : reqField asStr (field kvs sModel) with
    | none => simp [h1, h2, h3, h4, h5] at hr
    | some mo =>
    cases h6 : reqField asStr (field kvs sConversationId) with
    | none => simp [h1, h2, h3, h4, h5, h6] at hr
    | some ci =>
    cases h7 : optField asStrMap (field kvs sDirtyFiles) with
    | none => simp [h1, h2, h3, h4, h5, h6, h7] at hr
    | some m => exact ⟨⟨d, rfl⟩, ⟨e, rfl⟩, rfl, ⟨an, rfl⟩, ⟨mo, rfl⟩, ⟨ci, rfl⟩, ⟨m, rfl⟩⟩
  · intro ⟨⟨d, h1⟩, ⟨e, h2⟩, h3, ⟨an, h4⟩, ⟨mo, h5⟩, ⟨ci, h6⟩, ⟨m, h7⟩⟩
    simp [h1, h2, h3, h4, h5, h6, h7]

/-- an object whose `type` is missing, duplicated, not a string or not one of the two variant
    names is rejected -/
theorem agentv1_bad_tag_rejected (kvs : List (Str × JVal))
    (h : ∀ t, field kvs sType = .one (.str t) → t ≠ sHuman ∧ t ≠ sAiAgent) :
    decodeAgentV1 (.obj kvs) = .error .rejected := by
  have : decodeAgentV1Opt (.obj kvs) = none := by
    simp only [decodeAgentV1Opt]
    split
    · rename_i t ht
      have := h t ht
      simp [this.1, this.2]
    · rfl
  simp [decodeAgentV1, this]

/-- non-vacuity and the shapes serde accepts beyond the documentation (sequence form) -/
def kv (k : Str) (v : JVal) : Str × JVal := (k, v)
example : decodeAgentV1 (.obj [kv (chars% "type") (.str (chars% "ai_agent")), kv (chars% "repo_working_dir") (.str (chars% "/a/repo")),
    kv (chars% "edited_filepaths") (.arr [.str (chars% "src/m.rs")]),
    kv (chars% "transcript") (.obj [kv (chars% "messages") (.arr [.obj [kv (chars% "type") (.str (chars% "user")), kv (chars% "text") (.str (chars% "hi"))]])]),
    kv (chars% "agent_name") (.str (chars% "t")), kv (chars% "model") (.str (chars% "m")), kv (chars% "conversation_id") (.str (chars% "c")),
    kv (chars% "zzz") (.num 3)])
  = .ok ⟨.aiAgent, some (parsePath (chars% "/a/repo")), some [parsePath (chars% "src/m.rs")], none⟩ := by decide
example : decodeAgentV1 (.obj [kv (chars% "type") (.str (chars% "human")), kv (chars% "repo_working_dir") (.str (chars% "/a")),
    kv (chars% "repo_working_dir") (.str (chars% "/a"))]) = .error .rejected := by decide
example : decodeAgentV1 (.obj [kv (chars% "type") (.str (chars% "human")), kv (chars% "repo_working_dir") (.num 1)]) = .error .rejected := by decide
example : decodeAgentV1 (.arr [.str (chars% "human"), .str (chars% "/a"), .null]) = .ok ⟨.human, some (parsePath (chars% "/a")), none, none⟩ := by decide
example : decodeAgentV1 (.arr [.str (chars% "human"), .str (chars% "/a")]) = .error .rejected := by decide

/-! ## 4. The working log stays readable -/

/-- a checkpoint line as serde writes it: the compact rendering of some JSON value -/
def IsLine (l : Str) : Prop := ∃ v : JVal, l = render v

theorem line_facts (l : Str) (h : IsLine l) : '\n' ∉ l ∧ '\r' ∉ l ∧ isBlank l = false := by
  obtain ⟨v, rfl⟩ := h
  have hn := render_noCtl v
  refine ⟨noCtl_not_mem _ hn '\n' (by decide), noCtl_not_mem _ hn '\r' (by decide), ?_⟩
  -- a rendering starts with one of `n t f - digit " [ {`, none of which is whitespace
  have hne := render_ne_nil v
  cases hr : render v with
  | nil => exact absurd hr hne
  | cons c cs =>
    have hc : isWhitespace c = false := by
      have hall : noCtl (c :: cs) = true := hr ▸ hn
      cases v with
      | null => simp [render] at hr; rw [← hr.1]; decide
      | bool b => cases b <;> (simp [render] at hr; rw [← hr.1]; decide)
      | num n =>
        cases n with
        | ofNat k =>
          have hd := natToStr_all_isDigit k
          simp only [render, renderInt] at hr
          rw [hr] at hd
          simp only [List.all_cons, Bool.and_eq_true] at hd
          have h1 := hd.1
          simp only [isDigit, Bool.and_eq_true, decide_eq_true_eq] at h1
          have ha : '0'.toNat ≤ c.toNat := h1.1
          have hb : c.toNat ≤ '9'.toNat := h1.2
          have ha' : 48 ≤ c.toNat := by simpa using ha
          have hb' : c.toNat ≤ 57 := by simpa using hb
          simp only [isWhitespace]
          have : c.toNat ≠ 0x85 ∧ c.toNat ≠ 0xA0 ∧ c.toNat ≠ 0x1680 ∧ c.toNat ≠ 0x2028 ∧ c.toNat ≠ 0x2029 ∧
              c.toNat ≠ 0x202F ∧ c.toNat ≠ 0x205F ∧ c.toNat ≠ 0x3000 ∧ c.toNat ≠ 0x20 := by omega
          simp [this]
          omega
        | negSucc k => simp [render, renderInt] at hr; rw [← hr.1]; decide
      | str s => simp [render, renderStr] at hr; rw [← hr.1]; decide
      | arr xs => simp [render] at hr; rw [← hr.1]; decide
      | obj kvs => simp [render] at hr; rw [← hr.1]; decide
    simp [isBlank, hc]

/-- **C20 working_log_readable.** Whatever checkpoints are appended, reading the file back
    line by line returns exactly the lines that were written, in order: serde's writer never
    emits a raw newline or carriage return, and no line is blank. (JSONL framing;
    `read_all_checkpoints ∘ write_all_checkpoints` on the line level.) -/
theorem working_log_readable (ls : List Str) (h : ∀ l ∈ ls, IsLine l) :
    readLines (writeAll ls) = ls := by
  have hf := fun l hl => line_facts l (h l hl)
  unfold readLines writeAll
  by_cases hnil : ls = []
  · subst hnil; decide
  · have hne : joinWith '\n' ls ≠ [] := by
      cases ls with
      | nil => exact absurd rfl hnil
      | cons l rest =>
        have hl := (hf l (by simp)).2.2
        cases rest with
        | nil =>
          simp only [joinWith]; intro he; rw [he] at hl; simp [isBlank] at hl
        | cons r rs =>
          simp only [joinWith]; intro he
          have : l = [] := (List.append_eq_nil_iff.1 he).1
          rw [this] at hl; simp [isBlank] at hl
    have hemp : (joinWith '\n' ls).isEmpty = false := by
      cases hj : joinWith '\n' ls with
      | nil => exact absurd hj hne
      | cons _ _ => rfl
    simp only [hemp, Bool.false_eq_true, ↓reduceIte]
    rw [← joinWith_snoc_nil ls hnil]
    unfold rustLines
    rw [splitOn_joinWith '\n' (ls ++ [[]]) (by simp) (by
      intro q hq
      rcases List.mem_append.1 hq with hq | hq
      · exact (hf q hq).1
      · simp at hq; subst hq; simp)]
    rw [rustLinesAux_snoc_nil ls (fun l hl => (hf l hl).2.1)]
    apply List.filter_eq_self.2
    intro l hl
    simp [(hf l hl).2.2]

/-- non-vacuity: a line with an embedded newline, quote and control character in a string -/
example : readLines (writeAll [render (.obj [kv (chars% "file") (.str (chars% "a\nb\"\u0001"))]), render (.arr [.num 1, .null])])
    = [chars% "{\"file\":\"a\\nb\\\"\\u0001\"}", chars% "[1,null]"] := by decide

end GitAi.Routing

#print axioms GitAi.Routing.routing_exact
#print axioms GitAi.Routing.routing_orphan
#print axioms GitAi.Routing.too_long_is_orphan
#print axioms GitAi.Routing.routing_contains_path_partial
#print axioms GitAi.Routing.routing_answer_is_root
#print axioms GitAi.Routing.group_assignment
#print axioms GitAi.Routing.orphan_in_no_group
#print axioms GitAi.Routing.witness_dotdot_through_missing
#print axioms GitAi.Routing.recorded_only_in_containing_root
#print axioms GitAi.Routing.named_paths_never_widen
#print axioms GitAi.Routing.single_mode_contained
#print axioms GitAi.Routing.multi_mode_contained
#print axioms GitAi.Routing.fanOut_never_widens
#print axioms GitAi.Routing.witness_nested_single_mode
#print axioms GitAi.Routing.handle_exit_modelled
#print axioms GitAi.Routing.extracted_exits_all_zero
#print axioms GitAi.Routing.extracted_exits_cover_model
#print axioms GitAi.Routing.extracted_presets_match_model
#print axioms GitAi.Routing.extracted_no_unguarded_unwrap
#print axioms GitAi.Routing.extracted_preset_panic_sites_reviewed
#print axioms GitAi.Routing.exit_zero
#print axioms GitAi.Routing.agentv1_total
#print axioms GitAi.Routing.agentv1_scalars_rejected
#print axioms GitAi.Routing.agentv1_human_ok_iff
#print axioms GitAi.Routing.agentv1_ai_ok_iff
#print axioms GitAi.Routing.agentv1_bad_tag_rejected
#print axioms GitAi.Routing.working_log_readable
