/-
  Props/SysMulti.lean — several files under one working log (Model/SysMulti.lean): every file behaves
  as if it were alone. Audited by the C14 check (Props/C14.lean imports this file and prints the axioms).

    prune_per_file        clearing superseded character ranges never touches the newest entry of a file
                          nor anybody's line attributions
    next_checkpoint_base  … so, after any run, the next checkpoint of every file starts from exactly
                          what commit time reads
    checkpoint_scope      an agent checkpoint naming `fs` changes nothing for a file outside `fs`
    checkpoint_split_by_file   one checkpoint naming fs1 ++ fs2 ≡ one naming fs1 then one naming fs2
    file_isolation        a multi-file run projected onto file f = `Sys.run` of the operations that
                          concern f
    commit_exact_lifted   C01's `commit_exact` for every file of a multi-file history
-/
import GitAiModel.Lemmas.SysMulti
import GitAiModel.Props.C01
namespace GitAi.SysMulti
open GitAi.Sys

/-! ## 1. pruning is per FILE -/

/-- **prune_per_file.** Whatever `prune_old_char_attributions` clears, the newest entry of every
    file is exactly as before (it keeps the character-level ranges the file's next checkpoint starts
    from), and every entry keeps its file, snapshot and line attributions. -/
theorem prune_per_file (cks : List Ckpt) (f : Path) :
    (logEntries (prune cks) f).getLast? = (logEntries cks f).getLast? ∧
    (logEntries (prune cks) f).map MEntry.line = (logEntries cks f).map MEntry.line :=
  ⟨pruneAux_latest cks [] f (by simp), pruneAux_line cks [] f⟩

/-- **next_checkpoint_base.** After any run that starts with an empty working log, the state the next
    checkpoint of a file diffs against (newest entry's snapshot + character ranges, cleared ranges read
    as human) is the state commit time reads (newest entry's line attributions). -/
theorem next_checkpoint_base (ms : MState) (ops : List MOp) (f : Path) (h0 : ms.ckpts = []) :
    previous (baseView (runM ms ops) f) = previous (view (runM ms ops) f) :=
  previous_base _ f (wf_runM ms ops (h0 ▸ wf_nil))

/-- the slip this excludes (seeded regression C14-seed2): clearing per CHECKPOINT — all entries of a
    checkpoint as soon as any of its files has a newer entry -/
def pruneAuxSlip : List Ckpt → List Path → List Ckpt
  | [], _ => []
  | c :: older, seen =>
    { c with entries := if c.entries.any (fun e => e.file ∈ seen) then c.entries.map MEntry.clear else c.entries }
      :: pruneAuxSlip older (seen ++ c.entries.map (·.file))

/-- a checkpoint of session 1 covering files 0 and 1, then a human checkpoint of file 0 alone: the
    per-checkpoint variant takes the ranges of file 1's newest entry away, `prune` does not -/
def slipLog : List Ckpt :=
  [⟨none, [⟨0, [7, 1, 5], [none, none, some 1], some [none, none, some 1]⟩]⟩,
   ⟨some 1, [⟨0, [1, 5], [none, some 1], some [none, some 1]⟩, ⟨1, [2, 6], [none, some 1], some [none, some 1]⟩]⟩]

example : (logEntries (pruneAuxSlip slipLog []) 1).getLast? ≠ (logEntries slipLog 1).getLast? := by decide
example : (logEntries (prune slipLog) 1).getLast? = (logEntries slipLog 1).getLast? := by decide
example : ((logEntries (pruneAuxSlip slipLog []) 1).getLast?.map MEntry.base) = some ⟨[2, 6], [none, none]⟩ := by decide

/-! ## 2. scope of an agent checkpoint -/

/-- **checkpoint_scope.** An agent checkpoint naming the files `fs` leaves the one-file state of every
    file outside `fs` — working-log entries included — exactly as it was. -/
theorem checkpoint_scope (ms : MState) (s : Nat) (fs : List Path) (hnd : fs.Nodup) (hwf : WF ms.ckpts)
    (f : Path) (hf : f ∉ fs) : view (checkpointM ms (some s) fs) f = view ms f := by
  rw [view_checkpointM ms (some s) fs hnd hwf f]
  simp [hf]

/-- the whole agent protocol (pre-edit human checkpoint, writes, agent checkpoint), seen from a file the
    agent did not name: at most a human checkpoint -/
theorem aiEdit_scope (ms : MState) (s : Nat) (edits : List (Path × List Nat)) (hwf : WF ms.ckpts)
    (f : Path) (hf : f ∉ named edits) :
    view (stepM ms (.aiEdit s edits)) f = view ms f ∨
    view (stepM ms (.aiEdit s edits)) f = checkpoint (view ms f) none := by
  rw [view_stepM ms (.aiEdit s edits) f hwf (fun h => absurd h hf)]
  simp only [concern, hf, if_false]
  by_cases hs : f ∈ humanScope ms (named edits)
  · right; simp [hs, run, step]
  · left; simp [hs, run]

/-- **one checkpoint for several files ≡ one checkpoint per group of files** (the clause of C14 the
    seeded per-checkpoint pruning breaks) -/
theorem checkpoint_split_by_file (ms : MState) (who : Author) (fs1 fs2 : List Path)
    (hnd : (fs1 ++ fs2).Nodup) (hwf : WF ms.ckpts) (f : Path) :
    view (checkpointM (checkpointM ms who fs1) who fs2) f = view (checkpointM ms who (fs1 ++ fs2)) f := by
  have hn := List.nodup_append.1 hnd
  rw [view_checkpointM _ who fs2 hn.2.1 (wf_checkpointM ms who fs1 hwf) f,
      view_checkpointM ms who fs1 hn.1 hwf f, view_checkpointM ms who _ hnd hwf f]
  by_cases h1 : f ∈ fs1
  · have h2 : f ∉ fs2 := fun h2 => hn.2.2 f h1 f h2 rfl
    simp [h1, h2]
  · by_cases h2 : f ∈ fs2 <;> simp [h1, h2]

/-! ## 3. file isolation -/

/-- **file_isolation.** Running multi-file operations and then looking at file `f` is the same as
    running, on `f` alone, the one-file operations that concern `f` (`projOps`: its edits, the agent
    edits naming it, a human checkpoint wherever a checkpoint's scope covers it, its stagings, every
    commit). Hypothesis `PreExact`: whenever an agent names `f` while git reports `f` unchanged and `f`
    has no entry, `f` has no INITIAL claims (see `preExact_needed`; `preExact_edit`: always true in the
    edit phase after a clean start). -/
theorem file_isolation (ms : MState) (ops : List MOp) (f : Path) (hwf : WF ms.ckpts)
    (hx : PreExact ms f ops) :
    view (runM ms ops) f = run (view ms f) (projOps ms f ops) :=
  view_runM ms ops f hwf hx

/-- the excluded region: file 0 carries an INITIAL claim (line 1 of the recorded content [5, 1]) but was
    put back to its HEAD content by hand; an agent then names it. The code makes one entry (the pre-edit
    checkpoint does not examine an unchanged file), the one-file model two (it forces an entry for the
    INITIAL claims first) … -/
def edgeState : MState :=
  { files := fun p => if p = 0 then { head := [1], index := [1], work := [1], initial := [(1, 7)], initSnap := [5, 1] } else {},
    paths := [0] }

example : ¬ PreExact edgeState 0 [.aiEdit 2 [(0, [1, 9])]] := by
  simp [PreExact, PreExactOp, named, dedup, humanScope, edgeState, changed, logFiles]

theorem preExact_needed :
    (view (runM edgeState [.aiEdit 2 [(0, [1, 9])]]) 0).entries.length ≠
      (run (view edgeState 0) (projOps edgeState 0 [.aiEdit 2 [(0, [1, 9])]])).entries.length := by decide

/-- … and nothing observable depends on it: same note, same INITIAL after the commit -/
example : (view (runM edgeState [.aiEdit 2 [(0, [1, 9])], .stageAll [0], .commit]) 0).notes =
    (run (view edgeState 0) (projOps edgeState 0 [.aiEdit 2 [(0, [1, 9])], .stageAll [0], .commit])).notes := by decide

/-! ## 4. the one-file theorems lift -/

/-- every file at its committed content, empty working log -/
def clean (F0 : Path → List Nat) (paths : List Path) : MState :=
  { files := fun p => { head := F0 p, index := F0 p, work := F0 p }, paths := paths, ckpts := [] }

/-- **C01's `commit_exact` for every file of a multi-file history.** After any multi-file edit phase
    (people editing any files, agents editing several files per checkpoint, plain checkpoints) followed
    by `git add fs; git commit`, the note lines of every committed file `f` are exactly the lines of `f`
    the commit adds whose last substantive change was reported by an agent — whatever happened in the
    other files. -/
theorem commit_exact_lifted (F0 : Path → List Nat) (paths : List Path) (g0 : Nat → Author) (f : Path)
    (ops : List MOp) (fs : List Path) (hf : f ∈ fs) (he : ∀ op ∈ ops, EditOp op) (hnd : (F0 f).Nodup)
    (hv : ValidOps ⟨{ head := F0 f, index := F0 f, work := F0 f }, g0, F0 f⟩ (projOps (clean F0 paths) f ops)) :
    let sp := specRun ⟨{ head := F0 f, index := F0 f, work := F0 f }, g0, F0 f⟩ (projOps (clean F0 paths) f ops)
    ((runM (clean F0 paths) (ops ++ [.stageAll fs, .commit])).files f).notes.head?
      = some (expectedNote (F0 f) sp.st.work sp.g) := by
  intro sp
  have hview0 : view (clean F0 paths) f = { head := F0 f, index := F0 f, work := F0 f } := rfl
  have hx : PreExact (clean F0 paths) f (ops ++ [.stageAll fs, .commit]) :=
    preExact_append _ _ _ _ (preExact_edit _ _ _ he rfl) ⟨trivial, trivial, trivial⟩
  have hiso := file_isolation (clean F0 paths) (ops ++ [.stageAll fs, .commit]) f wf_nil hx
  rw [projOps_append] at hiso
  have htail : projOps (runM (clean F0 paths) ops) f [.stageAll fs, .commit] = [.stageAll, .commit] := by
    simp [projOps, concern, hf]
  rw [htail, run_append, hview0] at hiso
  have hce := (commit_exact (F0 f) g0 _ hnd hv).1
  have hn : ((runM (clean F0 paths) (ops ++ [.stageAll fs, .commit])).files f).notes
      = (view (runM (clean F0 paths) (ops ++ [.stageAll fs, .commit])) f).notes := rfl
  rw [hn, hiso]
  have hst : sp.st = run { head := F0 f, index := F0 f, work := F0 f } (projOps (clean F0 paths) f ops) :=
    specRun_st _ _
  rw [← hst]
  exact hce

/-! ### non-vacuity: the two schedules of C14-seed2's demonstration (files 0 and 1; ids 5,6 / 15,16 are
    the agent's lines, 7 / 17 the person's) -/

def demoHeads : Path → List Nat := fun p => if p = 0 then [1, 2, 3, 4] else if p = 1 then [11, 12, 13, 14] else []

def demoTail : List MOp :=
  [.humanEdit 0 [7, 1, 2, 3, 4, 5, 6], .plainCheckpoint, .humanEdit 1 [17, 11, 12, 13, 14, 15, 16],
   .stageAll [0, 1], .commit]

/-- schedule A: ONE agent checkpoint naming both files -/
def demoA : List MOp := .aiEdit 1 [(0, [1, 2, 3, 4, 5, 6]), (1, [11, 12, 13, 14, 15, 16])] :: demoTail
/-- schedule B: one agent checkpoint per file -/
def demoB : List MOp := .aiEdit 1 [(0, [1, 2, 3, 4, 5, 6])] :: .aiEdit 1 [(1, [11, 12, 13, 14, 15, 16])] :: demoTail

example : ((runM (clean demoHeads [0, 1]) demoA).files 1).notes = [[(6, 1), (7, 1)]] := by decide
example : ((runM (clean demoHeads [0, 1]) demoB).files 1).notes = [[(6, 1), (7, 1)]] := by decide
example : ((runM (clean demoHeads [0, 1]) demoA).files 0).notes = [[(6, 1), (7, 1)]] := by decide
example : projOps (clean demoHeads [0, 1]) 1 demoA =
    [.aiEdit 1 [11, 12, 13, 14, 15, 16], .humanCheckpoint, .humanEdit [17, 11, 12, 13, 14, 15, 16], .stageAll, .commit] := by decide
example : ∀ op ∈ demoA.take 4, EditOp op := by simp [demoA, demoTail, EditOp]

end GitAi.SysMulti

#print axioms GitAi.SysMulti.prune_per_file
#print axioms GitAi.SysMulti.next_checkpoint_base
#print axioms GitAi.SysMulti.checkpoint_scope
#print axioms GitAi.SysMulti.aiEdit_scope
#print axioms GitAi.SysMulti.checkpoint_split_by_file
#print axioms GitAi.SysMulti.file_isolation
#print axioms GitAi.SysMulti.preExact_needed
#print axioms GitAi.SysMulti.commit_exact_lifted
