import GitAiModel.Driver.All
open Lean GitAi.Driver

/-- one request per line: a JSON object with an "op" field; one JSON response per line. -/
def dispatch (op : String) (j : Json) : Except String Json :=
  match handlers.findSome? (fun h => h op j) with
  | some r => r
  | none => .error s!"unknown op {op}"

def respond (line : String) : String :=
  match Json.parse line with
  | .error e => (Json.mkObj [("driver_error", Json.str s!"parse: {e}")]).compress
  | .ok j =>
    match j.getObjVal? "op" >>= Json.getStr? with
    | .error e => (Json.mkObj [("driver_error", Json.str e)]).compress
    | .ok op =>
      match dispatch op j with
      | .ok r => r.compress
      | .error e => (Json.mkObj [("driver_error", Json.str e)]).compress

partial def loop (h : IO.FS.Stream) (out : IO.FS.Stream) : IO Unit := do
  let line ← h.getLine
  if line.isEmpty then return ()
  out.putStrLn (respond line)
  loop h out

def main : IO Unit := do
  let out ← IO.getStdout
  loop (← IO.getStdin) out
  out.flush
