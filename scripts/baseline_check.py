#!/usr/bin/env python3
"""Run the repository's pinned test suite with the verif-hooks guard OFF and compare with
/root/.vp/BASELINE.json: every stable-pass test must still pass. Usage: baseline_check.py [repo_dir]"""
import json, os, subprocess, sys, xml.etree.ElementTree as ET
repo = sys.argv[1] if len(sys.argv) > 1 else "/repo"
here = os.path.dirname(os.path.abspath(__file__))
base = json.load(open("/root/.vp/BASELINE.json"))
want = set(base["stable_pass"])
env = dict(os.environ, CARGO_NET_OFFLINE="true")
cmd = ["cargo", "nextest", "run", "--workspace", "--no-fail-fast", "--tool-config-file", f"pb:{here}/nextest.toml",
       "--profile", "pb", "--test-threads", "8", "--offline"]
p = subprocess.run(cmd, cwd=repo, env=env, capture_output=True, text=True)
junit = None
cands = [os.path.join(repo, "target", "nextest")]
if os.environ.get("CARGO_TARGET_DIR"):
    cands.append(os.path.join(os.environ["CARGO_TARGET_DIR"], "nextest"))
for cand in cands:
    for root, _, files in os.walk(cand):
        if "junit.xml" in files:
            j = os.path.join(root, "junit.xml")
            if junit is None or os.path.getmtime(j) > os.path.getmtime(junit):
                junit = j
if not junit:
    print("no junit.xml; nextest output tail:\n", p.stderr[-3000:]); sys.exit(2)
passed, failed = set(), set()
for tc in ET.parse(junit).getroot().iter("testcase"):
    tid = (tc.get("classname") or "") + "::" + (tc.get("name") or "")
    if tc.find("failure") is not None or tc.find("error") is not None or tc.find("flakyFailure") is not None:
        failed.add(tid)
    elif tc.find("skipped") is None:
        passed.add(tid)
passed -= failed
missing = sorted(want - passed)
print(f"baseline stable_pass={len(want)} passed_now={len(passed)} failed_now={len(failed)} stable_not_passing={len(missing)}")
for m in missing[:50]:
    print("  NOT PASSING:", m)
sys.exit(1 if missing else 0)
