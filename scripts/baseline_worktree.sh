#!/bin/sh
# Run the pinned suite (guard OFF) on a scratch worktree of /repo's HEAD (committed state only),
# so in-progress uncommitted edits in /repo do not interfere. Usage: baseline_worktree.sh [rev]
set -e
REV=${1:-HEAD}
WT=/tmp/vf-baseline-wt
git -C /repo worktree remove --force $WT 2>/dev/null || true
rm -rf $WT
git -C /repo worktree add --detach $WT $REV >/dev/null 2>&1
# reuse /repo/target as a starting point is not safe; use a dedicated target dir (kept between runs for speed)
export CARGO_TARGET_DIR=/tmp/vf-baseline-target
python3 /verif/scripts/baseline_check.py $WT
rc=$?
git -C /repo worktree remove --force $WT 2>/dev/null || true
exit $rc
