#!/usr/bin/env python3
"""Regenerate every lean/GitAiModel/Extracted/*.lean table from /repo's current sources by running
all extractors in /verif/extract. A failing extractor is reported and skipped (the property check
that owns it reports the broken tie)."""
import importlib.util, os, sys, traceback
V = os.path.dirname(os.path.dirname(os.path.abspath(__file__)))
sys.path.insert(0, V)
rc = 0
for fn in sorted(os.listdir(os.path.join(V, "extract"))):
    if not fn.endswith(".py"):
        continue
    path = os.path.join(V, "extract", fn)
    if "def main(" not in open(path).read():
        continue          # helper script, not an extractor
    try:
        spec = importlib.util.spec_from_file_location("extract_" + fn[:-3], path)
        mod = importlib.util.module_from_spec(spec)
        spec.loader.exec_module(mod)
        if hasattr(mod, "main"):
            try:
                mod.main()
            except SystemExit as e:
                if e.code not in (None, 0):
                    raise
            print("extracted:", fn)
    except BaseException as e:
        rc = 1
        print("extractor failed:", fn, repr(e))
        traceback.print_exc()
sys.exit(0)
