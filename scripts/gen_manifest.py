#!/usr/bin/env python3
"""Regenerate MANIFEST.json from the per-property table below (single source of truth)."""
import json, os, subprocess
V = os.path.dirname(os.path.dirname(os.path.abspath(__file__)))
props = [json.loads(l) for l in open(os.path.join(V, "properties.jsonl"))]
ids = [p["id"] for p in props]

CLAIMS = {
 "C17": dict(
   technique="Lean 4 theorems (round trip, grammar, parse totality) over a hand-written model of the note format + in-process model-vs-code correspondence",
   text="Machine-checked proof over the NoteFormat model that deserialize(serialize log) returns the same files/hashes/range multisets/metadata text for every log without a newline in a path, that the output is in the standard's grammar, that the parser is total and rejects divider-less text; the model is tied to the Rust code by differential testing of serialize/deserialize/format/parse on generated and corpus inputs on every run.",
   note="Trusted: Lean kernel (propext, Quot.sound, Classical.choice); harness generators/canonicalisation; serde_json (metadata block is opaque text with asserted pretty-printer facts); u32 as Nat with <2^32 guards. Hash strings with spaces/newlines are outside the domain. Known finding: newline in path.",
   ref="DESIGN.md §8 C17"),
}

checks = []
for i in ids:
    if i in CLAIMS:
        c = CLAIMS[i]
        checks.append({
            "property_id": i,
            "quick_cmd": f"./check {i} quick",
            "thorough_cmd": f"./check {i} thorough",
            "evidence_file": f"/verif/evidence/{i}.json",
            "replay_cmd_template": f"./check {i} --replay {{path}}",
            "engine": "lean-proof+correspondence",
            "level_claimed": {"category": "proof", "text": c["text"], "design_ref": c["ref"]},
            "level_note": c["note"],
            "technique": c["technique"],
        })
na = [{"property_id": i, "reason": "model and check not built yet in this session (planned; see DESIGN.md §13 build order)"} for i in ids if i not in CLAIMS]
hooks_commits = subprocess.run(["git", "-C", "/repo", "log", "--format=%h %s", "--grep=^verif-hooks"], capture_output=True, text=True).stdout.strip().split("\n")
m = {
 "version": 1,
 "setup_cmd": "./setup.sh",
 "hooks": {
   "guard": "cargo feature verif-hooks",
   "enable": "cargo build --features test-support,verif-hooks (harness crate depends on /repo with that feature; binary built into /verif/build/repo-target)",
   "baseline_off_cmd": "python3 /verif/scripts/baseline_check.py /repo",
   "source_commits": [c for c in hooks_commits if c],
   "add_only": True,
 },
 "engines": [
   {"name": "lean-proof+correspondence", "path": "/verif/lean, /verif/harness, /verif/vlib", "serves_properties": sorted(CLAIMS),
    "kind_free_text": "Lean 4 theorems over hand-written executable models; Rust in-process harness + Lean driver line protocol for model-vs-code correspondence; oracles on the implementation for failing-input search"},
 ],
 "checks": checks,
 "not_applicable": na,
 "notes": "See DESIGN.md. known_findings.json lists recorded findings and fixed defects.",
}
json.dump(m, open(os.path.join(V, "MANIFEST.json"), "w"), indent=1)
print("claimed:", sorted(CLAIMS), "not_applicable:", len(na))
