#!/usr/bin/env python3
"""Regenerate MANIFEST.json from the per-property table below (single source of truth)."""
import json, os, subprocess
V = os.path.dirname(os.path.dirname(os.path.abspath(__file__)))
props = [json.loads(l) for l in open(os.path.join(V, "properties.jsonl"))]
ids = [p["id"] for p in props]

CLAIMS = {
 "C12": dict(
   technique="Lean 4 theorems over a table-driven model of the internal-git profile rewriting, the extracted inventory of internal git call sites (decide over current tables), C-style path unquoting and base-dir/worktree path functions; in-process model-vs-code correspondence; end-to-end metamorphic replay of generated histories under sampled git configurations and invocation contexts with trace validation of the inventory",
   text="Machine-checked proof that args_with_internal_git_profile keeps the sub-command, adds each profile option exactly once before '--', removes every conflicting option and leaves everything else and everything from '--' on untouched; that every internal git call whose stdout git-ai parses (125-site inventory re-extracted each run) is pinned by a neutralising flag or a coping parser against every listed configuration knob affecting its output kind; that unescape_git_path inverts git's C-style quoting for every path under both core.quotePath settings; that -C composition/base-dir resolution is cwd-independent behind an absolute -C and worktree storage depends only on (git dir, common dir). Configuration independence of notes/blame/stats follows relative to an explicit git-kernel assumption, which is validated each run on the installed git and by metamorphic end-to-end runs (same history under 34 knob settings, knob combinations, root/subdir/-C/linked worktree).",
   note="Trusted: Lean kernel (propext, Quot.sound, Classical.choice); extractor lexer + reviewed parsed/unparsed list; hand-written git kernel tables (Affects/Neutralises/ParserHandles/classify/gitQuote) — validated on git 2.39.5, not proved; harness/e2e generators and canonicalisation. The pinning theorem is about argv skeletons; concrete instances are checked on traced invocations. Knobs outside the listed set (except log.showRoot, core.abbrev, diff.context, log.*, exercised e2e only) are not covered. 8 defects fixed in /repo (see known_findings.json fixed).",
   ref="DESIGN.md §8 C12"),
 "C05": dict(
   technique="Lean 4 theorems over hand-written models of the notes-tree path logic (any fan-out layout), the range builders and the WF predicate + in-process model-vs-code correspondence (pure helpers and the real writer/lookup on a scratch git repository) + end-to-end WF oracle on histories built with the real binary",
   text="Machine-checked proof that, from any notes tree with one entry per object at any (mixed) fan-out depth, every sequence of notes_add (git free to re-layout) and notes_add_batch keeps exactly one entry per annotated object, implements last-write-wins and is found by note_blob_oids_for_commits; that ranges built by compress_lines / the post-commit committed bucket from any per-line author function are sorted, pairwise disjoint, within 1..n and human-free; that the rebase range merger yields sorted disjoint ranges and upsert never keeps an absent file; and that a WF note in C17's Serializable domain serialises into the grammar and parses back WF. Models are tied to the Rust code by differential testing on every run; the repository-wide invariant (every note after every operation is WF against its commit) is checked by an independent Python oracle after every operation of commit/amend/rebase/cherry-pick/squash/reset/delete-rename scenarios with delimiter-like file names, seeded depth 0/1/2 trees and git's own re-fan-out, and the Lean WF predicate is cross-checked against that oracle on every real note.",
   note="Partial: the Sys-level invariant wf_all_notes is not proved (mechanism lemmas + end-to-end oracle only). git's notes code and fast-import are a validated kernel model. Trusted: Lean kernel, harness generators/canonicalisation, vlib/wf.py + e2e.parse_note, serde. Not exercised: CI rewrite, stash notes. Fixed in /repo: 4e028f1d (fan-out depth ≥ 2), 4fd233ae and efdc0647 (slow-path notes listed lines of files untouched by the commit). Known finding: newline in file name.",
   ref="DESIGN.md §8 C05"),
 "C15": dict(
   technique="Lean 4 theorems over a hand-written model of the note-remap shortcut (remap scanner and fallback, raw diff-tree scanner, both fast-path preconditions, note equivalence) + in-process model-vs-code correspondence (pure, and on a scratch repository through an output seam) + end-to-end twin runs of generated rebase / cherry-pick histories with the shortcut on and off (GIT_AI_VERIF_NO_FAST_PATH)",
   text="Machine-checked proof that (a) on every serializer-produced note the remap is exactly a base update, whatever the paths, prompt texts or old base contain; (b) the shortcut is declined whenever any pair differs on any tracked path, an original lacks a note, nothing is tracked, or (rebase) counts differ, and the raw-output scanner accepts iff no record appears for any pair; (c) the shortcut's note is ≈ the replayed note relative to an abstract replay that is replay-canonical and content-determined. The unconditional statement is refuted by a decided witness (real replay writes cumulative notes); blame-equivalence of the two notes is proved over a ghost reference model. The model is tied to the Rust code and to both binaries' notes by differential testing on every run.",
   note="Trusted: Lean kernel; harness and scenario generators and the independent ≈; serde_json (shape, escaping asserted per case); git diff-tree output reference-modelled and compared byte-for-byte. Replay is abstract in (c). Known findings: slow-path-cumulative-lines (O14); slow-path-misattributes-lines-rewritten-later. Fixed: c69ae45b. Not covered: pathspec-magic file names, conflicts during rebase, cherry-pick with skipped empty picks.",
   ref="DESIGN.md §8 C15"),
 "C11": dict(
   technique="Lean 4 theorems over a hand-written k-process step model (read/write steps on shared journals, rewrite logs and the notes ref; three locking disciplines): serialisability for every schedule by invariant induction, path-function injectivity, step commutation; tied to the binary by a sync-point controller that drives real git-ai processes through every interleaving and compares with the model, plus real-serial-execution and presence oracles and a stress run",
   text="Machine-checked proof that under the locking discipline the code implements, for any number of processes and every schedule of their read/write steps, every journal, rewrite log and the notes ref equals a serial execution in lock-acquisition order with every update applied exactly once; worktrees interfere only through the notes ref; the unlocked and append-only-locked variants provably lose or mis-credit updates. The model is re-tied to /repo on every run by exhaustive 2-process (thorough: sampled 3-process) interleaving of real processes at sync points.",
   note="Partial w.r.t. the runtime: step atomicity at sync-point granularity, flock semantics, git's ref handling and the 30 s lock timeout (fail-open) are assumed; interleavings inside one git command are only stress-tested. Checkpoint-vs-commit races in the same worktree are outside the property. Fixed in /repo: unlocked read-modify-write of checkpoints.jsonl / rewrite_log and unserialised notes writes (d1c0a883).",
   ref="DESIGN.md §8 C11"),
 "C18": dict(
   technique="Lean 4 theorems over hand-written executable models of parse_git_cli_args/to_invocation_vec/parse_alias_tokens/resolve_alias_impl with option tables extracted from the Rust source on every run, a reference model of git's grammar/split_cmdline/alias loop, in-process correspondence + independent oracles, and an end-to-end recording git stand-in",
   text="Machine-checked proof, for every argument vector, that the reconstruction is the identity when no meta option precedes the command; that git-ai's command split equals git's (or is 'no command') whenever git finds a command, so an option value is never the command; that the alias tokenizer simulates git's split_cmdline (exact relation), resolution terminates and returns None exactly for cycles/shell/unterminated quotes; and that, for clean alias tables, the expanded argv equals what git's own alias loop executes. Help/version normalisation proved equal to git's in-place conversion on a stated region, with decide-witnesses outside it.",
   note="Partial theorems: documented_normalisation (region tailOk), alias_agrees (AliasClean, no shadowing). git is a reference model (validated against git 2.39.5, not proved). 7 known findings (4 parser rewrite families pinned by existing tests, alias shadowing of git commands, trailing backslash, edge-whitespace empties). 3 defects fixed in /repo (9bf959c6, ec0f40f8, 6b220761).",
   ref="DESIGN.md §8 C18"),
 "C19": dict(
   technique="Lean 4 proof over an executable model of stats.rs (overlap via core's binary search, accepted, stats_from_authorship_log, numstat parse + unescape_git_path, stats_for_commit_stats glue); in-process correspondence and oracles on the real functions; end-to-end on every commit of generated histories: git-ai stats --json vs git numstat vs raw note vs model",
   text="Proof: all identities (human + accepted = added; ai_additions = accepted + mixed ≤ added; per-tool breakdown sums to the totals; numstat totals minus ignored files) proved for every note / added-line map / numstat listing under explicit no-overflow guards; accepted = |added ∩ listed| proved under C05's disjointness with a negation witness; root and merge commits covered; the model is tied to the code by in-process correspondence and by end-to-end comparison on every commit of generated histories.",
   note="The ignore matcher is a predicate parameter; git's numstat/diff and quote_c_style are kernel models checked against git 2.39; time_waiting_for_ai not modelled; the binary-search model is validated on sorted input only. Fixed in /repo: per-tool mixed/ai_additions uncapped (f619ec69).",
   ref="DESIGN.md §8 C19"),
 "C16": dict(
   technique="Lean 4 proof over an executable byte-level model of the tracker core (transform, merge, catalog, fill, line projection, line↔char conversion) with the diff and move detector as contract-checked parameters; in-process differential correspondence against the real code through verif-hooks; property oracles on the real outputs",
   text="Proof of no_panic, in_bounds, on_boundaries, unchanged_keeps_author (multiset before merge, set after), new_text_is_reporters, line_char_roundtrip and identity (exact normal-form characterisation) for all inputs under the stated segment/move contracts; identity_keeps_lines and whitespace_reformat_keeps_lines are partial, with negation witnesses. The model reproduces update_attributions exactly on the real segments and moves of every generated case (text pairs: empty, one line, no final newline, CRLF, multibyte/combining, long lines, repeated lines, moved blocks; malformed prior attribution sets).",
   note="The diff (imara-diff, tokenizer, compute_diffs) and the move detector are not proved; their contracts are checked on every generated case and panics inside them are reachable only by the harness. Three identity findings are listed (zero-length priors, timestamp ties, overrode order). The line-level whitespace statement and the overlapping round trip are oracle-checked only. Fixed in /repo: moved attributions mapped by raw byte offset (8fec1a64), usize underflow on inverted prior range (71ab5134).",
   ref="DESIGN.md §8 C16"),
 "C09": dict(
   technique="Lean 4 proof over executable models of the blame porcelain parser, git path un-quoting, note lookup, overlay, hunk splitting and output formats; in-process correspondence of the real parser/un-quoter with the model on generated adversarial porcelain; end-to-end differential check of git-ai blame (default, --show-prompt, --json, --porcelain, --line-porcelain, --incremental, library API with -w/revision/ignore-rev/-L) against an independent Python recomputation from plain git blame --line-porcelain + raw notes and against the Lean overlay",
   text="Proof (Lean, all sizes) that the parser inverts git's line-porcelain grammar for arbitrary field contents and paths, that the overlay labels a line AI by S exactly when the originating commit's note credits the original line under the original path (rename-invariant), and that all formats carry the same line→commit/author content; tied to the code by in-process correspondence with zero disagreements and by an end-to-end recomputation on generated histories (renames, copies, merges, several sessions, crafted notes).",
   note="git blame itself is the reference (its grammar is re-validated on every e2e query). JSON/--show-prompt AI-ness holds under hclash (known finding json:human-name-equals-prompt-hash). Mail/time/committer values and sha abbreviation not modelled. Foreign prompt lookup is an environment parameter. Empty files are refused by git-ai blame by design (observation). Fixed in /repo: rename lost attribution (251f3aa3).",
   ref="DESIGN.md §8 C09"),
 "C14": dict(
   technique="Lean 4 theorems over the history-level Sys model (idempotent checkpoint; final note is a function of the edits alone) + end-to-end metamorphic check on the built binary",
   text="Machine-checked proof over Model/Sys.lean that repeating a checkpoint with no intervening change leaves the state unchanged, and that two histories with the same edits in the same order — differing only in where and how often human checkpoints are taken — end in the same note (granularity_checkpoints, via commit_exact). The model is tied to the binary by C01's end-to-end correspondence (predicted vs written notes). The four redundancy kinds of the property (extra human checkpoints, repeated checkpoints, one agent edit split into consecutive checkpoints of the same session, read-only git commands) are checked end to end: each generated base history is replayed with 1-4 inserted redundancies and the canonical notes per commit and blame must be identical.",
   note="Split-agent-edit and read-only-command invariance are validated end to end, not proved. Sys idealises lines as content ids with faithful diffs (C16 covers the tracker); single file per model run. Trusted: Lean kernel, sysrun/c14 refinement generator, real git.",
   ref="DESIGN.md §8 C14"),
 "C08": dict(
   technique="Lean 4 theorems over a hand-written model of prompt-storage mode resolution, the storage-mode filter, entropy-token masking and a note-writer state machine; extractor-regenerated table of note writers, filter shape and constants; in-process model-vs-code correspondence; end-to-end blob-walk oracles on every note-writing path",
   text="Machine-checked proof that (1) under any effective mode other than `notes`, no note written by any note-writing function of the current source contains a message — an invariant over all histories whose side condition (every writer that reads the working log filters before serialising) is re-decided on the table extracted at each run; (2) redact_secrets_in_text never slices out of range or off a char boundary and its output contains no 15–90 character secret-character run the classifier flags (output runs characterised exactly); (3) in notes mode every user/assistant/thinking/plan text in every note is that redaction; exclusion overrides inclusion and `notes` requires an explicit setting. Tied to the Rust code by differential testing of effective_prompt_storage, extract_tokens, redact_secret, redact_secrets_in_text, redact_secrets_from_prompts, and by running 13 note-writing paths on the real binary in the storage modes with a scan of every blob reachable from refs/notes/ai.",
   note="Trusted: Lean kernel (propext, Quot.sound); the extractor (call-site inventory, working-log taint by unique function name); harness and e2e generators; glob matching and the floating-point classifier is_random are opaque model inputs. Out of scope: mode changes mid-history, notes imported by sync, refs/notes/ai-stash (local only), the CAS upload. Known finding: tool_use inputs are not redacted in notes mode. Fixed in /repo: amend wrote unfiltered transcripts (399031a5).",
   ref="DESIGN.md §8 C08"),
 "C01": dict(
   technique="Lean 4 theorem (diff-parser exactness for all contents) over a hand-written model + in-process correspondence + end-to-end ghost-provenance oracle on the built binary",
   text="Machine-checked proof that the commit-time `git diff -U0` parser returns exactly the lines a commit adds for every rendered diff (any content, including lines that look like diff headers; hunk-header parsing for all headings/counts), tied to the Rust parser by differential testing; the pipeline as a whole (checkpoints → working log → split → note → blame) is checked end to end against a ghost-provenance oracle on generated histories (files with unusual names, CRLF, no final newline, diff-syntax-like lines; 1-3 sessions + human; insert/delete/replace/intra-line/re-indent; rewrite-all-AI-lines) run on the binary built from /repo.",
   note="Proof covers the diff-parsing mechanism (Model/DiffParse) and, via C04/C16/C17, split, tracker and note format; the composition over whole histories is validated end to end, not proved (Sys-level theorem not built). Trusted: Lean kernel; harness and sysrun generators; real git as reference for added lines; agents follow the documented protocol (pre-edit human checkpoint naming the file, post-edit AI checkpoint). Known finding: whitespace-only re-touch of a line committed earlier as AI.",
   ref="DESIGN.md §8 C01"),
 "C04": dict(
   technique="Lean 4 theorems (split partition, coordinate translation, output well-formedness) over a hand-written model of the commit-time split + end-to-end model-vs-binary correspondence + ghost-provenance oracle",
   text="Machine-checked proofs over the Split3 model: every attributed working-tree line lands in exactly one of note / pending / dropped; the translated commit coordinate is the true line number whenever the unstaged hunks are pure insertions (with a proved negation witness for unstaged deletions); note and pending lists are strictly increasing, never human, inside the committed resp. unstaged hunks. The model is tied to the binary end to end: from the observed working log and the hunks real git reports it predicts the note lines and the new INITIAL of every partial commit. Generated histories split AI/human changes across successive commits by file and by hunk and are checked against the ghost oracle.",
   note="Trusted: Lean kernel; sysrun ghost tracking; real git for hunks. Carried-once over whole histories is validated end to end, not proved. Known findings: unstaged non-insertion change above an AI line (coordinate bug), pending lines edited by a person before the next checkpoint (INITIAL is line-number only), whitespace-only re-touch of committed AI lines.",
   ref="DESIGN.md §8 C04"),
 "C17": dict(
   technique="Lean 4 theorems (round trip, grammar, parse totality) over a hand-written model of the note format + in-process model-vs-code correspondence",
   text="Machine-checked proof over the NoteFormat model that deserialize(serialize log) returns the same files/hashes/range multisets/metadata text for every log without a newline in a path, that the output is in the standard's grammar, that the parser is total and rejects divider-less text; the model is tied to the Rust code by differential testing of serialize/deserialize/format/parse on generated and corpus inputs on every run.",
   note="Trusted: Lean kernel (propext, Quot.sound, Classical.choice); harness generators/canonicalisation; serde_json (metadata block is opaque text with asserted pretty-printer facts); u32 as Nat with <2^32 guards. Hash strings with spaces/newlines are outside the domain. Known finding: newline in path.",
   ref="DESIGN.md §8 C17"),
}

checks = []
for i in ids:
    if i in CLAIMS:
        c = CLAIMS[i]
        checks.append({
            "property_id": i,
            "quick_cmd": f"./check {i} quick",
            "thorough_cmd": f"./check {i} thorough",
            "evidence_file": f"/verif/evidence/{i}.json",
            "replay_cmd_template": f"./check {i} --replay {{path}}",
            "engine": "lean-proof+correspondence",
            "level_claimed": {"category": "proof", "text": c["text"], "design_ref": c["ref"]},
            "level_note": c["note"],
            "technique": c["technique"],
        })
na = [{"property_id": i, "reason": "model and check not built yet in this session (planned; see DESIGN.md §13 build order)"} for i in ids if i not in CLAIMS]
hooks_commits = subprocess.run(["git", "-C", "/repo", "log", "--format=%h %s", "--grep=^verif-hooks"], capture_output=True, text=True).stdout.strip().split("\n")
m = {
 "version": 1,
 "setup_cmd": "./setup.sh",
 "hooks": {
   "guard": "cargo feature verif-hooks",
   "enable": "cargo build --features test-support,verif-hooks (harness crate depends on /repo with that feature; binary built into /verif/build/repo-target)",
   "baseline_off_cmd": "python3 /verif/scripts/baseline_check.py /repo",
   "source_commits": [c for c in hooks_commits if c],
   "add_only": True,
 },
 "engines": [
   {"name": "lean-proof+correspondence", "path": "/verif/lean, /verif/harness, /verif/vlib", "serves_properties": sorted(CLAIMS),
    "kind_free_text": "Lean 4 theorems over hand-written executable models; Rust in-process harness + Lean driver line protocol for model-vs-code correspondence; oracles on the implementation for failing-input search"},
 ],
 "checks": checks,
 "not_applicable": na,
 "notes": "See DESIGN.md. known_findings.json lists recorded findings and fixed defects.",
}
json.dump(m, open(os.path.join(V, "MANIFEST.json"), "w"), indent=1)
print("claimed:", sorted(CLAIMS), "not_applicable:", len(na))
