#!/usr/bin/env python3
"""One-off history clean-up of /repo's session-3 commits (run when no agent is committing):
  * fix commits must touch only what the defect requires: the regression tests two of them added under tests/ are dropped;
  * the follow-up df0a718d is folded into the two fixes it follows up (by file).
Usage: rewrite_repo_history.py <repo> [--apply]   (without --apply it works on branch `verif-rewrite` only and prints the id map)
The final tree must equal the old tree except for tests/."""
import subprocess, sys, json
repo = sys.argv[1]
BASE = "e08798b3"
DROP_TESTS = {"c5877be3", "233dca60"}
FOLLOWUP = "df0a718d"
FOLD = {"0b914ae9": ["src/git/repo_storage.rs"], "5a89ac1a": ["src/commands/checkpoint.rs"]}

def git(*a, check=True, inp=None):
    p = subprocess.run(["git", "-C", repo] + list(a), capture_output=True, text=True, input=inp)
    if check and p.returncode != 0:
        raise SystemExit(f"git {' '.join(a)} failed:\n{p.stdout}\n{p.stderr}")
    return p.stdout

old_head = git("rev-parse", "main").strip()
commits = git("rev-list", "--reverse", f"{BASE}..main").split()
short = {c: c[:8] for c in commits}
git("checkout", "-q", "-B", "verif-rewrite", BASE)
idmap = {}
for c in commits:
    s = short[c]
    if s == FOLLOWUP:
        continue
    if s in DROP_TESTS:
        patch = git("show", "--format=", "--binary", c, "--", ".", ":(exclude)tests")
        git("apply", "--index", "-", inp=patch)
    else:
        git("cherry-pick", "-n", c)
    if s in FOLD:
        patch = git("show", "--format=", FOLLOWUP, "--", *FOLD[s])
        git("apply", "--index", "-", inp=patch)
    env_author = git("show", "-s", "--format=%an%n%ae%n%aD", c).split("\n")
    msg = git("show", "-s", "--format=%B", c)
    if s in FOLD:
        msg = msg.rstrip("\n") + "\n"
    p = subprocess.run(["git", "-C", repo, "commit", "-q", "--allow-empty", "-F", "-", "--author", f"{env_author[0]} <{env_author[1]}>", "--date", env_author[2]],
                       input=msg, text=True, capture_output=True)
    if p.returncode != 0:
        raise SystemExit("commit failed: " + p.stderr)
    idmap[s] = git("rev-parse", "HEAD").strip()[:8]
diff = git("diff", "--stat", old_head, "HEAD")
print("tree difference old main -> rewritten:\n" + diff)
names = [l.split("|")[0].strip() for l in diff.strip().split("\n")[:-1]]
if any(not n.startswith("tests/") for n in names):
    raise SystemExit("unexpected difference outside tests/: " + str(names))
print(json.dumps(idmap, indent=1))
json.dump(idmap, open("/verif/build/repo-idmap.json", "w"), indent=1)
if "--apply" in sys.argv:
    git("branch", "-f", "verif-main-before-rewrite", old_head)
    git("checkout", "-q", "-B", "main", "verif-rewrite")
    git("branch", "-D", "verif-rewrite")
    print("main now at", git("rev-parse", "main").strip())
else:
    git("checkout", "-q", "main")
