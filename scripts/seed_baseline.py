#!/usr/bin/env python3
"""Run the pinned test-suite on /repo's HEAD + a kept seeded patch (scratch worktree, shared
target dir /tmp/vf-baseline-target) and record the outcome in seeded/<name>/meta.json.
  seed_baseline.py <name> [...]"""
import json, os, subprocess, sys
V = os.path.dirname(os.path.dirname(os.path.abspath(__file__)))
for name in sys.argv[1:]:
    d = os.path.join(V, "seeded", name)
    meta = json.load(open(os.path.join(d, "meta.json")))
    W = "/tmp/vf-seedbase-wt"
    subprocess.run(["git", "-C", "/repo", "worktree", "remove", "--force", W], capture_output=True)
    subprocess.run(["rm", "-rf", W])
    subprocess.run(["git", "-C", "/repo", "worktree", "add", "--detach", W, "HEAD"], capture_output=True)
    p = subprocess.run(["git", "apply", os.path.join(d, "patch.diff")], cwd=W, capture_output=True, text=True)
    if p.returncode != 0:
        meta["steps"]["baseline_rc"] = "patch-does-not-apply"; meta["steps"]["baseline_tail"] = p.stderr[-400:]
    else:
        env = dict(os.environ, CARGO_TARGET_DIR="/tmp/vf-baseline-target", CARGO_NET_OFFLINE="true")
        p = subprocess.run(["python3", os.path.join(V, "scripts", "baseline_check.py"), W], env=env, capture_output=True, text=True)
        meta["steps"]["baseline_rc"] = p.returncode
        meta["steps"]["baseline_tail"] = p.stdout[-1500:]
        meta["steps"]["baseline_at_repo_head"] = subprocess.run(["git", "-C", "/repo", "rev-parse", "HEAD"], capture_output=True, text=True).stdout.strip()
    json.dump(meta, open(os.path.join(d, "meta.json"), "w"), indent=1, ensure_ascii=False)
    print(name, meta["steps"]["baseline_rc"], flush=True)
    subprocess.run(["git", "-C", "/repo", "worktree", "remove", "--force", W], capture_output=True)
    subprocess.run(["rm", "-rf", W])
