#!/usr/bin/env python3
"""Confirm an independently written regression and run the checks against it.

  seed_eval.py <property> <name> <srcdir> [--baseline] [--checks C01,C03] [--tier quick]

srcdir holds patch.diff, a demo (demo.sh / demo.py) and README.md as written by the seeding agent.
Steps (all in a scratch worktree of /repo's HEAD, never in /repo):
  1. build the clean tree, run the demo → must exit 0
  2. apply the patch, rebuild → must compile; run the demo → must exit non-zero
  3. run ./check <property> (and any extra checks) with VERIF_REPO=<worktree> → record result
  4. optionally run the pinned test-suite on the patched tree (must still pass)
  5. copy the artefacts to /verif/seeded/<name>/ with meta.json; remove the worktree and alt builds
"""
import hashlib, json, os, shutil, subprocess, sys, time

V = os.path.dirname(os.path.dirname(os.path.abspath(__file__)))


def sh(cmd, cwd=None, env=None, timeout=7200):
    e = dict(os.environ); e["CARGO_NET_OFFLINE"] = "true"
    if env:
        e.update(env)
    p = subprocess.run(cmd, cwd=cwd, env=e, capture_output=True, text=True, timeout=timeout)
    return p.returncode, p.stdout, p.stderr


def main():
    args = sys.argv[1:]
    prop, name, src = args[0], args[1], os.path.abspath(args[2])
    baseline = "--baseline" in args
    tier = args[args.index("--tier") + 1] if "--tier" in args else "quick"
    checks = args[args.index("--checks") + 1].split(",") if "--checks" in args else [prop]
    W = f"/tmp/vf-seedeval-{name}"
    H = hashlib.sha1(W.encode()).hexdigest()[:10]
    alt_bin = os.path.join(V, "build", f"repo-target-alt-{H}", "debug", "git-ai")
    meta = {"property": prop, "name": name, "evaluated_at_repo_head": None, "steps": {}, "checks": {}}
    sh(["git", "-C", "/repo", "worktree", "remove", "--force", W])
    shutil.rmtree(W, ignore_errors=True)
    rc, out, err = sh(["git", "-C", "/repo", "worktree", "add", "--detach", W, "HEAD"])
    if rc != 0:
        print("worktree failed", err); return 2
    meta["evaluated_at_repo_head"] = sh(["git", "-C", W, "rev-parse", "HEAD"])[1].strip()
    env = {"VERIF_REPO": W}
    demo = next((os.path.join(src, d) for d in ("demo.sh", "demo.py") if os.path.exists(os.path.join(src, d))), None)
    demo_cmd = (["bash", demo] if demo and demo.endswith(".sh") else ["python3", demo]) if demo else None
    try:
        # 1. clean build + demo
        rc, out, err = sh(["python3", "-c", "from vlib import common as C; ok,o=C.build_git_ai(); print(ok); print(o[-1500:] if not ok else '')"], cwd=V, env=env)
        meta["steps"]["clean_build"] = out.strip().split("\n")[0]
        if demo_cmd:
            rc, out, err = sh(demo_cmd, cwd=src, env={"GIT_AI_BIN": alt_bin, "GIT_AI_BINARY": alt_bin}, timeout=900)
            meta["steps"]["demo_clean_rc"] = rc
            meta["steps"]["demo_clean_tail"] = (out + err)[-600:]
        # 2. patch + rebuild + demo
        rc, out, err = sh(["git", "apply", os.path.join(src, "patch.diff")], cwd=W)
        meta["steps"]["patch_applies"] = (rc == 0)
        if rc != 0:
            meta["steps"]["patch_error"] = err[-500:]
            raise SystemExit
        rc, out, err = sh(["python3", "-c", "from vlib import common as C; ok,o=C.build_git_ai(); print(ok); print(o[-1500:] if not ok else '')"], cwd=V, env=env)
        meta["steps"]["patched_build"] = out.strip().split("\n")[0]
        if demo_cmd:
            rc, out, err = sh(demo_cmd, cwd=src, env={"GIT_AI_BIN": alt_bin, "GIT_AI_BINARY": alt_bin}, timeout=900)
            meta["steps"]["demo_patched_rc"] = rc
            meta["steps"]["demo_patched_tail"] = (out + err)[-600:]
        # 3. the checks
        for c in checks:
            t0 = time.time()
            ev = os.path.join(V, "evidence", f"{c}.json")
            saved = open(ev).read() if os.path.exists(ev) else None
            rc, out, err = sh([os.path.join(V, "check"), c, tier], cwd=V, env=env, timeout=14400)
            if saved is not None:
                open(ev, "w").write(saved)      # evidence must describe /repo, not the mutant
            viol = [l for l in out.split("\n") if l.startswith("VIOLATION")]
            info = {"exit": rc, "violation_line": viol[0] if viol else None, "wall_s": round(time.time() - t0, 1),
                    "summary": [l for l in out.split("\n") if l.startswith("[" + c)][-1:] }
            if viol:
                rp = viol[0].split("replay=")[1].split()[0]
                try:
                    r = json.load(open(rp))
                    info["replay_kind"] = r.get("kind"); info["replay_sig"] = r.get("sig") or r.get("no_longer_checks")
                    shutil.copyfile(rp, os.path.join(V, "build", f"seed-{name}-{c}-replay.json"))
                except Exception:
                    pass
            meta["checks"][c] = info
        # 4. pinned suite on the patched tree
        if baseline:
            rc, out, err = sh(["python3", os.path.join(V, "scripts", "baseline_check.py"), W], env={"CARGO_TARGET_DIR": "/tmp/vf-baseline-target"}, timeout=14400)
            meta["steps"]["baseline_rc"] = rc
            meta["steps"]["baseline_tail"] = out[-600:]
    except SystemExit:
        pass
    finally:
        # restore evidence written by the alt run: re-run is the caller's business; clean up builds
        sh(["git", "-C", "/repo", "worktree", "remove", "--force", W])
        shutil.rmtree(W, ignore_errors=True)
        for d in os.listdir(os.path.join(V, "build")):
            if d.endswith("-alt-" + H):
                shutil.rmtree(os.path.join(V, "build", d), ignore_errors=True)
    dst = os.path.join(V, "seeded", name)
    os.makedirs(dst, exist_ok=True)
    # keep what earlier evaluations established about the same patch (pinned-suite result, checks not re-run now)
    try:
        old = json.load(open(os.path.join(dst, "meta.json")))
        for k, v in old.get("steps", {}).items():
            if k.startswith("baseline") and k not in meta["steps"]:
                meta["steps"][k] = v
        for k, v in old.get("checks", {}).items():
            if k not in meta["checks"]:
                meta["checks"][k] = dict(v, evaluated_at_repo_head=old.get("evaluated_at_repo_head"))
    except Exception:
        pass
    for f in os.listdir(src):
        if f.endswith(".log") and os.path.getsize(os.path.join(src, f)) > 200000:
            continue
        if os.path.isfile(os.path.join(src, f)) and f != "meta.json" and os.path.abspath(src) != os.path.abspath(dst):
            shutil.copyfile(os.path.join(src, f), os.path.join(dst, f))
    json.dump(meta, open(os.path.join(dst, "meta.json"), "w"), indent=1, ensure_ascii=False)
    print(json.dumps(meta, indent=1, ensure_ascii=False)[:3000])
    return 0


sys.exit(main())
