import json,sys
pid=sys.argv[1]
wt=sys.argv[2] if len(sys.argv)>2 else f'{wt}'
for l in open('/verif/properties.jsonl'):
    p=json.loads(l)
    if p['id']==pid: break
prop=json.dumps({k:p[k] for k in ('title','statement','quantifier','why_tests_cant','anchors')},indent=1,ensure_ascii=False)
print(f"""You are helping to evaluate a verification effort by writing realistic *regressions*. Work ONLY inside the git worktree {wt} (a checkout of the Rust project git-ai: a git extension that records AI-vs-human line authorship in git notes and carries it through commits, rebases, cherry-picks, resets and stashes). Do NOT read, list or use anything under /verif or /root/.vp, and do not touch /repo. There is no network; use `cargo ... --offline` and set `CARGO_TARGET_DIR={wt}/target` for every cargo command (first build takes several minutes; the machine is busy, be patient). `git` 2.39 and `python3` are available. The debug binary can act as a git proxy: `GIT_AI=git ./target/debug/git-ai <git args>`; its own subcommands are `git-ai checkpoint …`, `git-ai blame …`, `git-ai stats …` (see src/commands/git_ai_handlers.rs; tests/repos/test_repo.rs shows how the test-suite isolates HOME / GIT_CONFIG_GLOBAL / GIT_AI_TEST_DB_PATH and passes GIT_AI_TEST_CONFIG_PATCH). Commit dates used in experiments must be after 2025-07-04 (the code passes that date to `git blame --since`).

Here is one semantic property of git-ai that should always hold:

{prop}

Task: produce TWO different, independent source changes to git-ai (each a small patch to files under src/) such that, with the change applied,
  (a) the project still compiles (`cargo build --offline --features test-support`),
  (b) the existing tests still pass — run at least `cargo test --offline --lib` restricted to the modules you touched and the integration test files under tests/ that exercise the code you changed, and compare with the same run WITHOUT your change (some tests fail in this sandbox regardless, e.g. every `*_in_worktree` variant; only NEW failures count), and
  (c) the property above is violated — but only in a situation that needs something specific to manifest: a particular multi-step sequence of operations, an unusual input, a particular interleaving or fault point, or two cooperating code sites that each look fine alone. Do NOT make changes that ordinary use or any basic test would expose at once (e.g. "never write notes"), and do not merely revert recent commits of the repository history.
The changes should look like plausible refactoring slips, off-by-ones, dropped guards, wrong-variable or wrong-order mistakes — the kind a code review could miss. The two changes should break the property in different ways / code areas.

For each change n ∈ {{1,2}} write, under {wt}/_seed/n/:
  - `patch.diff`: `git diff` of the change against the worktree's HEAD (must apply with `git apply` to a clean checkout of the same commit);
  - a demonstration `demo.sh` or `demo.py` (self-contained, uses only the built binary and/or a small `cargo test`-style Rust test file you add as `demo_test.rs` with instructions) that exits non-zero / fails WITH the change and exits zero / passes WITHOUT it; it must take the path of the git-ai binary from the environment variable GIT_AI_BIN (default: {wt}/target/debug/git-ai), create its scratch repositories under a fresh `mktemp -d` and clean up;
  - `README.md`: which clause of the property breaks, what exactly is needed for the violation to manifest, the commands you ran for (a), (b), (c) with their outcomes (with and without the change).
Verify both directions yourself (demo passes on the clean tree, fails with the patch). Leave the worktree's tracked files clean at the end (`git checkout -- .`; untracked `_seed/` and `target/` stay). Finish with a short summary of the two changes.""")
