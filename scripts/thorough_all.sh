#!/bin/bash
# thorough tier of every check, one after another (used with `vp run --with-repo`; results are informative only)
[ -n "$VP_RUN_REPO" ] && export VERIF_REPO=$VP_RUN_REPO
mkdir -p build evidence replays
for p in ${@:-C17 C18 C19 C16 C15 C09 C12 C20 C08 C10 C05 C14 C01 C04 C03 C02 C11 C13 C06 C07}; do
  t0=$(date +%s)
  out=$(./check $p thorough 2>&1)
  echo "== $p $(( $(date +%s)-t0 ))s $(echo "$out" | grep -v '^KNOWN-FINDING' | tail -1)"
  echo "$out" | grep '^VIOLATION'
  echo "$out" | grep -c '^KNOWN-FINDING' | sed 's/^/   known-finding lines: /'
done
echo ALL-DONE
