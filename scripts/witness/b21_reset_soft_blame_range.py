"""B21 witness (fixed by /repo df029dce): reset --soft HEAD~1 built the target commit's attribution from `git blame A..A` (= the working tree).
Run from /verif: python3 scripts/witness/b21_reset_soft_blame_range.py  (BIN=<git-ai binary> to test another build)."""
import sys, json, os
sys.path.insert(0, "/verif")
from vlib import e2e, common as C
BIN = os.environ.get("BIN")
def run():
    with e2e.Env(binary=BIN) as env:
        r = env.repo("r")
        base = ["h1 }", "h2 }", "h3 beta();"]
        r.write("f.txt", "\n".join(base) + "\n")
        r.git("add", "-A"); r.git("commit", "-q", "-m", "base")
        r.human_checkpoint(["f.txt"])
        l = ["h1 }", "h2 }", "ai15", "ai16", "ai17 }", "h3 beta();"]
        r.write("f.txt", "\n".join(l) + "\n")
        r.ai_checkpoint("s2", ["f.txt"])
        r.git("add", "-A"); r.git("commit", "-q", "-m", "c3")
        print("c3 note", r.note_text(r.head()))
        l[-1] = "    h3 beta();"
        r.write("f.txt", "\n".join(l) + "\n")
        r.human_checkpoint(["f.txt"])
        r.human_checkpoint(["f.txt"])
        l = ["h1 }", "ai21", "ai22", "ai23 }"] + l[1:]
        r.write("f.txt", "\n".join(l) + "\n")
        r.ai_checkpoint("s2", ["f.txt"])
        r.git("add", "-A"); r.git("commit", "-q", "-m", "c4")
        print("c4 note", r.note_text(r.head()))
        r.git("reset", "--soft", "HEAD~1")
        print("INITIAL", json.dumps(r.initial()))
        r.git("add", "-A"); r.git("commit", "-q", "-m", "c5")
        print("c5 note", r.note_text(r.head()))
run()
