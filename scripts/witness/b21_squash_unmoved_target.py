"""B21 witness (fixed by /repo df029dce): merge --squash onto an unmoved target credited a person's re-indented line to a session.
Run from /verif: python3 scripts/witness/b21_squash_unmoved_target.py  (BIN=<git-ai binary> to test another build)."""
import sys, json, os
sys.path.insert(0, "/verif")
from vlib import e2e
with e2e.Env(binary=os.environ.get("BIN")) as env:
    r = env.repo("r"); P = "f.txt"
    w = lambda ls: r.write(P, "".join(x + "\n" for x in ls))
    w(["h1 }", "h2 }", "h3 }", "h4 }", "h5 beta();", "h6 }"]); r.git("add", "-A"); r.git("commit", "-q", "-m", "base")
    r.human_checkpoint([P]); w(["h1 }", "ai1 x", "h2 }", "h3 }", "h4 }", "h5 beta();", "h6 }"]); r.ai_checkpoint("s2", [P])
    r.git("add", "-A"); r.git("commit", "-q", "-m", "A")
    print("A", r.note_text(r.head()).split("---")[0])
    r.git("switch", "-q", "-c", "feature")
    w(["n1", "n2", "n3", "h1 }", "ai1 x", "h2 }", "h3 }", "    h4 }", "    h5 beta();", "h6 }"])
    r.human_checkpoint([P]); r.git("add", "-A"); r.git("commit", "-q", "-m", "F")
    r.git("switch", "-q", "main")
    print(r.git("merge", "--squash", "feature")[0])
    print("INITIAL", json.dumps((r.initial() or {}).get("files")))
    r.git("commit", "-q", "-m", "squashed")
    print("S", repr(r.note_text(r.head())[:200]))
    print(json.dumps(r.blame(P)["lines"]))
