"""B21 witness (NOT fixed; candidate finding token-diff-pairs-deleted-ai-line-with-reindented-human-line-below): a person deletes an AI line and
re-indents the person's line below it between two checkpoints; the token diff pairs the deleted line's leading token with the line below.
Run from /verif: python3 scripts/witness/b21_token_pairing_invention.py"""
import sys, json, os
sys.path.insert(0, "/verif")
from vlib import e2e
BIN = os.environ.get("BIN")
def run(name, base, ai1, person, ai2):
    with e2e.Env(binary=BIN) as env:
        r = env.repo("r"); P = "f.txt"
        w = lambda ls: r.write(P, "".join(x + "\n" for x in ls))
        w(base); r.git("add", "-A"); r.git("commit", "-q", "-m", "base")
        r.human_checkpoint([P]); w(ai1); r.ai_checkpoint("s3", [P])
        w(person)
        r.human_checkpoint([P]); w(ai2); r.ai_checkpoint("s3", [P])
        r.git("add", "-A"); r.git("commit", "-q", "-m", "c")
        print(name, repr(r.note_text(r.head()).split("---")[0]))
run("min", ["line 1 alpha", "line 18 fn f() {"], ["line 1 alpha", "line 24 beta", "line 18 fn f() {"],
    ["line 1 alpha", "    line 18 fn f() {"], ["line 1 alpha", "    line 18 fn f() {", "line 25 alpha"])
run("noreindent", ["line 1 alpha", "line 18 fn f() {"], ["line 1 alpha", "line 24 beta", "line 18 fn f() {"],
    ["line 1 alpha", "line 18 fn f() {"], ["line 1 alpha", "line 18 fn f() {", "line 25 alpha"])
run("notoken", ["line 1 alpha", "line 18 fn f() {"], ["line 1 alpha", "zeta 24 beta", "line 18 fn f() {"],
    ["line 1 alpha", "    line 18 fn f() {"], ["line 1 alpha", "    line 18 fn f() {", "line 25 alpha"])
