#!/bin/sh
# Build the framework from files on disk only (offline): Lean library + driver, harness crate,
# git-ai debug binary with verif hooks. Everything lands under /verif/build and /verif/lean/.lake.
cd "$(dirname "$0")"
export CARGO_NET_OFFLINE=true
mkdir -p build evidence replays
# 1. tables extracted from /repo's current sources (the committed copies may be stale)
python3 scripts/extract_all.py
# 2. Lean: the driver is essential; property modules are built one by one so that a module that no
#    longer checks against the current tables does not block the others (its own check reports it)
(cd lean && lake build driver) || exit 1
for f in lean/GitAiModel/Props/C*.lean; do
  m=$(basename "$f" .lean)
  (cd lean && lake build "GitAiModel.Props.$m") >/dev/null 2>&1 || echo "setup: GitAiModel.Props.$m does not build (reported by ./check $m)"
done
# 3. Rust: harness (path dependency on /repo) and the git-ai binary with hooks
cp /repo/Cargo.lock harness/Cargo.lock
(cd harness && cargo build --offline) || exit 1
(cd /repo && cargo build --offline --features test-support,verif-hooks --bin git-ai --target-dir /verif/build/repo-target) || exit 1
echo setup-done
