#!/bin/sh
# Build the framework from files on disk only (offline): Lean library + driver, harness crate,
# git-ai debug binary with verif hooks. Everything lands under /verif/build and /verif/lean/.lake.
set -e
cd "$(dirname "$0")"
export CARGO_NET_OFFLINE=true
mkdir -p build evidence replays
(cd lean && lake build)
cp /repo/Cargo.lock harness/Cargo.lock
(cd harness && cargo build --offline)
(cd /repo && cargo build --offline --features test-support,verif-hooks --bin git-ai --target-dir /verif/build/repo-target)
echo setup-done
