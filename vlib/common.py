"""Shared machinery for ./check: builds, Lean audit, driver, correspondence, findings, evidence."""
import hashlib, fcntl, json, os, re, subprocess, sys, time, hashlib, shutil, tempfile

VERIF = os.path.dirname(os.path.dirname(os.path.abspath(__file__)))
REPO = os.environ.get("VERIF_REPO", "/repo")
BUILD = os.path.join(VERIF, "build")
LEAN = os.path.join(VERIF, "lean")
HARNESS = os.path.join(VERIF, "harness")
# VERIF_REPO=<dir> points every check at another checkout of git-ai (used for mutation testing in
# a private copy so that concurrent work on /repo is not disturbed); build outputs are kept apart.
_ALT = "" if REPO == "/repo" else "-alt-" + hashlib.sha1(REPO.encode()).hexdigest()[:10]
HARNESS_TARGET = os.path.join(BUILD, "harness-target" + _ALT)
HARNESS_BIN = os.path.join(HARNESS_TARGET, "debug", "verif-harness")
REPO_TARGET = os.path.join(BUILD, "repo-target" + _ALT)
GIT_AI_BIN = os.path.join(REPO_TARGET, "debug", "git-ai")
DRIVER_BIN = os.path.join(LEAN, ".lake", "build", "bin", "driver")
ALLOWED_AXIOMS = {"propext", "Classical.choice", "Quot.sound"}
FORBIDDEN = re.compile(r"\bsorry\b|\badmit\b|^\s*axiom\s|native_decide|bv_decide|implemented_by|\bunsafe\s|maxHeartbeats\s+0\b")
CARGO_ENV = {"CARGO_NET_OFFLINE": "true"}


def log(*a):
    print(*a, flush=True)


class Lock:
    """Inter-process lock (flock) that is re-entrant within one process: nested `with Lock(name)`
    blocks of the same process do not dead-lock."""
    _held = {}          # name -> [file object, depth]
    _mutex = None

    def __init__(self, name):
        os.makedirs(BUILD, exist_ok=True)
        self.name = name
        self.path = os.path.join(BUILD, name + ".lock")

    def __enter__(self):
        import threading
        if Lock._mutex is None:
            Lock._mutex = threading.RLock()
        key = (self.name, threading.get_ident())
        with Lock._mutex:
            ent = Lock._held.get(key)
            if ent:
                ent[1] += 1
                return self
        f = open(self.path, "w")
        fcntl.flock(f, fcntl.LOCK_EX)
        with Lock._mutex:
            Lock._held[key] = [f, 1]
        return self

    def __exit__(self, *a):
        import threading
        key = (self.name, threading.get_ident())
        with Lock._mutex:
            ent = Lock._held.get(key)
            if not ent:
                return
            ent[1] -= 1
            if ent[1] > 0:
                return
            del Lock._held[key]
        fcntl.flock(ent[0], fcntl.LOCK_UN)
        ent[0].close()


def run(cmd, cwd=None, env=None, timeout=None, input=None):
    e = dict(os.environ)
    e.update(CARGO_ENV)
    if env:
        e.update(env)
    p = subprocess.run(cmd, cwd=cwd, env=e, capture_output=True, text=True, timeout=timeout, input=input)
    return p.returncode, p.stdout, p.stderr


# ---------------------------------------------------------------- builds

def write_if_changed(path, content):
    try:
        if open(path).read() == content:
            return False
    except FileNotFoundError:
        pass
    os.makedirs(os.path.dirname(path), exist_ok=True)
    with open(path, "w") as f:
        f.write(content)
    return True


def lake_build(targets):
    """Build Lean targets; returns (ok, output)."""
    with Lock("lake"):
        rc, out, err = run(["lake", "build"] + list(targets), cwd=LEAN, timeout=3600)
    return rc == 0, out + err


def build_harness():
    with Lock("cargo-harness" + _ALT):
        hdir = HARNESS
        if _ALT:
            # private copy of the harness crate whose path dependency points at VERIF_REPO
            hdir = os.path.join(BUILD, "harness-src" + _ALT)
            if os.path.isdir(hdir):
                shutil.rmtree(hdir)
            shutil.copytree(HARNESS, hdir, ignore=shutil.ignore_patterns("Cargo.lock", "target"))
            ct = open(os.path.join(hdir, "Cargo.toml")).read().replace('path = "/repo"', f'path = "{REPO}"')
            open(os.path.join(hdir, "Cargo.toml"), "w").write(ct)
            cc = open(os.path.join(hdir, ".cargo", "config.toml")).read().replace(os.path.join(BUILD, "harness-target"), HARNESS_TARGET)
            open(os.path.join(hdir, ".cargo", "config.toml"), "w").write(cc)
        shutil.copyfile(os.path.join(REPO, "Cargo.lock"), os.path.join(hdir, "Cargo.lock"))
        rc, out, err = run(["cargo", "build", "--offline", "--target-dir", HARNESS_TARGET], cwd=hdir, timeout=3600)
    return rc == 0, out + err


def build_git_ai():
    with Lock("cargo-repo" + _ALT):
        rc, out, err = run(["cargo", "build", "--offline", "--features", "test-support,verif-hooks",
                            "--bin", "git-ai", "--target-dir", REPO_TARGET], cwd=REPO, timeout=3600)
    return rc == 0, out + err


# ---------------------------------------------------------------- lean audit

def strip_lean_comments(src):
    out, i, depth, n = [], 0, 0, len(src)
    while i < n:
        if src.startswith("/-", i):
            depth += 1; i += 2; continue
        if depth and src.startswith("-/", i):
            depth -= 1; i += 2; continue
        if depth:
            if src[i] == "\n": out.append("\n")
            i += 1; continue
        if src.startswith("--", i):
            while i < n and src[i] != "\n": i += 1
            continue
        out.append(src[i]); i += 1
    return "".join(out)


def grep_forbidden():
    hits = []
    for root, _, files in os.walk(os.path.join(LEAN, "GitAiModel")):
        for fn in files:
            if fn.endswith(".lean"):
                p = os.path.join(root, fn)
                try:
                    text = open(p).read()
                except FileNotFoundError:      # a file renamed between the directory walk and the read
                    continue
                for k, line in enumerate(strip_lean_comments(text).split("\n"), 1):
                    if FORBIDDEN.search(line):
                        hits.append(f"{os.path.relpath(p, LEAN)}:{k}: {line.strip()}")
    return hits


def audit_theorems(prop_module_path, theorems):
    """Re-elaborate the property file and read `#print axioms` for each theorem.
    Returns (ok, per_theorem dict name->axioms list or error string, raw output)."""
    with Lock("lake"):
        rc, out, err = run(["lake", "env", "lean", prop_module_path], cwd=LEAN, timeout=3600)
    text = out + err
    res = {}
    ok = rc == 0
    for t in theorems:
        m = re.search(r"'" + re.escape(t) + r"' depends on axioms: \[([^\]]*)\]", text, re.S)
        if m:
            ax = [a.strip() for a in m.group(1).replace("\n", " ").split(",") if a.strip()]
            res[t] = ax
            if not set(ax) <= ALLOWED_AXIOMS:
                ok = False
        elif re.search(r"'" + re.escape(t) + r"' does not depend on any axioms", text):
            res[t] = []
        else:
            res[t] = "NOT-CHECKED"
            ok = False
    if re.search(r"\berror\b", text) and rc != 0:
        ok = False
    return ok, res, text


# ---------------------------------------------------------------- driver + correspondence

def run_driver(requests):
    """requests: list of JSON-able dicts; returns list of parsed responses."""
    inp = "".join(json.dumps(r, ensure_ascii=False, separators=(",", ":")) + "\n" for r in requests)
    p = None
    for attempt in range(3):
        # another check may be relinking the driver right now: wait for the lake lock, rebuild if missing
        with Lock("lake"):
            if not os.path.exists(DRIVER_BIN):
                run(["lake", "build", "driver"], cwd=LEAN, timeout=3600)
        try:
            p = subprocess.run([DRIVER_BIN], input=inp.encode("utf-8"), capture_output=True, timeout=3600)
            if p.returncode == 0:
                break
        except (FileNotFoundError, PermissionError, OSError):
            p = None
        time.sleep(2)
    if p is None:
        return [{"driver_error": "driver binary could not be executed"} for _ in requests]
    lines = p.stdout.decode("utf-8").split("\n")
    out = []
    for k in range(len(requests)):
        try:
            out.append(json.loads(lines[k]))
        except Exception as e:
            out.append({"driver_error": f"no/invalid response: {e}; rc={p.returncode}; stderr={p.stderr[-300:]!r}"})
    return out


def subset_eq(imp, model):
    """impl ⊆ model on objects (recursively); exact on arrays and scalars."""
    if isinstance(imp, dict) and isinstance(model, dict):
        return all(k in model and subset_eq(v, model[k]) for k, v in imp.items())
    if isinstance(imp, list) and isinstance(model, list):
        return len(imp) == len(model) and all(subset_eq(a, b) for a, b in zip(imp, model))
    return imp == model


def run_suite(suite, seed, count, corpus=None, extra_args=()):
    out = os.path.join(BUILD, f"cases-{suite}-{seed}-{os.getpid()}.jsonl")
    cmd = [HARNESS_BIN, suite, "--seed", str(seed), "--count", str(count), "--out", out]
    if corpus and os.path.exists(corpus):
        cmd += ["--corpus", corpus]
    cmd += list(extra_args)
    rc, so, se = run(cmd, timeout=7200)
    cases = []
    if os.path.exists(out):
        with open(out) as f:
            for line in f:
                try:
                    cases.append(json.loads(line))
                except Exception:
                    pass
        os.unlink(out)
    return rc, cases, se


def correspond(cases):
    """Send each case's req to the driver; return list of (case, model_response) that disagree."""
    idx = [k for k, c in enumerate(cases) if c.get("req")]
    resp = run_driver([cases[k]["req"] for k in idx])
    bad = []
    for k, r in zip(idx, resp):
        c = cases[k]
        mode = c["req"].get("_cmp", "subset")
        if "driver_error" in r:
            bad.append((c, r)); continue
        if mode == "model_ok":
            if "ok" not in r: bad.append((c, r))
        elif mode == "skip":
            pass
        elif not subset_eq(c["impl"], r):
            bad.append((c, r))
    return len(idx), bad


# ---------------------------------------------------------------- findings

def load_findings():
    p = os.path.join(VERIF, "known_findings.json")
    for attempt in range(6):
        try:
            return json.load(open(p))
        except FileNotFoundError:
            return {"findings": [], "fixed": []}
        except json.JSONDecodeError:
            time.sleep(0.5)          # somebody is rewriting the file right now
    return json.load(open(p))


def finding_for(prop, sig):
    for f in load_findings().get("findings", []):
        if f["property"] == prop and f["sig"] == sig:
            return f
    return None


# ---------------------------------------------------------------- result accumulation

class Result:
    """Collects what one check run covered and decides the exit status."""

    def __init__(self, prop, tier, seed, level="proof"):
        self.prop, self.tier, self.seed, self.level = prop, tier, seed, level
        self.t0 = time.time()
        self.obligations = []          # (name, discharged: bool, kind)
        self.evaluations = 0
        self.distinct = set()
        self.tags = {}
        self.samples = []
        self.known = {}                # sig -> count
        self.violations = []           # dicts
        self.broken = []               # broken ties (no failing input yet)
        self.assumptions = []
        self.trusted = []
        self.extra = {}
        self.checker_cmd = ""
        self.rule = ""

    def obligation(self, name, ok, kind="theorem"):
        self.obligations.append((name, bool(ok), kind))

    def tag(self, tags):
        for t in tags:
            self.tags[t] = self.tags.get(t, 0) + 1

    def count_case(self, key, nontrivial=True):
        self.evaluations += 1
        if nontrivial:
            self.distinct.add(hashlib.sha1(key.encode("utf-8", "replace")).hexdigest())

    def sample(self, s, cap=4):
        if len(self.samples) < cap:
            self.samples.append(s)

    def oracle_failure(self, sig, witness, what=""):
        """An implementation-level property failure. Known finding → recorded; else violation."""
        f = finding_for(self.prop, sig)
        if f:
            self.known[sig] = self.known.get(sig, 0) + 1
            return False
        self.violations.append({"sig": sig, "what": what, "witness": witness})
        return True

    def broken_tie(self, name, detail):
        self.broken.append({"obligation": name, "detail": detail})

    # ---- finish
    def finish(self):
        wall = time.time() - self.t0
        os.makedirs(os.path.join(VERIF, "evidence"), exist_ok=True)
        # replays of runs against a scratch copy of the repository (VERIF_REPO) are kept apart
        rdir = os.path.join(VERIF, "replays")
        if os.environ.get("VERIF_REPO"):
            rdir = os.path.join(rdir, "alt-" + hashlib.sha1(os.environ["VERIF_REPO"].encode()).hexdigest()[:10])
        os.makedirs(rdir, exist_ok=True)
        exit_code = 0
        lines = []
        for sig, n in sorted(self.known.items()):
            f = finding_for(self.prop, sig)
            lines.append(f"KNOWN-FINDING: property={self.prop} {f['what']} [sig={sig}, seen {n}x]")
        if self.violations:
            v = self.violations[0]
            path = os.path.join(rdir, f"{self.prop}-{self.seed}-{self.tier}.json")
            json.dump({"property": self.prop, "kind": "failing-input", "sig": v["sig"], "what": v["what"],
                       "witness": v["witness"], "other_violations": len(self.violations) - 1,
                       "violation_signatures": {sg: sum(1 for x in self.violations if x["sig"] == sg) for sg in sorted({x["sig"] for x in self.violations})},
                       "broken_ties": self.broken[:5]}, open(path, "w"), indent=1, ensure_ascii=False)
            lines.append(f"VIOLATION property={self.prop} replay={path}")
            exit_code = 1
        elif self.broken:
            path = os.path.join(rdir, f"{self.prop}-{self.seed}-{self.tier}.json")
            json.dump({"property": self.prop, "kind": "broken-obligation",
                       "no_longer_checks": [b["obligation"] for b in self.broken],
                       "details": self.broken[:10],
                       "search": self.extra.get("search", "extended search on the implementation found no failing input")},
                      open(path, "w"), indent=1, ensure_ascii=False)
            lines.append(f"VIOLATION property={self.prop} replay={path} no-failing-input-found")
            exit_code = 1
        n_ob = len(self.obligations)
        n_ok = sum(1 for o in self.obligations if o[1])
        ev = {
            "property_id": self.prop, "tier": self.tier, "seed": self.seed, "level": self.level,
            "coverage": {
                "obligations": n_ob, "discharged": n_ok,
                "obligation_list": [{"name": o[0], "discharged": o[1], "kind": o[2]} for o in self.obligations],
                "checker_cmd": self.checker_cmd,
                "trusted_base": self.trusted,
                "evaluations": self.evaluations,
                "distinct_nontrivial": len(self.distinct),
                "rule": self.rule,
                "samples": self.samples,
                "input_distribution": dict(sorted(self.tags.items())),
                "known_findings_seen": self.known,
                "broken_ties": self.broken[:10],
            },
            "assumptions": self.assumptions,
            "wall_s": round(wall, 2),
            "violations": len(self.violations) + (1 if (self.broken and not self.violations) else 0),
        }
        ev["coverage"].update(self.extra)
        json.dump(ev, open(os.path.join(VERIF, "evidence", f"{self.prop}.json"), "w"), indent=1, ensure_ascii=False)
        if _ALT:
            # a run against a scratch copy of the repository (VERIF_REPO: private mutation testing) has regenerated the
            # shared Extracted/*.lean tables from that copy: put the tables of /repo back for whoever builds next
            try:
                env = {k: v for k, v in os.environ.items() if k != "VERIF_REPO"}
                subprocess.run([sys.executable, os.path.join(VERIF, "scripts", "extract_all.py")], cwd=VERIF, env=env,
                               capture_output=True, timeout=600)
            except Exception:
                pass
        for l in lines:
            log(l)
        log(f"[{self.prop}] tier={self.tier} seed={self.seed} obligations={n_ok}/{n_ob} evaluations={self.evaluations} "
            f"distinct={len(self.distinct)} known={sum(self.known.values())} violations={len(self.violations)} "
            f"broken={len(self.broken)} wall={wall:.1f}s exit={exit_code}")
        return exit_code


# ---------------------------------------------------------------- standard phases

def phase_proofs(res, prop, theorems, extra_targets=()):
    """lake build the property module + driver, audit axioms, grep forbidden tokens."""
    mod = f"GitAiModel.Props.{prop}"
    ok, out = lake_build([mod, "driver"] + list(extra_targets))
    res.checker_cmd = f"cd {LEAN} && lake build {mod} driver && lake env lean GitAiModel/Props/{prop}.lean  # #print axioms audit"
    if not ok:
        res.obligation(f"lake build {mod}", False, "build")
        res.broken_tie(f"lake build {mod}", out[-3000:])
        for t in theorems:
            res.obligation(t, False)
        return False
    res.obligation(f"lake build {mod}", True, "build")
    aok, per, raw = audit_theorems(f"GitAiModel/Props/{prop}.lean", theorems)
    for t in theorems:
        good = isinstance(per[t], list) and set(per[t]) <= ALLOWED_AXIOMS
        res.obligation(t, good)
        if not good:
            res.broken_tie(f"theorem {t}", f"axioms/elaboration: {per[t]}")
    res.extra["axioms"] = per
    hits = grep_forbidden()
    res.obligation("no sorry/admit/axiom/native_decide/bv_decide/implemented_by/unsafe/maxHeartbeats 0", not hits, "audit")
    if hits:
        res.broken_tie("forbidden-token audit", hits[:10])
    if res.tier == "thorough":
        with Lock("lake"):
            rc, o, e = run(["lake", "env", "leanchecker", mod], cwd=LEAN, timeout=3600)
        res.obligation(f"leanchecker {mod}", rc == 0, "recheck")
        if rc != 0:
            res.broken_tie(f"leanchecker {mod}", (o + e)[-2000:])
    return aok and not hits


def phase_suite(res, suite, seed, count, corpus=None, name=None, extra_args=()):
    """Run an in-process suite: correspondence (model vs code) + oracles on the code.
    Returns (n_disagreements, n_new_oracle_failures)."""
    name = name or f"correspondence:{suite}"
    rc, cases, se = run_suite(suite, seed, count, corpus, extra_args)
    if rc != 0 or not cases:
        res.obligation(name, False, "correspondence")
        res.broken_tie(name, f"harness rc={rc} cases={len(cases)} stderr={se[-1500:]}")
        return 1, 0
    n, bad = correspond(cases)
    newfail = 0
    for c in cases:
        key = json.dumps(c.get("req") or c.get("impl"), sort_keys=True, ensure_ascii=False)
        res.count_case(key)
        res.tag(c.get("tags", []))
        for o in c.get("oracles", []):
            res.tags["oracle:" + o["name"]] = res.tags.get("oracle:" + o["name"], 0) + 1
            if not o["ok"]:
                if res.oracle_failure(o["sig"], {"suite": suite, "seed": seed, "case": c.get("req"), "impl": c.get("impl"), "detail": o.get("detail")},
                                      what=f"oracle {o['name']} failed on the implementation"):
                    newfail += 1
    if cases:
        for c in cases[:: max(1, len(cases) // 3)][:3]:
            res.sample({"suite": suite, "req": trunc(c.get("req")), "impl": trunc(c.get("impl"))})
    res.obligation(name, not bad, "correspondence")
    if bad:
        c, r = bad[0]
        res.broken_tie(name, {"disagreements": len(bad), "of": n, "first": {"req": c["req"], "impl": c["impl"], "model": r}})
    cs = res.extra.setdefault("correspondence", {}).setdefault(suite, {"compared": 0, "disagreements": 0, "cases": 0})
    cs["compared"] += n; cs["disagreements"] += len(bad); cs["cases"] += len(cases)
    return len(bad), newfail


def trunc(v, n=400):
    s = json.dumps(v, ensure_ascii=False)
    return v if len(s) <= n else s[:n] + "…"


def tier_seed(argv):
    tier = argv[2] if len(argv) > 2 else os.environ.get("VERIF_TIER", "quick")
    if tier not in ("quick", "thorough"):
        tier = "quick"
    seed = int(os.environ.get("VERIF_SEED", "1"))
    return tier, seed
