"""End-to-end helpers: drive the git-ai binary built from /repo's working tree in scratch
repositories (outside /repo and /verif), with an isolated HOME / git config / prompt DB.

    with e2e.Env() as env:
        r = env.repo("r1")
        r.write("f.txt", "a\nb\n"); r.git("add", "-A"); r.commit("base")
        r.write("f.txt", "a\nAI\nb\n"); r.ai_checkpoint("s1", ["f.txt"])
        sha = r.commit("c1")
        note = r.note(sha)          # parsed authorship note (independent Python parser)
        bl = r.blame("f.txt")       # per-line attribution from `git-ai blame --json`-like output

Every command goes through `Repo.git` (the proxy: GIT_AI=git <binary> args) or `Repo.plain_git`
(the system git, never wrapped). ~50 ms per wrapped command.
"""
import hashlib, json, os, shutil, subprocess, tempfile, time

from . import common as C

REAL_GIT = shutil.which("git") or "/usr/bin/git"


def short_hash(agent_id, tool):
    """authorship_log_serialization::generate_short_hash"""
    return hashlib.sha256(f"{tool}:{agent_id}".encode()).hexdigest()[:16]


class Env:
    def __init__(self, prompt_storage="notes", binary=None, keep=False, extra_env=None, config_patch=None):
        base = os.environ.get("VERIF_SCRATCH") or tempfile.gettempdir()
        self.root = tempfile.mkdtemp(prefix="vf-e2e-", dir=base)
        self.home = os.path.join(self.root, "home")
        os.makedirs(self.home)
        self.binary = binary or C.GIT_AI_BIN
        self.keep = keep
        # commit dates must be later than blame.rs OLDEST_AI_BLAME_DATE (2025-07-04), which git-ai passes
        # to `git blame --since`; older dates would make every commit a blame boundary
        self.clock = 1760000000
        patch = {"exclude_prompts_in_repositories": [], "prompt_storage": prompt_storage,
                 "telemetry_oss_disabled": True, "disable_version_checks": True, "disable_auto_updates": True}
        if config_patch:
            patch.update(config_patch)
        if prompt_storage is None:
            patch.pop("prompt_storage")
        self.env = {
            "HOME": self.home,
            "GIT_CONFIG_GLOBAL": os.path.join(self.home, ".gitconfig"),
            "GIT_CONFIG_NOSYSTEM": "1",
            "GIT_AI_TEST_DB_PATH": os.path.join(self.root, "db"),
            "GITAI_TEST_DB_PATH": os.path.join(self.root, "db"),
            "GIT_AI_TEST_CONFIG_PATCH": json.dumps(patch),
            "GIT_TERMINAL_PROMPT": "0",
            "TZ": "UTC", "LC_ALL": "C", "LANG": "C",
            "PATH": os.environ.get("PATH", "/usr/bin:/bin"),
            "GIT_AUTHOR_NAME": "Test User", "GIT_AUTHOR_EMAIL": "test@example.com",
            "GIT_COMMITTER_NAME": "Test User", "GIT_COMMITTER_EMAIL": "test@example.com",
            "GIT_EDITOR": "true", "GIT_SEQUENCE_EDITOR": "true", "GIT_PAGER": "cat", "PAGER": "cat",
        }
        if extra_env:
            self.env.update(extra_env)
        with open(self.env["GIT_CONFIG_GLOBAL"], "w") as f:
            f.write("[user]\n\tname = Test User\n\temail = test@example.com\n[init]\n\tdefaultBranch = main\n"
                    "[advice]\n\tdetachedHead = false\n[core]\n\tautocrlf = false\n[commit]\n\tgpgsign = false\n")
        self.ncmd = 0

    def __enter__(self):
        return self

    def __exit__(self, *a):
        if not self.keep:
            shutil.rmtree(self.root, ignore_errors=True)

    def tick(self):
        self.clock += 60
        return self.clock

    def repo(self, name, init=True, bare=False):
        p = os.path.join(self.root, name)
        os.makedirs(p, exist_ok=True)
        r = Repo(self, p)
        if init:
            args = ["init", "-q", "-b", "main"] + (["--bare"] if bare else [])
            r.plain_git(*args)
        return r

    def clone(self, src, name, proxy=True):
        dst = os.path.join(self.root, name)
        r0 = Repo(self, self.root)
        (r0.git if proxy else r0.plain_git)("clone", "-q", src.path if isinstance(src, Repo) else src, dst)
        return Repo(self, dst)


class Repo:
    def __init__(self, env, path):
        self.env, self.path = env, path

    # ------------------------------------------------------------ running commands
    def _run(self, argv, cwd=None, env=None, input=None, timeout=120):
        e = dict(self.env.env)
        t = self.env.tick()
        e["GIT_AUTHOR_DATE"] = e["GIT_COMMITTER_DATE"] = f"{t} +0000"
        if env:
            e.update(env)
        self.env.ncmd += 1
        p = subprocess.run(argv, cwd=cwd or self.path, env=e, capture_output=True, input=input, timeout=timeout)
        return p.returncode, p.stdout.decode("utf-8", "replace"), p.stderr.decode("utf-8", "replace")

    def git(self, *args, env=None, cwd=None, input=None, check=False):
        """git through the git-ai proxy"""
        ee = {"GIT_AI": "git"}
        if env:
            ee.update(env)
        rc, out, err = self._run([self.env.binary] + list(args), cwd=cwd, env=ee, input=input)
        if check and rc != 0:
            raise RuntimeError(f"git {' '.join(args)} failed rc={rc}: {err}")
        return rc, out, err

    def plain_git(self, *args, env=None, cwd=None, input=None, check=False):
        """the system git, not wrapped"""
        rc, out, err = self._run([REAL_GIT] + list(args), cwd=cwd, env=env, input=input)
        if check and rc != 0:
            raise RuntimeError(f"plain git {' '.join(args)} failed rc={rc}: {err}")
        return rc, out, err

    def ai(self, *args, env=None, cwd=None, input=None):
        """git-ai's own subcommands (checkpoint, blame, stats, …)"""
        return self._run([self.env.binary] + list(args), cwd=cwd, env=env, input=input)

    # ------------------------------------------------------------ files
    def write(self, rel, content, binary=False):
        p = os.path.join(self.path, rel)
        os.makedirs(os.path.dirname(p) or ".", exist_ok=True)
        with open(p, "wb") as f:
            f.write(content if binary else content.encode("utf-8"))

    def read(self, rel):
        with open(os.path.join(self.path, rel), "rb") as f:
            return f.read().decode("utf-8", "replace")

    def exists(self, rel):
        return os.path.exists(os.path.join(self.path, rel))

    # ------------------------------------------------------------ checkpoints
    def ai_checkpoint(self, session, files, tool="mock_agent", model="m1", transcript=None):
        """Report that AI session `session` edited `files` (agent-v1 preset, inline transcript)."""
        payload = {"type": "ai_agent", "repo_working_dir": self.path, "edited_filepaths": list(files),
                   "transcript": transcript if transcript is not None else {"messages": []},
                   "agent_name": tool, "model": model, "conversation_id": session}
        return self.ai("checkpoint", "agent-v1", "--hook-input", json.dumps(payload))

    def human_checkpoint(self, files=None):
        """Pre-edit human checkpoint (agent-v1 preset)."""
        payload = {"type": "human", "repo_working_dir": self.path, "will_edit_filepaths": list(files) if files else None}
        return self.ai("checkpoint", "agent-v1", "--hook-input", json.dumps(payload))

    def mock_ai(self, *files):
        return self.ai("checkpoint", "mock_ai", *files)

    @staticmethod
    def session_hash(session, tool="mock_agent"):
        return short_hash(session, tool)

    # ------------------------------------------------------------ git facts
    def head(self):
        rc, out, _ = self.plain_git("rev-parse", "HEAD")
        return out.strip() if rc == 0 else None

    def commit(self, msg="c", all=True, extra=()):
        if all:
            self.git("add", "-A")
        rc, out, err = self.git("commit", "-q", "-m", msg, *extra)
        return self.head() if rc == 0 else None

    def file_at(self, rev, path):
        rc, out, _ = self.plain_git("show", f"{rev}:{path}")
        return out if rc == 0 else None

    # ------------------------------------------------------------ notes
    def notes_list(self, ref="ai"):
        rc, out, _ = self.plain_git("notes", f"--ref={ref}", "list")
        res = {}
        if rc == 0:
            for line in out.split("\n"):
                parts = line.split()
                if len(parts) == 2:
                    res[parts[1]] = parts[0]
        return res

    def note_text(self, sha, ref="ai"):
        rc, out, _ = self.plain_git("notes", f"--ref={ref}", "show", sha)
        return out if rc == 0 else None

    def note(self, sha, ref="ai"):
        t = self.note_text(sha, ref)
        return parse_note(t) if t is not None else None

    def blame(self, path, rev=None, extra=()):
        """Per-line attribution: list (1-based index = position+1) of session hash or None (human),
        from `git-ai blame --json`. Returns None when the command fails."""
        # git-ai blame has no `--` separator: a leading dash must be hidden behind "./"
        args = ["blame", "--json"] + list(extra) + [("./" + path) if path.startswith("-") else path]
        rc, out, err = self.ai(*args)
        if rc != 0:
            return None
        try:
            j = json.loads(out)
        except Exception:
            return None
        return j

    # ------------------------------------------------------------ private state
    def ai_dir(self):
        rc, out, _ = self.plain_git("rev-parse", "--git-dir")
        g = out.strip()
        if not os.path.isabs(g):
            g = os.path.join(self.path, g)
        return os.path.join(g, "ai")

    def initial(self, base=None):
        base = base or self.head() or "initial"
        p = os.path.join(self.ai_dir(), "working_logs", base, "INITIAL")
        try:
            return json.load(open(p))
        except Exception:
            return None

    def checkpoints(self, base=None):
        base = base or self.head() or "initial"
        p = os.path.join(self.ai_dir(), "working_logs", base, "checkpoints.jsonl")
        out = []
        try:
            for line in open(p):
                line = line.strip()
                if line:
                    out.append(json.loads(line))
        except FileNotFoundError:
            pass
        return out


# ---------------------------------------------------------------- independent note parser
def parse_ranges(s):
    lines = []
    for part in s.split(","):
        if not part:
            continue
        if "-" in part:
            a, b = part.split("-", 1)
            lines.extend(range(int(a), int(b) + 1))
        else:
            lines.append(int(part))
    return lines


def parse_note(text):
    """Independent parser written from specs/git_ai_standard_v3.0.0.md (not from the Rust code).
    Returns {"files": {path: {hash: [lines...]}}, "entries": [(path, hash, ranges_text)], "meta": dict,
    "errors": [..]}."""
    res = {"files": {}, "entries": [], "meta": None, "errors": []}
    if text.endswith("\n"):
        text = text[:-1]
    lines = text.split("\n")
    try:
        d = lines.index("---")
    except ValueError:
        res["errors"].append("no divider")
        return res
    cur = None
    for ln in lines[:d]:
        if not ln.strip():
            continue
        if ln.startswith("  "):
            body = ln[2:]
            if " " not in body:
                res["errors"].append(f"entry without ranges: {ln!r}")
                continue
            h, rs = body.split(" ", 1)
            if cur is None:
                res["errors"].append("entry before any path")
                continue
            try:
                ls = parse_ranges(rs)
            except ValueError:
                res["errors"].append(f"bad ranges {rs!r}")
                continue
            res["entries"].append((cur, h, rs))
            res["files"].setdefault(cur, {}).setdefault(h, []).extend(ls)
        else:
            cur = ln[1:-1] if len(ln) >= 2 and ln.startswith('"') and ln.endswith('"') else ln
            res["files"].setdefault(cur, {})
    try:
        res["meta"] = json.loads("\n".join(lines[d + 1:]))
    except Exception as e:
        res["errors"].append(f"metadata json: {e}")
    return res


def note_line_authors(note, path):
    """{line_number: hash} for `path` (later entries win, as the reader does)."""
    out = {}
    if not note:
        return out
    for (p, h, rs) in note["entries"]:
        if p == path:
            for l in parse_ranges(rs):
                out[l] = h
    return out


def blame_line_hashes(bj):
    """From `git-ai blame --json` output → {line_number: prompt hash} for AI lines."""
    out = {}
    if not bj:
        return out
    lines = bj.get("lines", {})
    for k, h in lines.items():
        if "-" in k:
            a, b = k.split("-", 1)
            rng = range(int(a), int(b) + 1)
        else:
            rng = [int(k)]
        for l in rng:
            out[l] = h
    return out
