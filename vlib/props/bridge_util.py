"""Refinement bridge byte-level tracker (C16) => line-level checkpoint rule of Sys (C01/C14):
build + axiom audit of lean/GitAiModel/Props/Bridge.lean, shared by the C01 and C16 checks."""
from vlib import common as C

NS = "GitAi.LineStep."
BRIDGE_THEOREMS = [NS + t for t in [
    "lineStep_follows_rule",
    "prior_is_dominant",
    "lineStep_keep",
    "lineStep_insert",
    "lineStep_refines_checkpointAttr",
    "witness_ids_not_unique",
    "witness_inserted_not_fresh",
    "witness_short_author_list",
    "witness_newline_in_body",
    "witness_line_starts_inside_char",
    "witness_no_final_newline_inherits",
    # texts without final newline (lineStepE; /repo fix of the delete direction)
    "lineStepE_tt",
    "eof_kept_line_keeps_bytes",
    "eof_terminator_is_reporters",
    "eof_open_insert_is_reporters",
    "regression_delete_around_last_line",
    "regression_delete_below_last_line",
    "regression_final_newline_dropped",
    "regression_both_open_last_line_kept",
    "witness_eof_append_direction_excluded",
    "witness_eof_blank_open_insert_inherits",
]]


def phase_bridge(res):
    """Call AFTER C.phase_proofs (which resets res.extra['axioms'])."""
    mod = "GitAiModel.Props.Bridge"
    ok, out = C.lake_build([mod, "driver"])
    res.obligation(f"lake build {mod}", ok, "build")
    if not ok:
        res.broken_tie(f"lake build {mod}", out[-3000:])
        for t in BRIDGE_THEOREMS:
            res.obligation(t, False)
        return False
    aok, per, raw = C.audit_theorems("GitAiModel/Props/Bridge.lean", BRIDGE_THEOREMS)
    for t in BRIDGE_THEOREMS:
        good = isinstance(per[t], list) and set(per[t]) <= C.ALLOWED_AXIOMS
        res.obligation(t, good)
        if not good:
            res.broken_tie(f"theorem {t}", f"axioms/elaboration: {per[t]}")
    res.extra.setdefault("axioms", {}).update(per)
    return aok
