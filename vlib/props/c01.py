"""C01 — a commit's AI attribution is exactly the lines the agents wrote (DESIGN §8 C01)."""
import concurrent.futures, json, os, traceback

from vlib import common as C, e2e, sysrun as S
from vlib.props import bridge_util as B

PROP = "C01"
THEOREMS = ["GitAi.DiffParse.parseHunkRanges_headerLine", "GitAi.DiffParse.parse_render_exact", "GitAi.DiffParse.normPath_plain",
            "GitAi.Sys.commit_exact"]

FILE_NAMES = ["f1.txt", "src/main.rs", "dir/my file.txt", "ünï.txt", "-dash.txt", "q\"uote.txt", "a/b/c.py", "tab\tname.txt"]


def gen_scenario(seed):
    rng = S.Rng(seed)
    w = S.World()
    style = "syntax" if rng.chance(1, 3) else "plain"
    nfiles = 1 + rng.below(3)
    names = []
    while len(names) < nfiles:
        n = rng.pick(FILE_NAMES)
        if n not in names:
            names.append(n)
    file_opts = {}
    for n in names:
        file_opts[n] = {"final_newline": not rng.chance(1, 5), "crlf": rng.chance(1, 8)}
    steps = []
    # base commit (human)
    for n in names:
        w.files[n] = [w.fresh(S.gen_text(rng, w, "plain"), None) for _ in range(2 + rng.below(6))]
        steps.append({"op": "edit", "who": "human", "path": n, "lines": [list(l) for l in w.files[n]]})
    steps.append({"op": "commit", "msg": "base"})
    sessions = ["s1", "s2", "s3"][: 1 + rng.below(3)]
    rounds = 1 + rng.below(2)
    for rd in range(rounds):
        pending_human = False
        nedits = 2 + rng.below(8)
        for _ in range(nedits):
            who = rng.pick(sessions + ["human"])
            path = rng.pick(names)
            if who != "human":
                # the agent integration protocol: a pre-edit (human) checkpoint naming the file the
                # agent is about to edit, then the edit, then the agent's own checkpoint
                steps.append({"op": "human_checkpoint", "paths": [path]})
                pending_human = False
                others = [n for n in names if n != path]
                if others and rng.chance(1, 6):
                    # while the agent is at work the person types in another file
                    other = rng.pick(others)
                    k2 = S.gen_edit(rng, w, other, "human", style)
                    steps.append({"op": "edit", "who": "human", "path": other, "kind": k2 + "/during-agent-run",
                                  "lines": [list(l) for l in w.files[other]]})
            kind = S.gen_edit(rng, w, path, who, style)
            steps.append({"op": "edit", "who": who, "path": path, "kind": kind, "lines": [list(l) for l in w.files[path]]})
            if who == "human":
                pending_human = True
        steps.append({"op": "commit", "msg": f"round {rd}"})
    return {"seed": seed, "style": style, "file_opts": file_opts, "steps": steps}


def retouched_ws_only(run, idx, path, lineno):
    """True when line `lineno` of `path` at commit idx is an AI line that already existed (same uid,
    same ghost) in the parent commit and differs from it at most in whitespace / its line ending:
    the family 'whitespace-only re-touch of a line committed earlier' (known finding)."""
    files = run.commits[idx][1]
    parent = run.commits[idx - 1][1]
    try:
        l = files[path][lineno - 1]
    except (KeyError, IndexError):
        return False
    for pl in parent.get(path, []):
        if pl[2] == l[2]:
            return pl[1] == l[1] and "".join(pl[0].split()) == "".join(l[0].split())
    return False


def reindented_below_insert(run, idx, path, lineno):
    """line `lineno` is an AI line whose exact text its session never reported — somebody else changed
    only its whitespace before it was committed — and, in the same stretch of unreported edits, the line
    directly above or below it changed too (a line inserted above, a neighbouring line deleted): the
    token-level diff of that interval pairs the session's tokens with the neighbour and the re-indented
    line goes to the other editor (known finding). Re-indenting alone keeps the attribution."""
    files = run.commits[idx][1]
    try:
        l = files[path][lineno - 1]
    except (KeyError, IndexError):
        return False
    if l[1] is None:
        return False
    nt = lambda t: "".join(t.split())
    wrote = run.wrote.get(l[1], set())
    ws_retouched = l[0] not in wrote and any(nt(t) == nt(l[0]) for t in wrote)
    if not ws_retouched:
        return False
    was = getattr(run, "neigh", {}).get((l[1], nt(l[0])))
    if was is None:
        return False
    above = nt(files[path][lineno - 2][0]) if lineno >= 2 else None
    below = nt(files[path][lineno][0]) if lineno < len(files[path]) else None
    return (above, below) != was


def reindented_below_insert_any(run, idx, path, lineno):
    """the same, at whichever commit introduced the line (blame at HEAD sees the whole history)"""
    try:
        uid = run.commits[idx][1][path][lineno - 1][2]
    except (KeyError, IndexError):
        return False
    for k in range(1, idx + 1):
        for pos, l in enumerate(run.commits[k][1].get(path, []), 1):
            if l[2] == uid and reindented_below_insert(run, k, path, pos):
                return True
    return False


def last_line_no_newline(run, idx, path, lineno):
    """line `lineno` was the unterminated last line of a file kept without a final newline when text was
    appended after it: it gained a terminating newline, the line diff does not match it with its previous
    self and the token diff of the hunk may credit it to whoever appended (known finding, what is left of
    it after /repo fix 2c591e34: a line that BECOMES the last line because the lines below it were deleted
    keeps its attribution and is no longer excused here)"""
    files = run.commits[idx][1]
    try:
        uid = files[path][lineno - 1][2]
    except (KeyError, IndexError):
        return False
    return (not run.opts(path).get("final_newline", True)) and uid in run.appended_after.get(path, set())


def retouched_ws_only_any(run, idx, path, lineno):
    """Same, against any earlier commit (blame at HEAD sees the whole history)."""
    return any(retouched_ws_only(run, k, path, lineno) if k == idx else _same_uid_ws(run, k, idx, path, lineno)
               for k in range(1, idx + 1))


def _same_uid_ws(run, k, idx, path, lineno):
    # the line (by uid) was re-touched whitespace-only at commit k and unchanged since
    files = run.commits[idx][1]
    try:
        l = files[path][lineno - 1]
    except (KeyError, IndexError):
        return False
    at_k = [x for x in run.commits[k][1].get(path, []) if x[2] == l[2]]
    before = [x for x in run.commits[k - 1][1].get(path, []) if x[2] == l[2]]
    if not at_k or not before:
        return False
    return at_k[0][0] == l[0] and before[0][1] == l[1] and "".join(before[0][0].split()) == "".join(l[0].split())


TOKEN_PAIR_SIG = "token-pairing-with-deleted-line-of-same-hunk"


def _lead(t):
    import re
    m = re.match(r"\s*(\w+)", t)
    return m.group(1) if m else None


def token_pairing_in_interval(sc, path, text, session):
    """known finding token-pairing-with-deleted-line-of-same-hunk (checkpoint path, invention direction): between two
    checkpoints of `path` a person (a) deleted a line of `session` that sat directly above or below a line L, and
    (b) changed L in whitespace only so that it reads `text` (the credited line); the deleted line starts with the same
    word token as L. The token-level diff of that interval pairs the deleted line's leading token with L."""
    nt = lambda t: "".join(t.split())
    start = None      # content of path at the last checkpoint that saw it
    last = None
    for st in sc["steps"]:
        if st["op"] == "edit" and st.get("path") == path:
            if st["who"] == "human":
                if start is None:
                    start = last
                if start:
                    uids_now = {l[2] for l in st["lines"]}
                    for b in st["lines"]:
                        if b[0] != text:
                            continue
                        for k, a in enumerate(start):
                            if a[2] == b[2] and a[0] != b[0] and nt(a[0]) == nt(b[0]):
                                for n in (start[k - 1] if k > 0 else None, start[k + 1] if k + 1 < len(start) else None):
                                    if n and n[1] == session and n[2] not in uids_now and _lead(n[0]) == _lead(text):
                                        return True
            else:
                start = None
            last = st["lines"]
        elif st["op"] == "human_checkpoint" and path in (st.get("paths") or []):
            start = None
        elif st["op"] == "commit":
            start = None
    return False


def classify_token_pairing(sc, run, failures):
    """re-label `note-lists-non-ai-line` / `blame-reports-non-ai-line` failures all of whose extra lines are explained by
    token_pairing_in_interval"""
    h2s = {S.hash_of(s_): s_ for s_ in ("s1", "s2", "s3", "s4")}
    for n, (sig, d) in enumerate(failures):
        if sig not in ("note-lists-non-ai-line", "blame-reports-non-ai-line") or not d.get("extra") or d.get("missing"):
            continue
        files = next((f for sha, f in run.commits if sha == d.get("sha")), None)
        if not files or d["path"] not in files:
            continue
        lines = files[d["path"]]
        if all(0 < ln <= len(lines) and h in h2s and lines[ln - 1][1] != h2s[h] and
               token_pairing_in_interval(sc, d["path"], lines[ln - 1][0], h2s[h]) for ln, h in d["extra"].items()):
            failures[n] = (TOKEN_PAIR_SIG, d)


def check_commit(run, idx, failures):
    """Oracles for commit number idx of the runner (idx ≥ 1: not the base commit)."""
    sha, files = run.commits[idx]
    parent = run.commits[idx - 1][0]
    r = run.repo
    added = S.added_lines(r, parent, sha)
    exp = S.expected_note_lines(files, added)
    note = r.note(sha)
    obs = S.observed_note_lines(note)
    if note and note["errors"]:
        failures.append(("note-unparsable", {"sha": sha, "errors": note["errors"]}))
    for p in set(exp) | set(obs):
        e, o = exp.get(p, {}), obs.get(p, {})
        if e != o:
            missing = {l: h for l, h in e.items() if o.get(l) != h}
            extra = {l: h for l, h in o.items() if e.get(l) != h}
            texts = {i: files.get(p, [])[i - 1][0] if i - 1 < len(files.get(p, [])) else None for i in list(missing) + list(extra)}
            sig = "note-misses-ai-line" if missing and not extra else ("note-lists-non-ai-line" if extra and not missing else "note-wrong-lines")
            if missing and not extra and all(retouched_ws_only(run, idx, p, l) for l in missing):
                sig = "ws-only-retouch-of-committed-ai-line"
            elif missing and not extra and all(reindented_below_insert(run, idx, p, l) for l in missing):
                sig = "uncommitted-ai-line-reindented-next-to-a-change-in-the-same-interval"
            elif all(last_line_no_newline(run, idx, p, l) for l in list(missing) + list(extra)):
                sig = "last-line-without-newline-credited-to-session-that-deleted-below"
            failures.append((sig, {"sha": sha, "path": p, "missing": missing, "extra": extra, "line_texts": texts,
                                   "added": sorted(added.get(p, []))}))
    # blame (at HEAD, i.e. only for the last commit): every line's attribution equals its ghost
    if idx != len(run.commits) - 1:
        return
    for p, lines in files.items():
        if not lines:
            continue  # git-ai blame rejects empty files (C09's concern, not C01's)
        bj = r.blame(p)
        if bj is None:
            failures.append(("blame-failed", {"sha": sha, "path": p}))
            continue
        got = e2e.blame_line_hashes(bj)
        want = {i: S.hash_of(l[1]) for i, l in enumerate(lines, 1) if l[1] is not None}
        if got != want:
            missing = {l: h for l, h in want.items() if got.get(l) != h}
            extra = {l: h for l, h in got.items() if want.get(l) != h}
            sig = "blame-misses-ai-line" if missing and not extra else ("blame-reports-non-ai-line" if extra and not missing else "blame-wrong-lines")
            if missing and not extra and all(retouched_ws_only_any(run, idx, p, l) for l in missing):
                sig = "ws-only-retouch-of-committed-ai-line"
            elif missing and not extra and all(reindented_below_insert_any(run, idx, p, l) for l in missing):
                sig = "uncommitted-ai-line-reindented-next-to-a-change-in-the-same-interval"
            elif all(last_line_no_newline(run, idx, p, l) for l in list(missing) + list(extra)):
                sig = "last-line-without-newline-credited-to-session-that-deleted-below"
            failures.append((sig, {"sha": sha, "path": p, "missing": missing, "extra": extra}))


def run_scenario(sc):
    out = _run_scenario(sc)
    for _ in range(2):
        if not any(sig == "runner-exception" for sig, _d in out[0]):
            break
        out = _run_scenario(sc)       # transient environment trouble (busy machine): retry
    return out


def _run_scenario(sc):
    failures = []
    try:
        with e2e.Env() as env:
            run = S.Runner(env, file_opts=sc.get("file_opts"))
            for st in sc["steps"]:
                run.step(st)
            for i in range(1, len(run.commits)):
                check_commit(run, i, failures)
            classify_token_pairing(sc, run, failures)
            ncommits = len(run.commits)
            observed = [S.observed_note_lines(run.repo.note(sha)) for sha, _ in run.commits[1:]]
            sc["_observed"] = observed
            sc["_commit_ok"] = list(run.commit_ok)
            sc["_idealised"] = sorted({d.get("path") for sig, d in failures
                                       if sig in ("uncommitted-ai-line-reindented-next-to-a-change-in-the-same-interval", TOKEN_PAIR_SIG)})
    except Exception as ex:
        failures.append(("runner-exception", {"error": repr(ex), "trace": traceback.format_exc()[-1500:]}))
        ncommits = 0
    return failures, ncommits


def phase_e2e(res, seeds, threads=16):
    scs = [gen_scenario(s) for s in seeds]
    with concurrent.futures.ThreadPoolExecutor(threads) as ex:
        outs = list(ex.map(run_scenario, scs))
    # correspondence of the history-level Lean model (Model/Sys.lean) with the binary: predicted vs
    # observed note lines of every commit of every scenario
    ncmp, nbad, first = 0, 0, None
    for sc in scs:
        if "_observed" not in sc:
            continue
        # the content-identity model has no line endings: files kept without a final newline are left
        # to the oracle (known finding "last line without newline …")
        skip = [p for p, o in (sc.get("file_opts") or {}).items() if not o.get("final_newline", True)] + sc.pop("_idealised", [])
        n, bad = S.sys_compare(sc, sc.pop("_observed"), C.run_driver, skip_paths=skip, commit_ok=sc.pop("_commit_ok", None))
        ncmp += n; nbad += len(bad)
        if bad and first is None:
            first = {"seed": sc["seed"], "disagreement": bad[0]}
    res.obligation("correspondence:sys-e2e (Sys model's predicted notes vs notes written by the binary)", nbad == 0, "correspondence")
    cs = res.extra.setdefault("correspondence", {}).setdefault("sys-e2e", {"compared": 0, "disagreements": 0})
    cs["compared"] += ncmp; cs["disagreements"] += nbad
    if nbad:
        res.broken_tie("correspondence:sys-e2e", {"disagreements": nbad, "of": ncmp, "first": first})
    for sc, (failures, ncommits) in zip(scs, outs):
        key = json.dumps(sc["steps"], ensure_ascii=False)
        res.count_case(key, nontrivial=ncommits >= 2)
        kinds = [st.get("kind") for st in sc["steps"] if st.get("kind")]
        res.tag([f"style={sc['style']}", f"commits={ncommits}"] + [f"edit={k}" for k in set(kinds)] +
                [f"who={'ai' if st['who'] != 'human' else 'human'}" for st in sc["steps"] if st["op"] == "edit"][:1])
        res.sample({"seed": sc["seed"], "steps": [{k: (v if k != "lines" else f"{len(v)} lines") for k, v in st.items()} for st in sc["steps"]][:12]}, cap=2)
        for sig, detail in failures:
            res.oracle_failure(sig, {"scenario": sc, "detail": detail}, what=f"end-to-end oracle {sig}")


def run(tier, seed):
    res = C.Result(PROP, tier, seed)
    res.rule = ("end-to-end: generated histories (1-3 files incl. unusual names/CRLF/no final newline/diff-syntax-like lines, "
                "1-3 AI sessions + human, insert/delete/replace/intra-line/re-indent at random positions, 1-2 commit rounds) "
                "run on the binary built from /repo; non-trivial = at least one non-base commit; distinct = distinct step list. "
                "in-process: diff-text parser vs model")
    res.trusted = ["Lean 4.33 kernel", "harness/src/suites/diffparse.rs", "vlib/sysrun.py ghost tracking and the independent diff/notes parsers",
                   "real git 2.39 as the reference for what a commit adds"]
    ok, out = C.build_harness()
    ok2, out2 = C.build_git_ai()
    if not (ok and ok2):
        res.obligation("build harness+binary from /repo working tree", False, "build")
        res.broken_tie("build", (out + out2)[-3000:])
        return res.finish()
    C.phase_proofs(res, PROP, THEOREMS) if os.path.exists(os.path.join(C.LEAN, "GitAiModel", "Props", "C01.lean")) else None
    B.phase_bridge(res)  # byte-level tracker (C16 model) => Sys.checkpointAttr, the checkpoint rule commit_exact rests on
    n = 4000 if tier == "quick" else 100000
    bad, _ = C.phase_suite(res, "diffparse", seed, n, os.path.join(C.VERIF, "corpus", "C01", "diffparse.jsonl"))
    nsc = 160 if tier == "quick" else 3000
    phase_e2e(res, [seed * 100000 + i for i in range(nsc)])
    if res.broken and not res.violations:
        phase_e2e(res, [seed * 100000 + 50000 + i for i in range(200)])
        res.extra["search"] = "200 extra end-to-end scenarios + in-process oracles"
    return res.finish()
