"""C02 — attribution follows code through history rewriting (DESIGN §8 C02).

Scenario templates (rebase plain/--onto/interactive with reorder|squash|fixup|drop, conflicts with
continue|abort|skip, cherry-pick single/range/-n, amend, merge --squash, reset --soft/--mixed +
recommit, stash/pop with upstream changes, switch carrying uncommitted work, failing and dry-run
operations) are run on the built binary. Every line text is unique, so a line's identity is its
text modulo whitespace; the runner knows who last changed each text substantively.

Oracles: (1) at every branch tip after every operation, blame reports a line as session S iff its
ghost author is S (surviving lines keep their session, nothing else becomes AI); (2) an operation
that aborts, fails or is a dry run leaves refs/notes/* and the private working logs byte-identical.
"""
import concurrent.futures, hashlib, json, os, traceback

from vlib import common as C, e2e, sysrun as S

PROP = "C02"
THEOREMS = ["GitAi.Sys.blame_matches_ghost", "GitAi.Sys.rewrite_preserves_attribution", "GitAi.Sys.replay_credit_from_source",
            "GitAi.Sys.replay_never_invents", "GitAi.Sys.resolution_line_credit", "GitAi.Sys.resolution_other_lines", "GitAi.Sys.resolution_never_invents",
            "GitAi.Sys.replayR_nil", "GitAi.Sys.regression_agent_resolution_line_credited",
            "GitAi.Sys.resolution_line_credit_partial", "GitAi.Sys.witness_agent_resolution_line_lost",
            "GitAi.Sys.regression_block_of_several_authors", "GitAi.Sys.regression_line_rewritten_later",
            "GitAi.Sys.regression_fixup_person_commit_next", "GitAi.Sys.regression_reorder_person_commit_first", "GitAi.Sys.regression_cherry_pick_ai_line_already_upstream",
            "GitAi.Sys.aborted_is_identity", "GitAi.Sys.stash_roundtrip_partial", "GitAi.Sys.regression_stash_upstream_above",
            "GitAi.Sys.rspecRun_st", "GitAi.RJ.fresh_operation_uses_its_own_head", "GitAi.RJ.continuation_keeps_the_open_start",
            "GitAi.RJ.hasActiveStart_iff", "GitAi.RJ.extracted_decisions_sound"]


def norm(t):
    return "".join(t.split())


class Sc:
    def __init__(self, env, seed):
        self.env = env
        self.r = env.repo("r")
        self.rng = S.Rng(seed ^ 0xC02)
        self.uid = 0
        self.ghost = {}          # norm(text) -> session or None
        self.log = []
        self.failures = []
        self.tainted_ws = set()  # texts re-touched whitespace-only after being committed as AI (known finding)
        self.overlap = False     # a later commit of the rewritten range touches a file an earlier one touched
        self.human_replaced = set()   # texts a person wrote in place of an existing line
        self.resolution_unmerged = set()   # texts an agent typed into a still unmerged file while a rebase was stopped (its checkpoint records nothing)
        # --- script for the Lean model (Model/Rewrite.lean): what was done, with git's own results as inputs
        self.mops = []           # global op list; per-file payloads are dicts path -> value
        self.ids = {}            # norm(text) -> line id
        self.obs = []            # one per "blame" op: {path: {id: session hash}}
        self.model_ok = True     # False: the scenario uses an operation the model does not have
        self.mfiles = set()

    # ------------------------------------------------------------ model script helpers
    def lid(self, t):
        k = norm(t)
        if k not in self.ids:
            self.ids[k] = len(self.ids) + 1
        return self.ids[k]

    def mrec(self, k, **kw):
        self.mops.append(dict(k=k, **kw))

    def tree_ids(self, rev=None):
        """{path: [ids]} of every known file, in the working tree or at a revision"""
        out = {}
        for p in sorted(self.mfiles):
            if rev is None:
                ls = self.lines(p)
            else:
                rc, c, _ = self.r.plain_git("show", f"{rev}:{p}")
                ls = (c.split("\n")[:-1] if c.endswith("\n") else (c.split("\n") if c else [])) if rc == 0 else []
            out[p] = [self.lid(l) for l in ls]
        return out

    def new_commits(self, since):
        rc, out, _ = self.r.plain_git("rev-list", "--reverse", f"{since}..HEAD")
        return [x for x in out.split() if x]

    def news_since(self, since):
        per = {p: [] for p in self.mfiles}
        for sha in self.new_commits(since):
            t = self.tree_ids(sha)
            for p in self.mfiles:
                per[p].append(t[p])
        return per

    # ------------------------------------------------------------ content helpers
    def fresh(self, who):
        self.uid += 1
        t = f"L{self.uid} " + self.rng.pick(["alpha", "beta();", "return x;", "}", "// note", "let y = 2;"])
        self.ghost[norm(t)] = None if who == "human" else who
        return t

    def lines(self, p):
        try:
            c = self.r.read(p)
        except Exception:
            return []
        return c.split("\n")[:-1] if c.endswith("\n") else (c.split("\n") if c else [])

    def write(self, p, lines):
        self.r.write(p, "".join(l + "\n" for l in lines))

    def edit(self, who, p, where="middle", kind=None, n=None):
        """One edit by `who` at a region of file p: 'top', 'middle' or 'bottom' (kept apart so that
        edits in different regions never conflict)."""
        rng = self.rng
        ls = self.lines(p)
        if who != "human":
            self.r.human_checkpoint([p])
        kind = kind or rng.pick(["insert", "insert", "replace", "modify"])
        k = n or (1 + rng.below(3))
        L = len(ls)
        if where == "top":
            pos = 0
        elif where == "bottom":
            pos = L
        else:
            pos = max(1, min(L - 1, L // 2)) if L >= 2 else L
        if kind == "insert" or L == 0 or where in ("top", "bottom"):
            new = [self.fresh(who) for _ in range(k)]
            ls[pos:pos] = new
            kind = "insert"
        elif kind == "replace":
            new = [self.fresh(who) for _ in range(k)]
            ls[pos:pos + 1] = new
            if who == "human":
                self.human_replaced.update(norm(t) for t in new)
        else:
            self.uid += 1
            t = ls[pos] + f" m{self.uid}"
            self.ghost[norm(t)] = None if who == "human" else who
            ls[pos] = t
        self.write(p, ls)
        if who != "human":
            self.r.ai_checkpoint(who, [p], tool=S.TOOL)
        self.mfiles.add(p)
        self.mrec("human" if who == "human" else "ai", path=p, s=int(who[1:]) if who != "human" else 0, ys=[self.lid(l) for l in ls])
        self.log.append({"op": "edit", "who": who, "path": p, "where": where, "kind": kind})

    def git(self, *args, env=None):
        rc, out, err = self.r.git(*args, env=env)
        self.log.append({"op": "git", "args": list(args), "rc": rc})
        if args[0] == "branch" and rc == 0 and len(args) == 2:
            self.mrec("mkbranch", name=args[1])
        if args[0] == "switch" and rc == 0:
            if "-c" in args:
                self.mrec("branch", name=args[-1])
            elif getattr(self, "carry", False):
                self.mrec("switchCarry", name=args[-1])      # uncommitted work goes along
            else:
                self.mrec("switch", name=args[-1])
        return rc

    def commit(self, msg="c", extra=()):
        self.git("add", "-A")
        self.mrec("stageAll")
        rc = self.git("commit", "-q", "-m", msg, *extra)
        if rc == 0:
            self.mrec("commit")
        return self.r.head() if rc == 0 else None

    # ------------------------------------------------------------ oracles
    def snapshot_private(self):
        """Byte-level fingerprint of every AI notes ref and of the private working logs."""
        r = self.r
        rc, refs, _ = r.plain_git("for-each-ref", "--format=%(refname) %(objectname)", "refs/notes/")
        h = hashlib.sha1()
        wl = os.path.join(r.ai_dir(), "working_logs")
        files = []
        for root, _, fs in os.walk(wl):
            for f in fs:
                if f.endswith(".lock"):
                    continue
                fp = os.path.join(root, f)
                files.append(os.path.relpath(fp, wl))
                h.update(fp.encode()); h.update(open(fp, "rb").read())
        return {"refs": refs, "wl": h.hexdigest(), "files": sorted(files)}

    def expect_unchanged(self, before, what):
        after = self.snapshot_private()
        if before["refs"] != after["refs"]:
            self.failures.append((f"notes-changed-by-{what}", {"before": before["refs"], "after": after["refs"], "log": self.log[-6:]}))
        if before["wl"] != after["wl"]:
            self.failures.append((f"pending-attribution-changed-by-{what}", {"before": before["files"], "after": after["files"], "log": self.log[-6:]}))

    def check_tip(self, where):
        """blame == ghost for every line of every tracked, clean file at HEAD."""
        r = self.r
        rc, out, _ = r.plain_git("status", "--porcelain", "-z")
        dirty = {e[3:] for e in out.split("\0") if e}
        rc, out, _ = r.plain_git("ls-files", "-z")
        ob = {}
        self.obs.append(ob)
        self.mrec("blame", where=where)
        for p in [x for x in out.split("\0") if x]:
            if p in dirty:
                continue
            ls = self.lines(p)
            if not ls:
                continue
            bj = r.blame(p)
            if bj is None:
                self.failures.append(("blame-failed", {"where": where, "path": p}))
                continue
            got = e2e.blame_line_hashes(bj)
            ob[p] = {str(self.lid(t)): got[i] for i, t in enumerate(ls, 1) if got.get(i)}
            for i, t in enumerate(ls, 1):
                g = self.ghost.get(norm(t), "?")
                if g == "?":
                    continue        # text produced by a merge conflict marker etc.
                want = S.hash_of(g) if g else None
                have = got.get(i)
                if want != have:
                    if want and not have:
                        sig = "surviving-ai-line-lost"
                    elif have and not want and (self.is_human_tweak_of(t, have) or norm(t) in self.human_replaced):
                        sig = "human-tweak-of-ai-line-still-ai"
                    elif have and not want:
                        sig = "human-line-became-ai"
                    else:
                        sig = "ai-line-credited-to-other-session"
                    # the contiguous block of lines that are not base lines around this one: who wrote them?
                    base = getattr(self, "base_texts", set())
                    lo = hi = i - 1
                    while lo - 1 >= 0 and norm(ls[lo - 1]) not in base:
                        lo -= 1
                    while hi + 1 < len(ls) and norm(ls[hi + 1]) not in base:
                        hi += 1
                    authors = {str(self.ghost.get(norm(ls[k]), "?")) for k in range(lo, hi + 1)}
                    self.failures.append((sig, {"where": where, "path": p, "line": i, "text": t, "want": g, "have": have,
                                                "block_authors": sorted(authors), "mixed_block": len(authors) > 1,
                                                "rewritten_later_by_have": bool(have) and self.later_version_by(t, have),
                                                "typed_by_agent_in_unmerged_file": norm(t) in self.resolution_unmerged,
                                                "log": self.log[-10:]}))

    def later_version_by(self, text, have_hash):
        """some later version `<text> m<k>…` of this line was written by the session blame reports"""
        pre = norm(text) + "m"
        return any(k.startswith(pre) and g and S.hash_of(g) == have_hash for k, g in self.ghost.items())

    def is_human_tweak_of(self, text, have_hash):
        """`text` is `<old line> m<k>`: a person's in-place modification of a line that session wrote"""
        import re as _re
        m = _re.match(r"^(.*) m\d+$", text)
        while m:
            base = m.group(1)
            g = self.ghost.get(norm(base))
            if g and S.hash_of(g) == have_hash:
                return True
            m = _re.match(r"^(.*) m\d+$", base)
        return False

    # ------------------------------------------------------------ templates
    def base(self, nfiles=2, nlines=8):
        self.files = ["a.txt", "src/b.rs", "c.md"][:nfiles]
        for p in self.files:
            ls = [self.fresh("human") for _ in range(nlines)]
            self.write(p, ls)
            self.mfiles.add(p)
            self.mrec("human", path=p, s=0, ys=[self.lid(l) for l in ls])
        self.base_texts = {norm(l) for p in self.files for l in self.lines(p)}
        self.commit("base")

    def feature_commits(self, n, files=None, where="middle", disjoint=False):
        """n commits; with disjoint=True commit i only touches file i (no later commit of the range
        rewrites lines next to an earlier commit's AI lines)."""
        shas = []
        self.touched = []
        for i in range(n):
            t = set()
            for _ in range(1 + self.rng.below(2)):
                who = self.rng.pick(["s1", "s2", "s1", "human"])
                p = (files or self.files)[i % len(files or self.files)] if disjoint else self.rng.pick(files or self.files)
                self.edit(who, p, where=where)
                t.add(p)
            self.touched.append(t)
            shas.append(self.commit(f"feat {i}"))
        self.overlap = any(a & b for k, a in enumerate(self.touched) for b in self.touched[k + 1:])
        return shas

    def upstream_commits(self, n, mode):
        """mode: other-file | above | below | same-file-both"""
        self.upmode = mode
        for i in range(n):
            if mode == "other-file":
                self.edit("human", "upstream.txt", where="bottom")
            elif mode == "above":
                self.edit(self.rng.pick(["human", "s2"]), self.files[0], where="top")
            elif mode == "below":
                self.edit("human", self.files[0], where="bottom")
            else:
                self.edit("human", self.files[0], where="top"); self.edit("human", self.files[0], where="bottom")
            self.commit(f"up {i}")

    def t_rebase(self, interactive=None, onto=False):
        rng = self.rng
        self.base(nfiles=3)
        self.git("switch", "-q", "-c", "feature")
        n = 2 + rng.below(2)
        self.feature_commits(n, disjoint=rng.chance(1, 2))
        self.git("switch", "-q", "main")
        mode = rng.pick(["other-file", "above", "below", "same-file-both"])
        self.upstream_commits(1 + rng.below(2), mode)
        self.git("switch", "-q", "feature")
        self.check_tip("before rebase")
        if self.failures:
            return f"rebase:{mode}:pre-existing"
        env = None
        if interactive:
            script = os.path.join(self.env.root, "seq.py")
            open(script, "w").write(SEQ_EDITOR)
            env = {"GIT_SEQUENCE_EDITOR": f"python3 {script} {interactive}"}
            rc = self.git("rebase", "-i", "main", env=env)
        elif onto:
            rc = self.git("rebase", "--onto", "main", "feature~%d" % n, "feature")
        else:
            rc = self.git("rebase", "main")
        if rc != 0:
            self.git("rebase", "--abort")
            self.mrec("aborted")
        else:
            self.mrec("rebase", onto="main", drop=n, news=self.news_since("main"))
        self.check_tip("after rebase")
        return f"rebase:{interactive or ('onto' if onto else 'plain')}:{mode}"

    def t_rebase_conflict(self, action):
        rng = self.rng
        self.base(nfiles=2)
        p = self.files[0]
        self.git("switch", "-q", "-c", "feature")
        self.edit(rng.pick(["s1", "s2"]), p, where="middle", kind="replace", n=2)
        self.commit("feat conflict")
        self.edit("s1", p, where="bottom"); self.commit("feat tail")
        self.git("switch", "-q", "main")
        self.edit("human", p, where="middle", kind="replace", n=1)
        self.commit("up conflict")
        self.git("switch", "-q", "feature")
        before = self.snapshot_private()
        rc = self.git("rebase", "main")
        if rc == 0:
            self.mrec("rebase", onto="main", drop=2, news=self.news_since("main"))
            return "rebase-conflict:none"
        if action == "abort":
            self.git("rebase", "--abort")
            self.mrec("aborted")
            self.expect_unchanged(before, "rebase-abort")
            self.check_tip("after rebase --abort")
        elif action == "skip":
            rc = self.git("rebase", "--skip")
            if rc == 0:
                self.mrec("rebase", onto="main", drop=2, news=self.news_since("main"))
            else:
                self.model_ok = False
            self.check_tip("after rebase --skip")
        else:
            # conflict resolution inside the stopped rebase: a person or an agent removes the markers and types
            # one more line; model op `typed`, then the replay. An agent's checkpoint is RECORDED (in the working
            # log of the commit the rebase stopped on, which the replay of the continued operation reads) when
            # the file is not unmerged any more: `add-then-edit` (markers removed, `git add`, then the agent
            # types) and `other-file` (the agent types into a file that has no conflict). With `edit-then-add`
            # (the agent edits the conflicted file and reports before `git add`) the checkpoint skips the
            # unmerged file and records nothing: known finding, `rec` = false.
            who = rng.pick(["human", "s2"])
            order = rng.pick(["edit-then-add", "add-then-edit", "other-file"])
            ls = [l for l in self.lines(p) if not l.startswith(("<<<<<<<", "=======", ">>>>>>>", "|||||||"))]
            q = p
            if order != "edit-then-add":
                self.write(p, ls)
                self.git("add", "-A")
            if order == "other-file":
                q = self.files[1]
                ls = self.lines(q)
            if who != "human":
                self.r.human_checkpoint([q])
            t = self.fresh(who)
            ls.insert(len(ls) // 2, t)
            self.write(q, ls)
            recorded = who != "human" and order != "edit-then-add"
            if who != "human":
                self.r.ai_checkpoint(who, [q], tool=S.TOOL)
                if not recorded:
                    self.resolution_unmerged.add(norm(t))
            if order != "edit-then-add" and rng.chance(1, 3):
                # a person goes on typing in the same file after the agent's checkpoint (no checkpoint)
                t2 = self.fresh("human")
                ls = self.lines(q); ls.insert(0, t2); self.write(q, ls)
                self.mrec("typed", s=0, ids=[self.lid(t2)], rec=False)
            self.mrec("typed", s=int(who[1:]) if who != "human" else 0, ids=[self.lid(t)], rec=recorded)
            self.log.append({"op": "resolve", "who": who, "order": order, "path": q})
            action = f"continue:{order}"
            self.git("add", "-A")
            rc = self.git("rebase", "--continue")
            if rc != 0:
                self.git("rebase", "--abort")
                self.mrec("aborted")
            else:
                self.mrec("rebase", onto="main", drop=2, news=self.news_since("main"))
            self.check_tip("after rebase --continue")
        return f"rebase-conflict:{action}"

    def t_cherry_pick(self, mode):
        rng = self.rng
        self.base()
        self.git("switch", "-q", "-c", "feature")
        shas = self.feature_commits(2 + rng.below(2))
        self.git("switch", "-q", "main")
        self.upstream_commits(1, rng.pick(["other-file", "above", "below"]))
        orig = self.r.head()
        if mode == "single":
            rc = self.git("cherry-pick", shas[0])
        elif mode == "range":
            rc = self.git("cherry-pick", f"{shas[0]}^..{shas[-1]}")
        else:
            self.model_ok = False      # cherry-pick -n: not in the model (unsupported by the code: known finding)
            rc = self.git("cherry-pick", "-n", shas[0])
            if rc == 0:
                self.commit("picked -n")
        if rc != 0:
            self.git("cherry-pick", "--abort")
            self.mrec("aborted")
        elif mode != "n":
            # `skip`: commits of the source branch after the last picked one (the replay reads the state at the last picked commit)
            self.mrec("cherryPick", src="feature", skip=(len(shas) - 1 if mode == "single" else 0), news=self.news_since(orig))
        self.check_tip("after cherry-pick")
        return f"cherry-pick:{mode}"

    def t_rebase_after_unfinished(self, how):
        """two rewriting operations composed: a rebase that does nothing (already up to date) or is
        aborted at a conflict, more AI work, then a real rebase"""
        rng = self.rng
        self.base(nfiles=3)
        p = self.files[0]
        if how == "abort":
            self.git("switch", "-q", "-c", "clash")
            self.edit("human", p, where="middle", kind="replace", n=1)
            self.commit("clash")
            self.git("switch", "-q", "main")
        self.git("switch", "-q", "-c", "feature")
        if how == "abort":
            self.edit(rng.pick(["s1", "s2"]), p, where="middle", kind="replace", n=2)
            self.commit("feat conflicting")
            rc = self.git("rebase", "clash")
            if rc == 0:
                self.model_ok = False
                return "rebase-after-abort:no-conflict"
            self.git("rebase", "--abort")
            self.mrec("aborted")
        else:
            self.edit(rng.pick(["s1", "s2"]), self.files[1], where="middle")
            self.commit("feat 0")
            rc = self.git("rebase", "main")          # already up to date: nothing to do
            self.mrec("aborted")
        self.check_tip("after unfinished rebase")
        # more AI work, then upstream moves and the real rebase
        nmore = 1 + rng.below(2)
        for i in range(nmore):
            self.edit(rng.pick(["s1", "s2"]), self.files[1 + (i % 2)], where=rng.pick(["top", "bottom"]))
            self.commit(f"feat more {i}")
        self.git("switch", "-q", "main")
        self.upstream_commits(1, "other-file")
        self.git("switch", "-q", "feature")
        rc = self.git("rebase", "main")
        if rc != 0:
            self.git("rebase", "--abort")
            self.mrec("aborted")
        else:
            self.mrec("rebase", onto="main", drop=1 + nmore, news=self.news_since("main"))
        self.check_tip("after the second rebase")
        return f"rebase-after-{how}"

    def tail(self):
        """a second rewriting operation on top of whatever the template left (two operations composed)"""
        rng = self.rng
        op = rng.pick(["amend", "reset-recommit", "stash-pop", "amend"])
        files = [p for p in self.files if self.r.exists(p)]
        if not files:
            return None
        p = rng.pick(files)
        if op == "amend":
            self.edit(rng.pick(["s1", "s2", "human"]), p, where=rng.pick(["top", "bottom"]))
            self.git("add", "-A")
            self.mrec("stageAll")
            if self.git("commit", "-q", "--amend", "-m", "amended (tail)") == 0:
                self.mrec("amend")
            else:
                self.model_ok = False
        elif op == "reset-recommit":
            rc, out, _ = self.r.plain_git("rev-list", "--count", "HEAD")
            if rc != 0 or int(out.strip() or 0) < 3:
                return None
            mode = rng.pick(["--soft", "--mixed"])
            if self.git("reset", mode, "HEAD~1") == 0:
                self.mrec("reset", n=1, soft=(mode == "--soft"))
            else:
                self.model_ok = False
            self.commit("recommitted (tail)")
        else:
            self.edit(rng.pick(["s1", "s2"]), p, where="middle")
            if self.git("stash") == 0:
                self.mrec("stashPush")
            else:
                self.model_ok = False
            if rng.chance(1, 2):
                q = "upstream.txt"
                self.edit("human", q, where="bottom")
                self.commit("while stashed (tail)")
            if self.git("stash", "pop") != 0:
                self.model_ok = False
                self.git("checkout", "-f"); self.git("stash", "drop")
                return op + ":conflict"
            self.mrec("stashPop", ys=self.tree_ids())
            self.commit("after pop (tail)")
        self.check_tip(f"after tail {op}")
        return op

    def t_amend(self):
        self.base()
        self.feature_commits(1)
        for _ in range(1 + self.rng.below(3)):
            self.edit(self.rng.pick(["s1", "s2", "human"]), self.rng.pick(self.files), where=self.rng.pick(["top", "middle", "bottom"]))
        self.git("add", "-A")
        self.mrec("stageAll")
        if self.git("commit", "-q", "--amend", "-m", "amended") == 0:
            self.mrec("amend")
        else:
            self.model_ok = False
        self.check_tip("after amend")
        return "amend"

    def t_squash_merge(self):
        self.base()
        self.git("switch", "-q", "-c", "feature")
        self.feature_commits(2 + self.rng.below(2))
        self.git("switch", "-q", "main")
        self.upstream_commits(1, self.rng.pick(["other-file", "above", "below"]))
        rc = self.git("merge", "--squash", "feature")
        if rc == 0:
            self.mrec("squash", src="feature", ys=self.tree_ids())
            if self.git("commit", "-q", "-m", "squashed") == 0:
                self.mrec("commit")
        else:
            self.model_ok = False
            self.git("reset", "--hard")
        self.check_tip("after merge --squash")
        return "merge-squash"

    def t_reset_recommit(self, mode):
        self.base()
        n = 1 + self.rng.below(2)
        self.feature_commits(n + 1)
        if self.rng.chance(1, 2):
            self.edit(self.rng.pick(["s1", "human"]), self.rng.pick(self.files), where="top")   # uncommitted work on top
        if self.git("reset", mode, f"HEAD~{n}") == 0:
            self.mrec("reset", n=n, soft=(mode == "--soft"))
        else:
            self.model_ok = False
        self.commit("recommitted")
        self.check_tip(f"after reset {mode} + commit")
        return f"reset{mode}"

    def t_stash(self, upstream):
        self.base()
        p = self.files[0]
        self.edit("s1", p, where="middle"); self.edit("s2", self.files[-1], where="bottom")
        if self.rng.chance(1, 2):
            self.edit("human", p, where="bottom")
        rc = self.git("stash")
        if rc == 0:
            self.mrec("stashPush")
        else:
            self.model_ok = False
        if upstream != "none":
            self.upstream_commits(1, upstream)
        rc = self.git("stash", "pop")
        if rc != 0:
            self.model_ok = False
            self.git("checkout", "-f"); self.git("stash", "drop")
            return f"stash:{upstream}:conflict"
        self.mrec("stashPop", ys=self.tree_ids())
        self.commit("after pop")
        self.check_tip("after stash pop + commit")
        return f"stash:{upstream}"

    def t_switch_carry(self, how):
        self.base()
        self.git("branch", "other")
        self.git("switch", "-q", "other"); self.edit("human", "other.txt", where="bottom"); self.commit("other work")
        self.git("switch", "-q", "main")
        self.edit("s1", self.files[0], where="middle"); self.edit("human", self.files[0], where="bottom")
        self.carry = True
        if how == "switch":
            rc = self.git("switch", "-q", "other")
        elif how == "checkout-m":
            rc = self.git("checkout", "-q", "-m", "other")
            if rc == 0:
                self.mrec("switchMerge", name="other", ys=self.tree_ids())
        else:
            rc = self.git("switch", "-q", "-c", "fresh")
        self.carry = False
        if rc != 0:
            self.model_ok = False
        self.commit("carried")
        self.check_tip(f"after {how} + commit")
        return f"switch-carry:{how}"

    # ------------------------------------------------------------ fixed regression scenarios (run first)
    def put(self, who, p, pos, texts=None, replace=None):
        """explicit edit: insert `texts` at `pos`, or replace line `pos` by the text `replace`"""
        ls = self.lines(p)
        if who != "human":
            self.r.human_checkpoint([p])
        new = texts if texts is not None else [replace]
        for t in new:
            self.ghost[norm(t)] = None if who == "human" else who
        if texts is not None:
            ls[pos:pos] = texts
        else:
            ls[pos] = replace
        self.write(p, ls)
        if who != "human":
            self.r.ai_checkpoint(who, [p], tool=S.TOOL)
        self.mfiles.add(p)
        self.mrec("human" if who == "human" else "ai", path=p, s=int(who[1:]) if who != "human" else 0, ys=[self.lid(l) for l in ls])
        self.log.append({"op": "put", "who": who, "path": p, "pos": pos, "texts": new})

    def t_fixed_pending(self, which):
        """witnesses of two repaired losses of pending AI lines (ghost oracle only: the per-file model script has no
        partial commit / path checkout):
        stash-after-partial-commit  agent inserts 2 lines in f; a partial commit of ANOTHER file leaves them pending in
                                    INITIAL; plain `git stash` (no subcommand); `git stash pop`; commit (d7a2861e, stash_hooks.rs)
        stage-edit-checkout         agent inserts a line; `git add f`; a person appends a line; `git checkout -- f`; commit:
                                    the staged AI line survives (5855e9da, checkout_hooks.rs)"""
        self.model_ok = False
        self.base(nfiles=2)
        f, other = self.files[0], self.files[1]
        if which == "stash-after-partial-commit":
            self.put("s1", f, 3, ["P1 ai pending", "P2 ai pending"])
            self.put("human", other, 2, ["P3 person other file"])
            self.git("add", other)
            self.git("commit", "-q", "-m", "partial: the other file only")
            self.git("stash")
            self.git("stash", "pop")
            self.commit("after stash pop")
            self.check_tip("after partial commit + stash + pop + commit")
        else:
            self.put("s1", f, 1, ["Q1 ai staged"])
            self.git("add", f)
            ls = self.lines(f)
            self.ghost[norm("Q2 person unstaged")] = None
            self.write(f, ls + ["Q2 person unstaged"])
            self.git("checkout", "--", f)
            self.commit("after path checkout")
            self.check_tip("after add + edit + checkout -- f + commit")
        return which

    def t_fixed_pairing(self, which):
        """witnesses of the repaired copy of a source note onto the rewritten commit AT THE SAME POSITION of the
        range (082b3ae9, rebase_authorship.rs:note_carried_over_without_lines; Lean: regression_fixup_person_commit_next,
        regression_reorder_person_commit_first, regression_cherry_pick_ai_line_already_upstream; the replay pairs source and new commits by position, oldest first). A rewritten commit in which the
        replay found no AI line got the raw note of its positional partner, line numbers included; after `fixup` /
        `squash` (two source commits become one new commit) and after a reorder the partner is another change, and
        its line numbers landed on whatever the new commit put there:
        fixup|squash-person-commit-next   feat 0: session 1 adds a line; feat 1: session 2 adds a line below it
                                          (note: line 6); feat 2: a person adds a line between them (line 6 of that
                                          commit); `fixup`/`squash` feat 1 into feat 0: new commits [feat 0+1, feat 2],
                                          the partner of the new feat 2 is the source feat 1
        reorder-person-commit-first       feat 0: session 2 adds line 6; feat 1: a person adds lines 4-7 higher up;
                                          the two are swapped: the partner of the new feat 1 is the source feat 0
        Upstream changes another file only (the tracked file is the same, so the line numbers collide).
        cherry-pick-ai-line-already-upstream   the same copy in rewrite_authorship_after_cherry_pick, with the RIGHT partner:
                                          the picked commit adds a person's line (line 4) and, further down, session 1's
                                          line (note: line 7); upstream has typed that very line already (a person: the text
                                          is theirs now) below three new lines at the top. The new commit adds the person's
                                          line only - at line 7 - and the replay finds no AI line in it."""
        self.base(nfiles=1)
        p = self.files[0]
        self.upmode = "other-file"
        self.git("switch", "-q", "-c", "feature")
        if which.startswith("cherry-pick"):
            self.upmode = "above"
            self.put("human", p, 3, ["Y2 person"]); self.put("s1", p, 6, ["Y1 ai one"])
            sha = self.commit("feat 0")
            self.git("switch", "-q", "main")
            self.put("human", p, 0, ["U1 upstream", "U2 upstream", "U3 upstream"]); self.put("human", p, 8, ["Y1 ai one"])
            self.commit("up")
            orig = self.r.head()
            if self.git("cherry-pick", sha) == 0:
                self.mrec("cherryPick", src="feature", skip=0, news=self.news_since(orig))
            else:
                self.git("cherry-pick", "--abort")
                self.model_ok = False
                self.failures.append(("regression-scenario-did-not-run", {"which": which, "log": self.log[-4:]}))
            self.check_tip("after cherry-pick")
            return which
        if which.startswith("reorder"):
            self.put("s2", p, 5, ["Y1 ai two"]); self.commit("feat 0")
            self.put("human", p, 3, ["Y2 person", "Y3 person", "Y4 person", "Y5 person"]); self.commit("feat 1")
            n, mode = 2, "reorder"
        else:
            self.put("s1", p, 4, ["Y1 ai one"]); self.commit("feat 0")
            self.put("s2", p, 5, ["Y2 ai two"]); self.commit("feat 1")
            self.put("human", p, 5, ["Y3 person"]); self.commit("feat 2")
            n, mode = 3, which.split("-")[0]
        self.git("switch", "-q", "main")
        self.put("human", "upstream.txt", 0, ["U1 upstream"]); self.commit("up")
        self.git("switch", "-q", "feature")
        script = os.path.join(self.env.root, "seq.py")
        open(script, "w").write(SEQ_EDITOR)
        rc = self.git("rebase", "-i", "main", env={"GIT_SEQUENCE_EDITOR": f"python3 {script} {mode}"})
        if rc == 0:
            self.mrec("rebase", onto="main", drop=n, news=self.news_since("main"))
        else:
            self.git("rebase", "--abort")
            self.model_ok = False
            self.failures.append(("regression-scenario-did-not-run", {"which": which, "log": self.log[-4:]}))
        self.check_tip("after rebase")
        return which

    def t_fixed(self, which):
        """witnesses of the two repaired defects of the content-replay path (13fa6d80, f7e364fb)"""
        if which in FIXED_PENDING:
            return self.t_fixed_pending(which)
        if which in FIXED_PAIRING:
            return self.t_fixed_pairing(which)
        self.base(nfiles=1)
        p = self.files[0]
        self.upmode = "above"
        self.git("switch", "-q", "-c", "feature")
        if which.startswith("mixed-block"):
            self.put("s1", p, 4, ["X1 ai one"]); self.put("human", p, 5, ["X2 person"]); self.put("s2", p, 6, ["X3 ai two"])
            shas = [self.commit("feat mixed")]
        else:
            author1 = "human" if which.endswith("-human") else "s2"
            base_line = self.lines(p)[4]
            self.put(author1, p, 4, replace=base_line + " m1"); self.put("s2", p, 6, ["X4 ai"])
            shas = [self.commit("feat 1")]
            self.put("s1", p, 4, replace=base_line + " m1 m2")
            shas.append(self.commit("feat 2"))
        self.git("switch", "-q", "main")
        self.put("human", p, 0, ["U1 upstream"]); self.commit("up")
        if which == "mixed-block-cherry-pick":
            orig = self.r.head()
            if self.git("cherry-pick", shas[0]) == 0:
                self.mrec("cherryPick", src="feature", skip=0, news=self.news_since(orig))
            else:
                self.model_ok = False
            self.check_tip("after cherry-pick")
            return which
        self.git("switch", "-q", "feature")
        if which == "mixed-block-rebase":
            rc = self.git("rebase", "main"); n = 1
        else:
            script = os.path.join(self.env.root, "seq.py")
            open(script, "w").write(SEQ_EDITOR)
            mode = "drop" if "drop" in which else "keep"
            rc = self.git("rebase", "-i", "main", env={"GIT_SEQUENCE_EDITOR": f"python3 {script} {mode}"}); n = 2
        if rc == 0:
            self.mrec("rebase", onto="main", drop=n, news=self.news_since("main"))
        else:
            self.model_ok = False
        self.check_tip("after rebase")
        if which.startswith("rewritten-later-keep"):
            self.r.plain_git("checkout", "-q", "HEAD~1")       # the rebased EARLIER commit
            self.check_tip_plain("at the rebased earlier commit")
        return which

    def check_tip_plain(self, where):
        """ghost oracle only (no model observation): used at a detached older commit"""
        n_obs, n_ops = len(self.obs), len(self.mops)
        self.check_tip(where)
        del self.obs[n_obs:]; del self.mops[n_ops:]

    def t_noop_ops(self):
        """failing / dry-run operations must leave notes and pending attribution untouched"""
        self.base()
        self.feature_commits(1)
        self.edit("s1", self.files[0], where="middle")       # pending AI work
        self.r.ai("checkpoint")
        self.mrec("hcp")
        before = self.snapshot_private()
        which = self.rng.pick(["commit-dry-run", "cherry-pick-bad", "rebase-dirty", "merge-bad", "reset-bad", "stash-pop-empty",
                               "commit-nothing-staged", "checkout-bad-branch"])
        if which == "commit-dry-run": self.git("commit", "--dry-run", "-a")
        elif which == "cherry-pick-bad": self.git("cherry-pick", "deadbeef")
        elif which == "rebase-dirty": self.git("rebase", "HEAD~1")
        elif which == "merge-bad": self.git("merge", "no-such-branch")
        elif which == "reset-bad": self.git("reset", "--soft", "no-such-rev")
        elif which == "stash-pop-empty": self.git("stash", "pop")
        elif which == "commit-nothing-staged": self.git("commit", "-m", "nothing")
        else: self.git("checkout", "no-such-branch")
        self.mrec("aborted")
        self.expect_unchanged(before, which)
        self.commit("finally")
        self.check_tip("after no-op + commit")
        return f"noop:{which}"


SEQ_EDITOR = '''import sys
mode, path = sys.argv[1], sys.argv[2]
lines = [l for l in open(path).read().split("\\n")]
picks = [i for i, l in enumerate(lines) if l.startswith("pick ")]
if mode == "reorder" and len(picks) >= 2:
    a, b = picks[0], picks[1]
    lines[a], lines[b] = lines[b], lines[a]
elif mode in ("squash", "fixup") and len(picks) >= 2:
    lines[picks[1]] = mode + lines[picks[1]][4:]
elif mode == "drop" and len(picks) >= 2:
    lines[picks[-1]] = "drop" + lines[picks[-1]][4:]
open(path, "w").write("\\n".join(lines))
'''

FIXED_PENDING = ["stash-after-partial-commit", "stage-edit-checkout"]
FIXED_PAIRING = ["fixup-person-commit-next", "squash-person-commit-next", "reorder-person-commit-first", "cherry-pick-ai-line-already-upstream"]
FIXED = ["mixed-block-rebase", "mixed-block-cherry-pick", "rewritten-later-drop", "rewritten-later-keep", "rewritten-later-drop-human"] + FIXED_PENDING + FIXED_PAIRING

TEMPLATES = [("fixed:" + w, (lambda w: lambda s: s.t_fixed(w))(w)) for w in FIXED] + [
    ("rebase", lambda s: s.t_rebase()), ("rebase-onto", lambda s: s.t_rebase(onto=True)),
    ("rebase-i-reorder", lambda s: s.t_rebase(interactive="reorder")), ("rebase-i-squash", lambda s: s.t_rebase(interactive="squash")),
    ("rebase-i-fixup", lambda s: s.t_rebase(interactive="fixup")), ("rebase-i-drop", lambda s: s.t_rebase(interactive="drop")),
    ("conflict-continue", lambda s: s.t_rebase_conflict("continue")), ("conflict-abort", lambda s: s.t_rebase_conflict("abort")),
    ("conflict-skip", lambda s: s.t_rebase_conflict("skip")),
    ("cherry-pick", lambda s: s.t_cherry_pick("single")), ("cherry-pick-range", lambda s: s.t_cherry_pick("range")),
    ("cherry-pick-n", lambda s: s.t_cherry_pick("n")),
    ("amend", lambda s: s.t_amend()), ("merge-squash", lambda s: s.t_squash_merge()),
    ("reset-soft", lambda s: s.t_reset_recommit("--soft")), ("reset-mixed", lambda s: s.t_reset_recommit("--mixed")),
    ("stash", lambda s: s.t_stash("none")), ("stash-upstream-other", lambda s: s.t_stash("other-file")),
    ("stash-upstream-above", lambda s: s.t_stash("above")),
    ("switch-carry", lambda s: s.t_switch_carry("switch")), ("switch-c", lambda s: s.t_switch_carry("switch-c")),
    ("checkout-m", lambda s: s.t_switch_carry("checkout-m")),
    ("noop", lambda s: s.t_noop_ops()),
    ("rebase-after-noop", lambda s: s.t_rebase_after_unfinished("noop")),
    ("rebase-after-abort", lambda s: s.t_rebase_after_unfinished("abort")),
]


def family(tname, sc):
    """failure-signature family: the operation, refined by the history shape that matters. For rebase
    and cherry-pick the note-copy shortcut applies when upstream did not touch the files the range
    touched ("upstream-other-file"); otherwise the content-replay path runs, which carries known
    findings."""
    up = getattr(sc, "upmode", None)
    if tname.startswith("fixed:") and tname[6:] in FIXED_PENDING:
        return tname[6:]
    if tname.startswith("fixed:"):
        return "cherry-pick[upstream-touches-tracked-file]" if "cherry-pick" in tname else (
            "rebase[upstream-touches-tracked-file]" if tname.endswith("mixed-block-rebase") else "rebase-interactive")
    if tname.startswith("conflict"):
        return "rebase-" + tname
    if tname.startswith("rebase-after"):
        return tname
    if tname.startswith("rebase-i-"):
        return "rebase-interactive"          # reorder/squash/fixup/drop change the commit mapping: always replayed
    if tname.startswith("rebase") or tname.startswith("cherry-pick"):
        base = "rebase" if tname.startswith("rebase") else tname
        if up is None:
            return base
        return base + ("[upstream-other-file]" if up == "other-file" else "[upstream-touches-tracked-file]")
    return tname


REPLAY_FAMILIES = ("rebase[upstream-touches-tracked-file]", "rebase-conflict-continue", "rebase-interactive",
                   "cherry-pick[upstream-touches-tracked-file]", "cherry-pick-range[upstream-touches-tracked-file]")


def full_sig(fam, sig, d):
    """family:kind, refined for the two recorded findings of the content-replay path:
    * a line an agent typed into a still UNMERGED file while the rebase was stopped at a conflict comes out human (the
      checkpoint skips unmerged files; lines whose checkpoint was recorded are credited since the repair of
      credit_lines_recorded_while_stopped and have no classifier);
    * a person's line that a later commit of the rewritten range (an agent's) changed again is credited to
      that later session in the rebased version of the earlier commit (tokens of the final state survive
      the diff chain).
    Blocks of several authors and AI lines rewritten later in the range were repaired in /repo
    (13fa6d80, f7e364fb), and so was the raw copy of the positional partner's note onto a rewritten commit
    without AI lines (082b3ae9; squash / fixup / reorder): no classifier for them, they are reported as violations."""
    if sig == "human-tweak-of-ai-line-still-ai":
        return sig
    base = fam.split("+tail-")[0]
    if base == "rebase-conflict-continue" and sig == "surviving-ai-line-lost" and d.get("typed_by_agent_in_unmerged_file"):
        return f"{fam}:{sig}:typed-by-agent-in-unmerged-file"
    if base in REPLAY_FAMILIES and sig == "human-line-became-ai" and d.get("rewritten_later_by_have"):
        return f"{fam}:{sig}:line-rewritten-by-a-later-commit-of-the-range"
    return f"{fam}:{sig}"


def run_one(args, _attempt=0):
    seed, tname = args
    fn = dict(TEMPLATES)[tname]
    try:
        with e2e.Env() as env:
            sc = Sc(env, seed)
            tag = fn(sc)
            fam = family(tname, sc)
            n_first = len(sc.failures)
            if not sc.failures and not tname.startswith("fixed:") and tname not in ("noop", "switch-carry", "switch-c", "checkout-m", "cherry-pick-n") and sc.rng.chance(1, 2):
                t = sc.tail()
                if t:
                    tag = f"{tag}+{t}"
                    if len(sc.failures) > n_first:
                        fam = f"{fam}+tail-{t}"
            md = {"ok": sc.model_ok, "mops": sc.mops, "obs": sc.obs, "files": sorted(sc.mfiles)}
            return tname, tag, [(full_sig(fam, sig, d), d) for sig, d in sc.failures], sc.log, md
    except Exception as ex:
        if _attempt < 2:
            return run_one(args, _attempt + 1)     # transient environment trouble (busy machine): retry
        return tname, "exception", [("runner-exception", {"error": repr(ex), "trace": traceback.format_exc()[-1500:]})], [], None


def model_script(mops, path):
    """the per-file script for the Lean driver op `rw_run`"""
    out = []
    for o in mops:
        k = o["k"]
        if k in ("human", "ai"):
            if o["path"] == path:
                out.append({"k": k, "s": o["s"], "ys": o["ys"]})
        elif k in ("rebase", "cherryPick"):
            n = len(next(iter(o["news"].values()), []))
            out.append({**o, "news": o["news"].get(path, [[] for _ in range(n)])})
        elif k in ("squash", "stashPop", "switchMerge"):
            out.append({**o, "ys": o["ys"].get(path, [])})
        else:
            out.append(o)
    return out


SESSION_HASH = {}


def session_hash(n):
    if n not in SESSION_HASH:
        SESSION_HASH[n] = S.hash_of(f"s{n}")
    return SESSION_HASH[n]


def model_phase(res, jobs, outs):
    """Correspondence: the Lean model (Model/Rewrite.lean), fed what the runner did and the file
    contents git produced for rewritten commits, predicts blame at every observation point."""
    reqs, index = [], []
    for (seed, tname), o in zip(jobs, outs):
        md = o[4]
        if not md or not md["ok"]:
            res.tag(["model=not-modelled"])
            continue
        res.tag(["model=compared"])
        for p in md["files"]:
            reqs.append({"op": "rw_run", "script": model_script(md["mops"], p)})
            index.append((seed, tname, p, md, o[2]))
    if not reqs:
        return
    resps = C.run_driver(reqs)
    ncmp = nbad = nexplained = 0
    first = None
    for (seed, tname, p, md, failures), req, r in zip(index, reqs, resps):
        mobs = r.get("obs")
        if mobs is None:
            nbad += 1
            first = first or {"seed": seed, "template": tname, "path": p, "driver": r}
            continue
        # token-level findings the line-identity model cannot see (tokens of an older version of a line keep
        # their author) and the unsupported `cherry-pick -n`; everything else must agree with the model
        explained = any(sig == "human-tweak-of-ai-line-still-ai" or sig.endswith(":line-rewritten-by-a-later-commit-of-the-range")
                        or sig.startswith("cherry-pick-n") for sig, _ in failures)
        for j, real in enumerate(md["obs"]):
            if p not in real or j >= len(mobs):
                continue
            pred = {str(y): session_hash(s_) for y, s_ in mobs[j]["blame"]}
            ncmp += 1
            if pred != real[p]:
                if explained:
                    nexplained += 1      # the ghost oracle already reports this scenario (finding or violation)
                    continue
                nbad += 1
                first = first or {"seed": seed, "template": tname, "path": p, "observation": j, "predicted": pred,
                                  "observed": real[p], "request": req}
    res.obligation("correspondence:rewrite-e2e (Rewrite model's predicted blame vs blame of the binary at every tip)", nbad == 0, "correspondence")
    cs = res.extra.setdefault("correspondence", {}).setdefault("rewrite-e2e", {"compared": 0, "disagreements": 0, "explained_by_oracle": 0})
    cs["compared"] += ncmp; cs["disagreements"] += nbad; cs["explained_by_oracle"] += nexplained
    if nbad:
        res.broken_tie("correspondence:rewrite-e2e", {"disagreements": nbad, "of": ncmp, "first": first})


RANDOM_TEMPLATES = [t for t in TEMPLATES if not t[0].startswith("fixed:")]


def phase(res, seeds, threads=16, fixed=False):
    jobs = [(s, RANDOM_TEMPLATES[i % len(RANDOM_TEMPLATES)][0]) for i, s in enumerate(seeds)]
    if fixed:
        jobs = [(seeds[0], "fixed:" + w) for w in FIXED] + jobs
    with concurrent.futures.ThreadPoolExecutor(threads) as ex:
        outs = list(ex.map(run_one, jobs))
    model_phase(res, jobs, outs)
    for (seed, tname), (_, tag, failures, log, _md) in zip(jobs, outs):
        res.count_case(json.dumps(log, ensure_ascii=False), nontrivial=len(log) > 4)
        res.tag([f"template={tname}", f"variant={tag}"])
        res.sample({"seed": seed, "template": tname, "log": log[:14]}, cap=3)
        seen = set()
        for sig, d in failures:
            if sig in seen:
                continue
            seen.add(sig)
            res.oracle_failure(sig, {"seed": seed, "template": tname, "variant": tag, "detail": d, "log": log}, what=f"end-to-end oracle {sig} in template {tname}")


def run(tier, seed):
    res = C.Result(PROP, tier, seed)
    res.rule = ("end-to-end: 11 fixed regression scenarios — 5 of the content-replay path (block of several authors through rebase / cherry-pick; a line rewritten by a later commit of the range, kept / dropped / written by a person), 2 of pending AI lines (plain `git stash` after a partial commit of another file; `git checkout -- f` after staging an AI line and editing further) and 4 of the note a rewritten commit gets when the replay finds no AI line in it (`rebase -i` with fixup / squash of the commit before a person's commit, a reorder that puts a person's commit first, a cherry-pick whose AI line upstream already has: the raw note of the source commit at the same position must not bring its line numbers) — run first, then 25 scenario templates (rebase plain/--onto/-i reorder|squash|fixup|drop, conflict continue|abort|skip, "
                "cherry-pick single|range|-n, amend, merge --squash, reset --soft|--mixed + recommit, stash/pop with upstream "
                "changes, switch/checkout -m carrying work, failing and dry-run operations, a real rebase after a no-op or aborted one) with randomised edits, sessions and "
                "upstream change positions (other file, above, below, both); non-trivial = more than 4 executed steps")
    res.rule += ("; correspondence: for every template the model has (all but cherry-pick -n; conflict continuation included: the lines typed during the stop are a `typed` step — by a person or an agent, in the conflicted file before `git add` (checkpoint skipped: known finding), after `git add`, or in a file without conflict (checkpoint recorded: `rec`, credited by the replay of the continued operation, ROp.replayR), optionally followed by a person's unreported line — before the replay) the Lean model Model/Rewrite.lean is fed the runner's steps and the file contents "
                 "git produced for rewritten commits, and its predicted blame is compared with the binary's at every observation point")
    res.trusted = ["Lean 4.33 kernel", "extract/rewrite_hooks.py (textual extraction of the start/continue decision)",
                   "vlib/props/c02.py text-identity ghost tracking and model-script recording", "real git 2.39 (its rebase / "
                   "cherry-pick / merge / stash results are inputs of the model)"]
    ok, out = C.build_git_ai()
    if not ok:
        res.obligation("build binary from /repo working tree", False, "build")
        res.broken_tie("build", out[-3000:])
        return res.finish()
    # start / continue decisions of the rebase and cherry-pick hooks, re-read from the current source
    try:
        import importlib.util
        spec = importlib.util.spec_from_file_location("extract_rewrite_hooks", os.path.join(C.VERIF, "extract", "rewrite_hooks.py"))
        X = importlib.util.module_from_spec(spec); spec.loader.exec_module(X)
        res.extra["extraction"] = X.main()
        res.obligation("extract start/continue decisions of rebase_hooks.rs and cherry_pick_hooks.rs", True, "extraction")
    except Exception as ex:
        res.obligation("extract start/continue decisions of rebase_hooks.rs and cherry_pick_hooks.rs", False, "extraction")
        res.broken_tie("extract:rewrite_hooks", repr(ex))
    if os.path.exists(os.path.join(C.LEAN, "GitAiModel", "Props", "C02.lean")):
        C.phase_proofs(res, PROP, THEOREMS)
    n = 75 if tier == "quick" else 1500
    phase(res, [seed * 100000 + i for i in range(n)], fixed=True)
    if res.broken and not res.violations:
        # a proof obligation or the correspondence no longer checks: look for a concrete failing history
        phase(res, [seed * 100000 + 50000 + i for i in range(230)])
        res.extra["search"] = "230 extra end-to-end scenarios (ghost oracle at every tip, byte comparison around aborted operations)"
    return res.finish()
