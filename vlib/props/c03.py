"""C03 — nothing a person wrote is ever attributed to an AI session (DESIGN §8 C03).

Random walks over the supported porcelain (destructive commands included) interleaved with AI
and human edits. Oracle (content based, as the property is): every line that blame or any note
reports as written by session S has a content that S reported writing (modulo whitespace).
"""
import concurrent.futures, json, os, traceback

from vlib import common as C, e2e, sysrun as S, split_corr
from vlib.props import c03_discard as D

PROP = "C03"
THEOREMS = ["GitAi.Sys.no_invention", "GitAi.Sys.ghost_only_from_agent_edit", "GitAi.Sys.restore_is_valid_edit",
            "GitAi.Sys.no_invention_all_ops", "GitAi.Sys.no_invention_all_ops_note", "GitAi.Sys.head_line_not_listed_all_ops", "GitAi.Sys.discard_drops_claims",
            "GitAi.Sys.regression_O3_stale_initial_after_path_checkout", "GitAi.Sys.regression_O20_initial_by_line_number_after_restore",
            "GitAi.Sys.regression_O17_stale_entry_after_restore", "GitAi.Sys.regression_O21_stash_drop_stale_entry",
            "GitAi.Sys.path_checkout_exact", "GitAi.Sys.regression_path_checkout_keeps_staged_ai_line",
            "GitAi.Sys.witness_path_checkout_loses_line_removed_after_staging",
            "GitAi.Sys.no_invention_ws_step_partial", "GitAi.Sys.reset_keeps_reindented_lines_of_target"]
# findings the line-identity model cannot see (token level / commit coordinates): runs in which the content oracle
# reports one of them are not held against the model
TOKEN_PAIR_SIG = "token-pairing-with-deleted-line-of-same-hunk"
EXPLAINED = ("reconstruction-keeps-ai-on-line-rewritten-by-person", "line-added-by-commit-was-modified-again-unstaged", TOKEN_PAIR_SIG)
SESS = ["s1", "s2"]
HASH2S = {S.hash_of(s): s for s in SESS}


def norm(t):
    return "".join(t.split())


class Walk:
    def __init__(self, env, seed):
        self.env = env
        self.r = env.repo("r")
        self.rng = S.Rng(seed ^ 0xC03)
        self.uid = 0
        self.wrote = {s: set() for s in SESS}
        self.steps = []
        self.tainted = set()      # files hit by the known stale-INITIAL family
        self.failures = []
        self.branches = ["main"]
        self.commits = []
        self.overlap = {}         # sha -> {path: lines added by the commit AND modified again (unstaged) at commit time}
        self.human_inplace = set()  # files in which a person rewrote/modified lines in place
        self.human_reindent = set()  # files in which a person re-indented lines (whitespace only)
        self.recon_reindent = set()  # ... and that then went through an attribution reconstruction
        self.recon_taint = set()    # ... and that then went through an attribution reconstruction
        self.recon_gone = set()     # (path, session): a line the session wrote into path was gone when a reconstruction ran
        self.ai_lines = {}          # path -> session -> texts (normalised) the session wrote into that file
        self.obs = []               # what the oracle saw at every check (for correspondence:discard-e2e)
        self.state = None           # (head, stash depth) after the last git command

    # ---------------------------------------------------------------- helpers
    def files(self):
        rc, out, _ = self.r.plain_git("ls-files", "-z")
        tracked = [p for p in out.split("\0") if p]
        extra = [p for p in ("f1.txt", "f2.txt", "d/f3.txt") if p not in tracked and self.r.exists(p)]
        return tracked + extra

    def read_lines(self, p):
        try:
            return self.r.read(p).split("\n")[:-1] if self.r.read(p).endswith("\n") else self.r.read(p).split("\n")
        except Exception:
            return []

    def fresh(self, who):
        self.uid += 1
        w = self.rng.pick(["alpha", "beta();", "return x;", "}", "// note"])
        return f"{'ai-' + who if who != 'human' else 'hum'}-{self.uid} {w}"

    def mutate(self, lines, who):
        rng = self.rng
        lines = [l for l in lines if l != ""] if rng.chance(1, 20) else list(lines)
        new_texts = []
        kind = rng.pick(["insert", "insert", "replace", "delete", "modify", "append", "reindent"]) if lines else "insert"
        n = len(lines)
        if kind in ("insert", "append"):
            pos = n if kind == "append" else rng.below(n + 1)
            add = [self.fresh(who) for _ in range(1 + rng.below(3))]
            lines[pos:pos] = add
            new_texts += add
        elif kind == "replace":
            pos = rng.below(n); k = 1 + rng.below(min(3, n - pos))
            add = [self.fresh(who) for _ in range(1 + rng.below(3))]
            lines[pos:pos + k] = add
            new_texts += add
        elif kind == "delete":
            pos = rng.below(n); k = 1 + rng.below(min(2, n - pos))
            del lines[pos:pos + k]
        elif kind == "modify":
            pos = rng.below(n)
            self.uid += 1
            lines[pos] = lines[pos] + f" m{self.uid}"
            new_texts.append(lines[pos])
        else:
            pos = rng.below(n)
            lines[pos] = "    " + lines[pos].lstrip()
        return lines, new_texts, kind

    def initial_unconsumed(self, p):
        """p is listed in INITIAL of the current working log and no checkpoint entry for p exists yet."""
        ini = self.r.initial()
        if not ini or p not in (ini.get("files") or {}):
            return False
        for cp in self.r.checkpoints():
            for e in cp.get("entries", []):
                if e.get("file") == p:
                    return False
        return True

    def log(self, **kw):
        self.steps.append(kw)

    # ---------------------------------------------------------------- ops
    def op_edit(self, who):
        fs = self.files() or ["f1.txt"]
        p = self.rng.pick(fs + ["f1.txt", "f2.txt"])
        if who != "human":
            self.r.human_checkpoint([p])
            others = [q for q in fs if q != p]
            if others and self.rng.chance(1, 6):
                # while the agent is at work the person types in another file
                q = self.rng.pick(others)
                ql, _nt, qk = self.mutate(self.read_lines(q), "human")
                self.r.write(q, "".join(l + "\n" for l in ql))
                if qk != "reindent":
                    self.human_inplace.add(q)
                self.log(op="edit", who="human", path=q, kind=qk + "/during-agent-run", content=ql)
        elif self.initial_unconsumed(p):
            self.tainted.add(p)
        lines, new_texts, kind = self.mutate(self.read_lines(p), who)
        self.r.write(p, "".join(l + "\n" for l in lines))
        if who != "human":
            for t in new_texts:
                self.wrote[who].add(norm(t))
                self.ai_lines.setdefault(p, {}).setdefault(who, set()).add(norm(t))
            self.r.ai_checkpoint(who, [p], tool=S.TOOL)
        if who == "human" and kind != "reindent":
            # inserting next to / deleting / replacing AI lines can all amount to rewriting them in place
            self.human_inplace.add(p)
        if who == "human" and kind == "reindent":
            self.human_reindent.add(p)
        self.log(op="edit", who=who, path=p, kind=kind, content=lines)

    RECON = (("reset", "--soft"), ("reset", "--mixed"), ("stash", "pop"), ("stash", "apply"), ("rebase",), ("cherry-pick",),
             ("merge",), ("commit", "-q", "--amend"), ("revert",))

    def git_state(self):
        rc, out, _ = self.r.plain_git("stash", "list")
        rc2, cnt, _ = self.r.plain_git("rev-list", "--count", "--first-parent", "HEAD")
        return self.r.head(), len([l for l in out.split("\n") if l.strip()]), int(cnt.strip() or 0) if rc2 == 0 else 0

    def git(self, *args):
        h0, n0, d0 = self.state or self.git_state()
        ov = self.override_lines(args)
        rc, out, err = self.r.git(*args)
        h1, n1, d1 = self.state = self.git_state()
        self.log(op="git", args=list(args), rc=rc, head0=h0, head1=h1, nstash0=n0, nstash1=n1, depth0=d0, depth1=d1,
                 files={p: self.read_lines(p) for p in self.files() if self.r.exists(p)})
        ws = self.ws_lines(args, rc, h0, h1)
        if ws:
            self.steps[-1]["ws"] = ws
        if ov and rc == 0:
            self.steps[-1]["ov"] = ov
        if rc == 0 and args and args[0] == "revert" and h0 != h1:
            # a revert commit puts the previous text of the lines back: an in-place rewrite nobody typed
            rcn, names, _ = self.r.plain_git("diff", "--name-only", "-z", h0, h1)
            self.human_inplace |= {n for n in names.split("\0") if n}
        if rc == 0 and any(tuple(args[:len(k)]) == k for k in self.RECON):
            self.recon_taint |= self.human_inplace
            self.recon_reindent |= self.human_reindent
            for q in list(self.ai_lines):
                for s_ in SESS:
                    if self.gone_lines(q, q, s_):
                        self.recon_gone.add((q, s_))
        return rc

    def show_lines(self, rev, p):
        rc, out, _ = self.r.plain_git("show", f"{rev}:{p}")
        return out.split("\n") if rc == 0 else []

    def override_lines(self, args):
        """For the correspondence: before `commit --amend` / `reset --soft|--mixed`, the lines for which the latest
        working-log entry of a file holds an explicit attribution to the PERSON (author `human`, written when a
        person's change replaced an agent's lines). For `merge_attributions_favoring_first(working log, blame)`
        such a line is attributed, not a gap: blame does not fill it. The line-identity model has no such
        attribution (a person's line and a line nobody claims are the same `none`); it takes the lines as an
        input (`hum` of Model/Discard.lean mergedAuthorWs). → {path: [line texts]} or None"""
        a = [x for x in args if x != "-q"]
        if not (a[:1] == ["commit"] and "--amend" in a) and not (a[:1] == ["reset"] and a[1:2] in (["--soft"], ["--mixed"])):
            return None
        latest = {}
        try:
            base = self.r.head() or "initial"
            for cp in self.r.checkpoints(base):
                for e in cp.get("entries", []):
                    latest[e.get("file")] = e
            out = {}
            for p, e in latest.items():
                nums = [n for la in e.get("line_attributions") or [] if la.get("author_id") == "human"
                        for n in range(la["start_line"], la["end_line"] + 1)]
                if not nums:
                    continue
                blob = os.path.join(self.r.ai_dir(), "working_logs", base, "blobs", e.get("blob_sha") or "-")
                lines = open(blob, encoding="utf-8", errors="replace").read().split("\n")
                hit = [lines[n - 1] for n in nums if 1 <= n <= len(lines) and norm(lines[n - 1]) != ""]
                if hit:
                    out[p] = hit
            return out or None
        except Exception:
            return None

    def ws_lines(self, args, rc, h0, h1):
        """For the correspondence (vlib/props/c03_discard.py): the lines that git sees as ADDED by this commit
        (amended commit: relative to its parent) / as absent from the commit a `reset --soft|--mixed HEAD~1`
        moved to, although the older content holds the same text in another whitespace form. The model's
        line ids do not see whitespace; which lines these are is git's business and an input of the model
        (Model/Discard.lean `commitStepWs`, `amendStepWs`, `resetStepWs`). → {path: [line texts]} or None"""
        if rc != 0 or not args or not h1:
            return None
        a = [x for x in args if x != "-q"]
        if a[0] == "commit" and h0 != h1:
            old, new = (f"{h1}^", h1)
            newc = lambda p: self.show_lines(new, p)
        elif a[0] == "reset" and a[1:2] in (["--soft"], ["--mixed"]) and a[2:] == ["HEAD~1"] and h0 != h1:
            old = h1
            newc = lambda p: self.read_lines(p)
        else:
            return None
        out = {}
        for p in self.files():
            if not self.r.exists(p):
                continue
            ol = self.show_lines(old, p)
            exact = set(ol)
            mod = set(norm(l) for l in ol)
            hit = [l for l in newc(p) if l not in exact and norm(l) != "" and norm(l) in mod]
            if hit:
                out[p] = hit
        return out or None

    def op_commit(self):
        mode = self.rng.below(4)
        if mode == 0:
            fs = self.files()
            if fs:
                p = self.rng.pick(fs)
                self.git("add", "--", p)
                rc = self.git("commit", "-q", "-m", f"partial {len(self.commits)}")
            else:
                rc = 1
        elif mode == 1 and self.commits:
            self.git("add", "-A")
            rc = self.git("commit", "-q", "--amend", "-m", "amended")
        else:
            self.git("add", "-A")
            rc = self.git("commit", "-q", "-m", f"c{len(self.commits)}")
        if rc == 0:
            self.commits.append(self.r.head())
            self.record_overlap()

    def record_overlap(self):
        sha = self.r.head()
        rc, par, _ = self.r.plain_git("rev-parse", "--verify", "-q", sha + "^")
        parent = par.strip() if rc == 0 else "4b825dc642cb6eb9a060e54bf8d69288fbee4904"
        # commit lines the commit adds that an unstaged hunk replaces offset for offset (commit coordinates;
        # since /repo cfbf8496 the split compares them in commit coordinates too)
        ov = split_corr.replaced_committed_lines(self.r, parent, sha)
        if ov:
            self.overlap[sha] = ov

    def op_destructive(self):
        rng = self.rng
        fs = self.files()
        p = rng.pick(fs) if fs else "f1.txt"
        choice = rng.below(21)
        dirs = sorted({f.rsplit("/", 1)[0] for f in fs if "/" in f})
        if choice == 16: self.git("stash", "push", "--", p)                       # stash only one path
        elif choice == 17 and dirs: self.git("checkout", "--", rng.pick(dirs) + "/")    # directory pathspec, trailing slash
        elif choice == 18 and dirs: self.git("restore", rng.pick(dirs))                 # directory pathspec, no slash
        elif choice == 19: self.git("checkout", p)                                  # path checkout without `--`
        elif choice == 20 and dirs: self.git("stash", "push", "--", rng.pick(dirs) + "/")
        elif choice == 0: self.git("reset", "--hard")
        elif choice == 1 and len(self.commits) > 1: self.git("reset", "--hard", "HEAD~1")
        elif choice == 2 and len(self.commits) > 1: self.git("reset", "--soft", "HEAD~1")
        elif choice == 3 and len(self.commits) > 1: self.git("reset", "--mixed", "HEAD~1")
        elif choice == 4: self.git("reset")
        elif choice == 5: self.git("checkout", "--", p)
        elif choice == 6: self.git("checkout", "-f")
        elif choice == 7: self.git("restore", p)
        elif choice == 8: self.git("stash")
        elif choice == 9: self.git("stash", "pop")
        elif choice == 10: self.git("stash", "drop")
        elif choice == 11: self.git("restore", "--staged", p)
        elif choice == 12: self.git("rm", "-q", "-f", p)
        elif choice == 13 and fs:
            self.git("mv", p, p + ".moved" if not p.endswith(".moved") else p[:-6])
        elif choice == 14: self.git("stash", "apply")
        else: self.git("add", p)

    def op_branchy(self):
        rng = self.rng
        if not self.commits:
            return
        choice = rng.below(9)
        if choice == 0:
            b = f"b{len(self.branches)}"
            if self.git("switch", "-q", "-c", b) == 0:
                self.branches.append(b)
        elif choice == 1:
            self.git("switch", "-q", rng.pick(self.branches))
        elif choice == 2 and len(self.branches) > 1:
            b = rng.pick(self.branches[1:])
            if self.git("branch", "-D", b) == 0:
                self.branches.remove(b)
        elif choice == 3 and len(self.branches) > 1:
            rc = self.git("merge", "-q", "--no-edit", rng.pick(self.branches))
            if rc != 0:
                self.git("merge", "--abort")
        elif choice == 4 and len(self.branches) > 1:
            rc = self.git("rebase", "-q", rng.pick(self.branches))
            if rc != 0:
                self.git("rebase", "--abort")
        elif choice == 5:
            rc = self.git("cherry-pick", rng.pick(self.commits))
            if rc != 0:
                self.git("cherry-pick", "--abort")
        elif choice == 6:
            rc = self.git("revert", "--no-edit", "HEAD")
            if rc != 0:
                self.git("revert", "--abort")
        elif choice == 7 and len(self.branches) > 1:
            rc = self.git("merge", "--squash", rng.pick(self.branches))
            if rc != 0:
                self.git("reset", "--hard")
        else:
            self.git("checkout", "-q", rng.pick(self.branches))

    # ---------------------------------------------------------------- directed recipes
    DISCARDS = ["reset-hard", "checkout-dashdash", "checkout-path", "checkout-f", "restore", "restore-dir", "checkout-dir-slash",
                "stash-drop", "stash-pop", "stash-path-pop", "stash-dir-pop", "rm-recreate", "mv-back", "reset-mixed", "clean-edit",
                "switch-f", "stash-apply-drop", "checkout-m"]

    def directed_edit(self, who, p, lines, new_texts=()):
        """write `lines` to p as `who` (agent protocol for sessions) and log it like op_edit does"""
        if who != "human":
            self.r.human_checkpoint([p])
        self.r.write(p, "".join(l + "\n" for l in lines))
        if who != "human":
            for t in new_texts:
                self.wrote[who].add(norm(t))
                self.ai_lines.setdefault(p, {}).setdefault(who, set()).add(norm(t))
            self.r.ai_checkpoint(who, [p], tool=S.TOOL)
        else:
            self.human_inplace.add(p)
        self.log(op="edit", who=who, path=p, kind="directed", content=list(lines))

    def run_recipe(self, x, pending_via):
        """pending AI lines in two files (held in checkpoint entries, or in INITIAL after a partial commit);
        a destructive operation that discards or shelves them; the person types other text at the same
        positions; commit; oracle. Then one more human edit and commit (stale state may strike later)."""
        r, rng = self.r, self.rng
        f, g = "d/f3.txt", "f1.txt"
        for p in (f, g, "f2.txt"):
            r.write(p, "".join(self.fresh("human") + "\n" for _ in range(4 + rng.below(3))))
        r.git("add", "-A"); r.git("commit", "-q", "-m", "base")
        self.commits.append(r.head())
        self.log(op="base", files={p: self.read_lines(p) for p in (f, g, "f2.txt")})
        pos, ai_new = {}, {}
        for p in (f, g):
            ls = self.read_lines(p)
            k = 1 + rng.below(len(ls) - 1)
            new = [self.fresh("s1") for _ in range(2)]
            pos[p] = k
            ai_new[p] = new
            self.directed_edit("s1", p, ls[:k] + new + ls[k:], new)
        if pending_via in ("initial", "edited"):
            # a partial commit of something else leaves both files' AI lines pending in INITIAL
            self.directed_edit("human", "f2.txt", self.read_lines("f2.txt") + [self.fresh("human")])
            self.git("add", "--", "f2.txt")
            if self.git("commit", "-q", "-m", "partial") == 0:
                self.commits.append(r.head())
            if pending_via == "edited":
                # ... and the person types above the pending lines before the operation (no checkpoint in between):
                # whatever reads INITIAL now has to carry its line numbers over through the recorded content
                # (at the top of one file, directly above the pending block in the other: a claim that is applied by bare
                #  line number afterwards lands on the person's new line only in the second shape)
                for n_, p in enumerate((f, g)):
                    ls_ = self.read_lines(p)
                    at = 0 if n_ == 0 else pos[p]
                    self.directed_edit("human", p, ls_[:at] + [self.fresh("human")] + ls_[at:])
                    if at:
                        pos[p] += 1
        elif pending_via == "staged":
            # the AI lines are staged, then the person edits further: a path checkout / restore brings the STAGED
            # version (with the AI lines) back (replay of Props/C03.lean regression_path_checkout_keeps_staged_ai_line)
            self.git("add", "-A")
            for p in (f, g):
                self.directed_edit("human", p, self.read_lines(p) + [self.fresh("human")])
        # the discard
        if x == "reset-hard": self.git("reset", "--hard")
        elif x == "checkout-dashdash": self.git("checkout", "--", f)
        elif x == "checkout-path": self.git("checkout", f)
        elif x == "checkout-f": self.git("checkout", "-f")
        elif x == "restore": self.git("restore", f)
        elif x == "restore-dir": self.git("restore", "d")
        elif x == "checkout-dir-slash": self.git("checkout", "--", "d/")
        elif x == "stash-drop": self.git("stash", "push"); self.git("stash", "drop")
        elif x == "stash-pop":
            self.git("stash")
            self.directed_edit("human", "f2.txt", [self.fresh("human")] + self.read_lines("f2.txt"))
            self.git("add", "-A")
            if self.git("commit", "-q", "-m", "while stashed") == 0:
                self.commits.append(r.head())
            self.git("stash", "pop")
        elif x == "stash-path-pop":
            self.git("stash", "push", "--", f)
            self.git("add", "-A")
            if self.git("commit", "-q", "-m", "while stashed") == 0:
                self.commits.append(r.head())
            self.git("stash", "pop")
        elif x == "stash-dir-pop":
            self.git("stash", "push", "--", "d")
            self.git("add", "-A")
            if self.git("commit", "-q", "-m", "while stashed") == 0:
                self.commits.append(r.head())
            self.git("stash", "pop")
        elif x == "rm-recreate": self.git("rm", "-q", "-f", f)
        elif x == "mv-back": self.git("mv", f, "d/moved.txt"); self.git("mv", "d/moved.txt", f)
        elif x == "reset-mixed": self.git("add", "-A"); self.git("reset")
        elif x == "switch-f":
            self.git("switch", "-q", "-c", "side"); self.git("switch", "-q", "-f", "main")
        elif x == "stash-apply-drop": self.git("stash"); self.git("stash", "apply"); self.git("stash", "drop")
        elif x == "checkout-m":
            # the uncommitted work (and its pending attribution) is carried to another branch through a merge:
            # the working log is read WITHOUT a checkpoint first and written back as INITIAL of the other branch
            r.plain_git("branch", "other-m", self.commits[0])
            self.git("checkout", "-q", "-m", "other-m")
        # the person types other text where the AI lines were (in both files)
        for p in (f, g):
            ls = self.read_lines(p)
            k = min(pos[p], len(ls))
            own = [l for l in ls if norm(l) in self.wrote["s1"]]
            if own and rng.chance(1, 2) and pending_via not in ("staged", "retype"):
                ls = [l for l in ls if l not in own]          # delete the AI lines first
                k = min(k, len(ls))
            if pending_via == "retype":
                # the person types the very text the agent had written (a claim that survived the discard would take it)
                ls[k:k] = [t for t in ai_new[p] if t not in ls]
            else:
                ls[k:k] = [self.fresh("human") for _ in range(2 + rng.below(2))]
            self.directed_edit("human", p, ls)
        self.git("add", "-A")
        if self.git("commit", "-q", "-m", "retyped") == 0:
            self.commits.append(r.head())
        self.check(f"recipe {x}/{pending_via}: after retype")
        if self.failures:
            return
        self.directed_edit("human", f, [self.fresh("human")] + self.read_lines(f))
        self.git("add", "-A")
        if self.git("commit", "-q", "-m", "later") == 0:
            self.commits.append(r.head())
        self.check(f"recipe {x}/{pending_via}: one commit later")

    # ---------------------------------------------------------------- oracle
    def check(self, where):
        r = self.r
        rc, out, _ = r.plain_git("rev-list", "--first-parent", "HEAD")
        chain = [x for x in out.split() if x][:-1] if rc == 0 else []
        seen_notes = {}
        ob = {"where": where, "chain": [], "blame": {}}
        # every note line of every annotated commit
        for sha in r.notes_list():
            note = r.note(sha)
            seen_notes[sha] = note
            if not note:
                continue
            for p in note["files"]:
                la = e2e.note_line_authors(note, p)
                if not la:
                    continue
                content = r.file_at(sha, p)
                lines = content.split("\n") if content is not None else []
                for ln, h in la.items():
                    s = HASH2S.get(h)
                    text = lines[ln - 1] if 0 < ln <= len(lines) else None
                    if s is None:
                        continue
                    if text is not None and norm(text) == "":
                        continue      # a blank / whitespace-only line carries no content
                    if text is None or norm(text) not in self.wrote[s]:
                        self.fail("note", where, sha, p, ln, text, s)
        for sha in chain:
            note = seen_notes.get(sha)
            per = {}
            for p in (note["files"] if note else []):
                la = {ln: int(HASH2S[h][1:]) for ln, h in e2e.note_line_authors(note, p).items() if h in HASH2S}
                if la:
                    per[p] = la
            ob["chain"].append({"sha": sha, "notes": per})
        self.obs.append(ob)
        self.log(op="obs", where=where)
        # blame of every tracked file at HEAD (only when the file is clean)
        rc, out, _ = r.plain_git("status", "--porcelain", "-z")
        dirty = {e[3:] for e in out.split("\0") if e}
        for p in self.files():
            if p in dirty or not r.exists(p):
                continue
            lines = self.read_lines(p)
            if not lines:
                continue
            bj = r.blame(p)
            if bj is None:
                continue
            ob["blame"][p] = {ln: int(HASH2S[h][1:]) for ln, h in e2e.blame_line_hashes(bj).items() if h in HASH2S}
            for ln, h in e2e.blame_line_hashes(bj).items():
                s = HASH2S.get(h)
                text = lines[ln - 1] if 0 < ln <= len(lines) else None
                if s is None:
                    continue
                if text is not None and norm(text) == "":
                    continue
                if text is None or norm(text) not in self.wrote[s]:
                    self.fail("blame", where, r.head(), p, ln, text, s)

    def is_tweak_of_own(self, text, s):
        """`text` is `<line session s wrote> m<k>…`: a person's in-place modification of that line"""
        import re
        m = re.match(r"^(.*) m\d+$", text)
        while m:
            if norm(m.group(1)) in self.wrote[s]:
                return True
            m = re.match(r"^(.*) m\d+$", m.group(1))
        return False

    def session_line_gone(self, p, base, s):
        """session `s` wrote a line into this file that is no longer there (a person rewrote or deleted it),
        or the credited text itself is a person's modification of the session's line"""
        now = {norm(l) for l in self.read_lines(p)}
        mine = set()
        for q in (p, base, p + ".moved"):
            mine |= self.ai_lines.get(q, {}).get(s, set())
        if any(t not in now for t in mine):
            return True
        # the note of an OLDER commit is inspected while the working tree (a later reset --hard / checkout) holds the
        # session's original line again: the line is gone in the content of the commit the note speaks of
        sha = getattr(self, "_inspected_sha", None)
        at = self.r.file_at(sha, p) if sha else None
        if at is None:
            return False
        then = {norm(l) for l in at.split("\n")}
        return any(t not in then for t in mine)

    def gone_lines(self, p, base, s):
        """normalised texts session `s` wrote into this file that are no longer in it"""
        now = {norm(l) for l in self.read_lines(p)} if self.r.exists(p) else set()
        mine = set()
        for q in (p, base, p + ".moved"):
            mine |= self.ai_lines.get(q, {}).get(s, set())
        return {t for t in mine if t not in now}

    @staticmethod
    def lead(t):
        """leading word token of a line (indentation aside): `ai`, `hum`, `line`"""
        import re
        m = re.match(r"\s*(\w+)", t)
        return m.group(1) if m else None

    def pairs_with_gone_line(self, p, base, s, text):
        """known finding token-pairing-with-deleted-line-of-same-hunk: session s wrote a line into this file that is gone,
        that line starts with the same word token as the credited line (the token-level diff of a changed hunk pairs the
        leading tokens of a deleted line with a different line of the hunk), the credited text is not s's, and a reconstruction
        (RECON) ran while s's line was already gone"""
        if norm(text) in self.wrote[s] or self.lead(text) is None:
            return False
        if not ((p, s) in self.recon_gone or (base, s) in self.recon_gone):
            return False
        nt = norm(text)
        # a DIFFERENT line of s (not an earlier / later version of the credited line itself: that is the in-place family)
        return any(self.lead(t) == self.lead(text) and not t.startswith(nt) and not nt.startswith(t)
                   for t in self.gone_lines(p, base, s))

    def fail(self, kind, where, sha, p, ln, text, s):
        base = p[:-6] if p.endswith(".moved") else p
        self._inspected_sha = sha
        if text is not None and (text.lstrip().startswith("hum-") or self.is_tweak_of_own(text, s)) and \
                (p in self.recon_taint or base in self.recon_taint) and self.session_line_gone(p, base, s):
            sig = "reconstruction-keeps-ai-on-line-rewritten-by-person"
        elif text is not None and self.pairs_with_gone_line(p, base, s, text):
            sig = TOKEN_PAIR_SIG
        elif (kind == "note" and ln in self.overlap.get(sha, {}).get(p, set())) or \
                (kind == "blame" and any(p in ov or base in ov for ov in self.overlap.values())):
            sig = "line-added-by-commit-was-modified-again-unstaged"
        elif text is None:
            sig = f"{kind}-lists-line-beyond-file"
        elif text.lstrip().startswith("hum-") or any(norm(text) in self.wrote[o] for o in SESS if o != s):
            sig = f"{kind}-credits-foreign-content"
        else:
            sig = f"{kind}-credits-unreported-content"
        self.failures.append((sig, {"where": where, "commit": sha, "path": p, "line": ln, "text": text, "session": s}))

    # ---------------------------------------------------------------- driver
    def run(self, length):
        r = self.r
        for p in ("f1.txt", "f2.txt", "d/f3.txt"):
            r.write(p, "".join(self.fresh("human") + "\n" for _ in range(3 + self.rng.below(4))))
        r.git("add", "-A"); r.git("commit", "-q", "-m", "base")
        self.commits.append(r.head())
        self.log(op="base", files={p: self.read_lines(p) for p in ("f1.txt", "f2.txt", "d/f3.txt")})
        for i in range(length):
            x = self.rng.below(20)
            if x < 6: self.op_edit(self.rng.pick(SESS))
            elif x < 10: self.op_edit("human")
            elif x < 13: self.op_commit()
            elif x < 17: self.op_destructive()
            else: self.op_branchy()
            if i % 6 == 5:
                self.check(f"after step {i}")
                if self.failures:
                    return
        # finish: make sure nothing is in progress, commit everything, check
        for ab in (("merge", "--abort"), ("rebase", "--abort"), ("cherry-pick", "--abort")):
            r.plain_git(*ab)
        self.git("add", "-A"); self.git("commit", "-q", "-m", "final")
        self.check("final")


def replay_steps(steps):
    """Re-execute a recorded step list (explicit contents) and evaluate the oracle at the end.
    Returns the list of failures. Used for replays and for shrinking."""
    with e2e.Env() as env:
        w = Walk(env, 0)
        r = w.r
        pre_done = None
        for k_, st in enumerate(steps):
            if st["op"] == "edit" and str(st.get("kind", "")).endswith("/during-agent-run"):
                # typed while the agent of the NEXT step was at work: its pre-edit checkpoint comes first
                nxt = steps[k_ + 1] if k_ + 1 < len(steps) else None
                if nxt and nxt["op"] == "edit" and nxt["who"] != "human":
                    r.human_checkpoint([nxt["path"]])
                    pre_done = k_ + 1
            if st["op"] == "base":
                for p, lines in st["files"].items():
                    r.write(p, "".join(l + "\n" for l in lines))
                r.git("add", "-A"); r.git("commit", "-q", "-m", "base")
                w.commits.append(r.head())
            elif st["op"] == "edit":
                who, p = st["who"], st["path"]
                old = set(norm(l) for l in w.read_lines(p))
                if who != "human":
                    if pre_done != k_:
                        r.human_checkpoint([p])
                elif w.initial_unconsumed(p):
                    w.tainted.add(p)
                r.write(p, "".join(l + "\n" for l in st["content"]))
                if who == "human" and st.get("kind") != "reindent":
                    w.human_inplace.add(p)
                if who != "human":
                    for l in st["content"]:
                        if norm(l) not in old:
                            w.wrote[who].add(norm(l))
                            w.ai_lines.setdefault(p, {}).setdefault(who, set()).add(norm(l))
                    r.ai_checkpoint(who, [p], tool=S.TOOL)
            elif st["op"] == "git":
                rc = w.git(*st["args"])
                if rc == 0 and st["args"][0] == "commit":
                    w.commits.append(r.head())
                    w.record_overlap()
        for ab in (("merge", "--abort"), ("rebase", "--abort"), ("cherry-pick", "--abort")):
            r.plain_git(*ab)
        r.git("add", "-A"); r.git("commit", "-q", "-m", "final")
        w.check("final")
        return w.failures


def shrink(steps, sig, budget=60):
    """Greedy one-at-a-time removal (base step kept) while a failure with `sig` persists."""
    cur = list(steps)
    i = len(cur) - 1
    tries = 0
    while i >= 1 and tries < budget:
        cand = cur[:i] + cur[i + 1:]
        tries += 1
        try:
            if any(f[0] == sig for f in replay_steps(cand)):
                cur = cand
        except Exception:
            pass
        i -= 1
    return cur


def run_walk(seed, length):
    out = _run_walk(seed, length)
    for _ in range(2):
        if not any(sig == "runner-exception" for sig, _d in out[0]):
            break
        out = _run_walk(seed, length)
    return out


def _run_walk(seed, length):
    try:
        with e2e.Env() as env:
            w = Walk(env, seed)
            w.run(length)
            ops = {}
            for st in w.steps:
                k = st["op"] if st["op"] != "git" else "git " + " ".join(a for a in st["args"][:2] if not a.startswith("-q"))
                ops[k] = ops.get(k, 0) + 1
            return w.failures, w.steps, ops, w.obs
    except Exception as ex:
        return [("runner-exception", {"error": repr(ex), "trace": traceback.format_exc()[-1500:]})], [], {}, []


def run_recipe(args, _attempt=0):
    seed, x, via = args
    try:
        with e2e.Env() as env:
            w = Walk(env, seed)
            w.run_recipe(x, via)
            return w.failures, w.steps, {f"recipe:{x}/{via}": 1}, w.obs
    except Exception as ex:
        if _attempt < 2:
            return run_recipe(args, _attempt + 1)
        return [("runner-exception", {"error": repr(ex), "trace": traceback.format_exc()[-1500:]})], [], {}, []


def slim(steps):
    """the executed steps proper (no oracle points, no recorded state)"""
    return [{k: v for k, v in st.items() if k not in ("files", "head0", "head1", "nstash0", "nstash1", "depth0", "depth1")} for st in steps if st["op"] != "obs"]


TIE_NAME = ("correspondence:discard-e2e (Discard model's predicted notes of every commit on HEAD's first-parent chain and blame of "
            "every clean file vs the binary's, at every oracle point of the walks and recipes inside the modelled alphabet)")


def discard_tie(res, runs):
    bad = D.tie(res, runs, EXPLAINED)
    res.extra.setdefault("_discard_bad", []).extend(bad)


def discard_finish(res):
    bad = res.extra.pop("_discard_bad", [])
    res.obligation(TIE_NAME, not bad, "correspondence")
    if bad:
        res.broken_tie("correspondence:discard-e2e", {"disagreeing_runs": len(bad), "first": bad[0]})
    return bad


def ws_witness(res):
    """Props/C03.lean `reset_keeps_reindented_lines_of_target` replayed on the binary: four commits in which a
    session appends one line each, the person re-indents the four lines, then (a) `reset --soft HEAD~1` and a
    commit, (b) `commit --amend`. The theorem's numbers: INITIAL / the next note hold lines 5–7 (undone commit,
    target, target's parent), the amended note holds lines 4–7."""
    def scenario(variant):
        with e2e.Env() as env:
            r = env.repo("r")
            body = "h1\nh2\nh3\n"
            r.write("f.txt", body); r.git("add", "-A"); r.git("commit", "-q", "-m", "base")
            for i in range(4):
                r.human_checkpoint(["f.txt"])
                body += f"ai-s1-{i} x\n"
                r.write("f.txt", body); r.ai_checkpoint("s1", ["f.txt"], tool=S.TOOL)
                r.git("add", "-A"); r.git("commit", "-q", "-m", f"c{i}")
            r.write("f.txt", "h1\nh2\nh3\n" + "".join(f"    ai-s1-{i} x\n" for i in range(4)))
            if variant == "amend":
                r.git("add", "-A"); r.git("commit", "-q", "--amend", "-m", "am")
                return sorted(e2e.note_line_authors(r.note(r.head()), "f.txt"))
            r.git("reset", "--soft", "HEAD~1")
            ini = r.initial() or {}
            pend = sorted(l for a in (ini.get("files") or {}).get("f.txt", []) for l in range(a["start_line"], a["end_line"] + 1))
            r.git("add", "-A"); r.git("commit", "-q", "-m", "c4")
            return [pend, sorted(e2e.note_line_authors(r.note(r.head()), "f.txt"))]
    try:
        got = {"reset": scenario("reset"), "amend": scenario("amend")}
    except Exception as ex:
        got = {"error": repr(ex)}
    want = {"reset": [[5, 6, 7], [5, 6, 7]], "amend": [4, 5, 6, 7]}
    name = "witness:reset_keeps_reindented_lines_of_target replayed on the binary (pending lines after reset --soft, next note, amended note)"
    res.obligation(name, got == want, "correspondence")
    res.count_case("ws-witness", nontrivial=True)
    res.tag(["witness:ws-reset-amend"])
    if got != want:
        res.broken_tie("witness:reset_keeps_reindented_lines_of_target", {"theorem": want, "binary": got})


def phase_recipes(res, seed, rounds, threads=16):
    """directed histories: pending AI lines, a discarding or shelving operation, the person retypes"""
    jobs = [(seed * 1000 + 17 * k + i, x, via) for k in range(rounds) for i, x in enumerate(Walk.DISCARDS) for via in ("initial", "entries", "staged", "retype", "edited")]
    with concurrent.futures.ThreadPoolExecutor(threads) as ex:
        outs = list(ex.map(run_recipe, jobs))
    discard_tie(res, [(f"recipe {job[1]}/{job[2]} seed {job[0]}", o[0], o[1], o[3]) for job, o in zip(jobs, outs)])
    for job, (failures, steps, ops, _obs) in zip(jobs, outs):
        res.count_case(json.dumps(slim(steps), ensure_ascii=False), nontrivial=len(slim(steps)) > 5)
        res.tag([f"op:{k}" for k in ops])
        seen = set()
        for sig, d in failures:
            if sig in seen:
                continue
            seen.add(sig)
            res.oracle_failure(sig, {"seed": job[0], "recipe": job[1], "pending_via": job[2], "detail": d,
                                     "steps": [{k: v for k, v in st.items() if k != "files"} for st in steps]}, what=f"directed recipe {job[1]}/{job[2]}: {sig}")


def phase_walks(res, seeds, length, threads=16):
    with concurrent.futures.ThreadPoolExecutor(threads) as ex:
        outs = list(ex.map(lambda s: run_walk(s, length), seeds))
    discard_tie(res, [(f"walk seed {seed} length {length}", o[0], o[1], o[3]) for seed, o in zip(seeds, outs)])
    for seed, (failures, steps, ops, _obs) in zip(seeds, outs):
        res.count_case(json.dumps(slim(steps), ensure_ascii=False), nontrivial=len(slim(steps)) > 5)
        res.tag([f"op:{k}" for k in ops])
        res.sample({"seed": seed, "steps": [{k: v for k, v in st.items() if k != "content"} for st in steps[:15]]}, cap=2)
        seen = set()
        for sig, d in failures:
            if sig in seen:
                continue
            seen.add(sig)
            res.oracle_failure(sig, {"seed": seed, "length": length, "detail": d,
                                     "steps": [{k: v for k, v in st.items() if k != "files"} for st in steps]}, what=f"end-to-end oracle {sig}")


def run(tier, seed):
    res = C.Result(PROP, tier, seed)
    res.rule = ("end-to-end random walks (length 25 quick / 40 thorough) over commit (all/partial/amend), add, reset "
                "(hard/soft/mixed), checkout (--/-f/branch), switch, restore, stash (push/pop/apply/drop), merge (+abort, "
                "--squash), rebase, cherry-pick, revert, mv, rm, branch -D interleaved with AI (2 sessions) and human edits; "
                "directed recipes: AI lines pending in two files (in checkpoint entries, or in INITIAL after a partial commit), one of 17 "
                "discarding / shelving operations (reset --hard, checkout --/path/-f/dir, restore, stash drop/pop/pathspec pop, rm, mv, "
                "reset, switch -f), the person retypes other text at the same positions, two commits; "
                "oracle: every AI-reported line in every note and in blame has content its session reported writing; "
                "non-trivial = more than 5 executed steps; distinct = distinct executed step list")
    res.rule += ("; correspondence: Sys model's predicted notes vs the binary's on generated commit / partial-commit histories")
    res.trusted = ["Lean 4.33 kernel", "vlib/props/c03.py bookkeeping of reported contents", "vlib/sysrun.py", "real git 2.39"]
    ok, out = C.build_git_ai()
    if not ok:
        res.obligation("build binary from /repo working tree", False, "build")
        res.broken_tie("build", out[-3000:])
        return res.finish()
    if os.path.exists(os.path.join(C.LEAN, "GitAiModel", "Props", "C03.lean")):
        C.phase_proofs(res, PROP, THEOREMS)
    # tie of the theorems' model (Model/Sys.lean) to the binary: predicted vs written notes on generated histories
    from vlib.props import c04
    import concurrent.futures as _cf
    scs = [c04.gen_scenario(s_) for s_ in [seed * 100000 + 70000 + i for i in range(40 if tier == "quick" else 400)]]
    with _cf.ThreadPoolExecutor(16) as ex:
        outs = list(ex.map(c04.run_scenario, scs))
    c04.sys_tie(res, scs)
    # the same histories against the ghost oracle, for this property's direction only: a line the note or
    # blame credits to a session although no session made its last substantive change (unclassified cases
    # only; the classified families have their own entries under C01/C04)
    for sc, (failures, _n, _c) in zip(scs, outs):
        for sig, d in failures:
            if sig in ("note-lists-non-ai-line", "note-wrong-lines", "blame-reports-non-ai-line", "blame-wrong-lines") and d.get("extra"):
                res.oracle_failure("person-line-credited-to-session:commit-history",
                                   {"scenario": {k: v for k, v in sc.items() if not k.startswith("_")}, "detail": d},
                                   what="a line whose last substantive change was not a session's is listed for a session")
    # walks that found something in the past run first (corpus/C03/walks.jsonl)
    cw = os.path.join(C.VERIF, "corpus", PROP, "walks.jsonl")
    if os.path.exists(cw):
        by_len = {}
        for ln_ in open(cw):
            if ln_.strip():
                j_ = json.loads(ln_)
                by_len.setdefault(int(j_["length"]), []).append(int(j_["seed"]))
        for L_, seeds_ in sorted(by_len.items()):
            phase_walks(res, seeds_, L_)
    ws_witness(res)
    phase_recipes(res, seed, 1 if tier == "quick" else 12)
    n = 64 if tier == "quick" else 2000
    phase_walks(res, [seed * 100000 + i for i in range(n)], 25 if tier == "quick" else 40)
    discard_finish(res)
    if res.broken and not res.violations:
        phase_walks(res, [seed * 100000 + 50000 + i for i in range(192)], 40)
        res.extra.pop("_discard_bad", None)
        res.extra["search"] = "192 extra random walks of length 40 against the content oracle"
    return res.finish()
