"""C03 — tie of Model/Discard.lean (union alphabet `DOp`) to the binary: `correspondence:discard-e2e`.

A walk / recipe of vlib/props/c03.py is a list of executed steps (edits with explicit contents, git
commands with their exit status, the HEAD before / after, the stash depth and the file contents after the
command) plus the observations taken by the oracle (notes of every commit on the first-parent chain of
HEAD, blame of every clean file). `translate` turns the steps into a script for the Lean driver op
`disc_run`; it stops at the first step outside the modelled alphabet (merge, rebase, cherry-pick, revert,
mv, rm, a stash pop / apply that stops at a conflict): the prefix before it is still compared.

Whitespace: the model's ids identify a line modulo whitespace, git's diff does not. For a commit, an amend and a
`reset --soft|--mixed HEAD~1` the runner records (`ws`, Walk.ws_lines) the lines git sees as added although the older
content holds them in another whitespace form; they are passed as `re` and the driver runs the whitespace-sensitive
reading of that step (Model/Discard.lean commitStepWs / amendStepWs / resetStepWs; without such a line: the alphabet's
step). The same two steps take `ov`: the lines the working log attributes to the person explicitly (Walk.override_lines),
which blame does not fill. Blame of a file with a re-indented line is not compared (git moves the line to the re-indenting commit).
"""
import json

from vlib import common as C

BRANCHY_OUTSIDE = ("merge", "rebase", "cherry-pick", "revert", "rm", "mv")


def norm(t):
    return "".join(t.split())


class Ids:
    def __init__(self):
        self.ids = {}

    def of(self, text):
        k = norm(text)
        if k not in self.ids:
            self.ids[k] = len(self.ids) + 1
        return self.ids[k]

    def lines(self, ls):
        return [self.of(l) for l in ls if norm(l) != ""]


def matches(path, spec):
    spec = spec.rstrip("/")
    return path == spec or path.startswith(spec + "/")


def translate(steps):
    """→ dict(files, base, script, inside, total, outside) or None when there is no base step"""
    ids = Ids()
    if not steps or steps[0].get("op") != "base":
        return None
    base = {p: ids.lines(ls) for p, ls in steps[0]["files"].items()}
    files = sorted(base)
    branches = {"main"}
    script = []
    outside = None
    inside = 0
    nobs = 0
    reindented = set()     # files in which a line's indentation changed: git blame moves such a line to the commit
                           # that re-indented it, the line-identity model (identity modulo whitespace) does not
    gsteps = steps[1:]
    for k, st in enumerate(gsteps):
        op = st["op"]
        if op == "obs":
            script.append({"k": "obs"}); nobs += 1
            continue
        if op == "edit":
            p = st["path"]
            if p not in base:
                outside = f"edit of a file outside the base set ({p})"; break
            if any(norm(l) == "" for l in st["content"]):
                outside = "blank line"; break
            ys = ids.lines(st["content"])
            if str(st.get("kind", "")).startswith("reindent"):
                reindented.add(p)
            if st["who"] == "human":
                if str(st.get("kind", "")).endswith("/during-agent-run"):
                    nxt = gsteps[k + 1] if k + 1 < len(gsteps) else None
                    if nxt and nxt["op"] == "edit" and nxt["who"] != "human":
                        script.append({"k": "hcp", "named": [nxt["path"]]})
                script.append({"k": "human", "p": p, "ys": ys})
            else:
                script.append({"k": "ai", "p": p, "s": int(st["who"][1:]), "ys": ys})
            inside += 1
            continue
        if op != "git":
            continue
        a = [x for x in st["args"] if x != "-q"]
        rc = st["rc"]
        if "files" not in st:
            outside = "step without recorded state"; break
        if any(norm(l) == "" for ls in st["files"].values() for l in ls):
            outside = "blank line"; break
        after = {p: ids.lines(ls) for p, ls in st["files"].items() if p in base}
        if set(st["files"]) - set(base) or set(base) - set(st["files"]):
            outside = "file set changed (" + " ".join(a[:2]) + ")"; break
        cmd = a[0]
        em = []          # emitted model steps
        hcp_all = [{"k": "hcp", "named": []}]
        sel = lambda spec: [p for p in files if matches(p, spec)]
        if cmd in BRANCHY_OUTSIDE:
            outside = cmd; break
        # lines git sees as added although the older content holds them in another whitespace form (Walk.ws_lines)
        re_ = {p: ids.lines(ls) for p, ls in (st.get("ws") or {}).items() if p in base}
        # lines the working log attributes to the PERSON explicitly (override of an agent's lines): no gap for blame to fill
        ov_ = {p: ids.lines(ls) for p, ls in (st.get("ov") or {}).items() if p in base}
        if cmd == "add":
            if a[1:] == ["-A"]:
                em = [{"k": "addAll"}]
            else:
                spec = a[-1]
                em = [{"k": "add", "paths": sel(spec)}] if rc == 0 else []
        elif cmd == "commit":
            if rc != 0:
                em = hcp_all
            elif "--amend" in a:
                if st["depth0"] <= 1:
                    outside = "amend of the root commit"; break
                em = [{"k": "amend", "re": re_}] if re_ else [{"k": "amend"}]
                if ov_:
                    em[0]["ov"] = ov_
            else:
                em = [{"k": "commit", "re": re_}] if re_ else [{"k": "commit"}]
        elif cmd == "reset":
            mode = [x for x in a[1:] if x.startswith("--")]
            rev = [x for x in a[1:] if not x.startswith("--")]
            n = 1 if rev == ["HEAD~1"] else 0
            if rev not in ([], ["HEAD~1"]):
                outside = "reset " + " ".join(a[1:]); break
            if rc != 0:
                em = hcp_all
            elif mode == ["--hard"]:
                em = [{"k": "resetHard", "n": n}]
            elif n == 0 and mode in ([], ["--mixed"]):
                em = [{"k": "unstageAll"}]
            elif n == 1 and mode in (["--soft"], ["--mixed"]):
                em = [{"k": "reset", "n": 1, "soft": mode == ["--soft"]}]
                if re_:
                    em[0]["re"] = re_
                if ov_:
                    em[0]["ov"] = ov_
            else:
                outside = "reset " + " ".join(a[1:]); break
        elif cmd == "checkout":
            rest = a[1:]
            if rest == ["-f"]:
                em = [{"k": "checkoutForceSame"}] if rc == 0 else []
            elif rest[:1] == ["--"] and len(rest) == 2:
                em = [{"k": "d", "op": "discardFile", "paths": sel(rest[1])}] if rc == 0 else []
            elif len(rest) == 1 and rest[0] in branches:
                em = [{"k": "switch", "name": rest[0], "same": st["head0"] == st["head1"], "force": False}] if rc == 0 else []
            elif len(rest) == 1 and not rest[0].startswith("-"):
                em = [{"k": "d", "op": "restoreFile", "paths": sel(rest[0])}] if rc == 0 else []
            else:
                outside = "checkout " + " ".join(rest); break
        elif cmd == "restore":
            rest = a[1:]
            if len(rest) == 1:
                em = [{"k": "d", "op": "restoreFile", "paths": sel(rest[0])}] if rc == 0 else []
            elif len(rest) == 2 and rest[0] == "--staged":
                em = [{"k": "d", "op": "unstage", "paths": sel(rest[1])}] if rc == 0 else []
            else:
                outside = "restore " + " ".join(rest); break
        elif cmd == "switch":
            rest = a[1:]
            if rest[:1] == ["-c"] and len(rest) == 2:
                if rc == 0:
                    branches.add(rest[1])
                    em = [{"k": "mkbranch", "name": rest[1]}, {"k": "switch", "name": rest[1], "same": True, "force": False}]
            elif rest[:1] == ["-f"] and len(rest) == 2 and rest[1] in branches:
                em = [{"k": "switch", "name": rest[1], "same": st["head0"] == st["head1"], "force": True}] if rc == 0 else []
            elif len(rest) == 1 and rest[0] in branches:
                em = [{"k": "switch", "name": rest[0], "same": st["head0"] == st["head1"], "force": False}] if rc == 0 else []
            else:
                outside = "switch " + " ".join(rest); break
        elif cmd == "branch":
            if a[1:2] == ["-D"] and rc == 0:
                branches.discard(a[2])
        elif cmd == "stash":
            sub = a[1] if len(a) > 1 else "push"
            n0, n1 = st["nstash0"], st["nstash1"]
            if sub == "push":
                specs = a[a.index("--") + 1:] if "--" in a else []
                if rc != 0 or n1 != n0 + 1:
                    em = hcp_all                      # "No local changes to save": only the pre-stash checkpoint ran
                elif specs:
                    em = [{"k": "stashPushPaths", "paths": [p for p in files if any(matches(p, s_) for s_ in specs)]}]
                else:
                    em = [{"k": "stashPush"}]
            elif sub in ("pop", "apply"):
                if rc == 0:
                    em = [{"k": "stashPop" if sub == "pop" else "stashApply", "ys": after}]
                elif n0 == 0:
                    em = []                            # no stash entry: nothing ran
                else:
                    outside = f"stash {sub} stopped (conflict)"; break
            elif sub == "drop":
                em = [{"k": "stashDrop"}] if rc == 0 else hcp_all
            else:
                outside = "stash " + sub; break
        else:
            outside = cmd; break
        script += em
        script.append({"k": "expect", "w": after})
        inside += 1
    total = sum(1 for st in gsteps if st["op"] in ("edit", "git"))
    return {"files": files, "base": base, "script": script, "inside": inside, "total": total, "outside": outside, "nobs": nobs,
            "reindented": sorted(reindented)}


def compare(tr, resp, obs, sess_of_hash):
    """model observations vs what the binary reported → (n_compared, disagreements, desync)"""
    mobs = resp.get("obs")
    if mobs is None:
        return 0, [{"driver": resp}], None
    desync = resp.get("desync")
    limit = desync["at"] if desync else len(mobs)
    n, bad = 0, []
    for k in range(min(tr["nobs"], len(mobs), len(obs), limit)):
        real, mod = obs[k], mobs[k]
        for p in tr["files"]:
            mnotes = mod[p]["notes"]
            chain = real["chain"]
            if len(mnotes) != len(chain):
                return n, bad, {"path": p, "at": k, "model_commits": len(mnotes), "real_commits": len(chain)}
            for j, (mn, rn) in enumerate(zip(mnotes, chain)):
                pred = {str(l): s for l, s in mn}
                got = {str(l): s for l, s in (rn["notes"].get(p) or {}).items()}
                n += 1
                if pred != got:
                    bad.append({"obs": k, "path": p, "commit": rn["sha"], "back": j, "what": "note", "predicted": pred, "observed": got})
            if p in real["blame"] and p not in tr["reindented"]:
                pred = {str(l): s for l, s in mod[p]["blame"]}
                got = {str(l): s for l, s in real["blame"][p].items()}
                n += 1
                if pred != got:
                    bad.append({"obs": k, "path": p, "what": "blame", "predicted": pred, "observed": got})
    return n, bad, desync


def request_of(tr):
    return {"op": "disc_run", "files": tr["files"], "base": tr["base"], "script": tr["script"]}


def tie(res, runs, explained_sigs):
    """runs: list of (label, failures, steps, obs). Adds the obligation, the evidence block and, on a
    disagreement, the broken tie. Returns the list of disagreeing runs."""
    trs, idx = [], []
    for label, failures, steps, obs in runs:
        tr = translate(steps) if steps else None
        if tr is None:
            continue
        trs.append(tr); idx.append((label, failures, steps, obs))
    resps = C.run_driver([request_of(tr) for tr in trs]) if trs else []
    ev = res.extra.setdefault("correspondence", {}).setdefault("discard-e2e", {
        "runs": 0, "runs_fully_inside_alphabet": 0, "steps": 0, "steps_inside_alphabet": 0, "comparisons": 0,
        "disagreements": 0, "explained_by_oracle": 0, "desynchronised": 0, "outside": {}})
    badruns = []
    for tr, resp, (label, failures, steps, obs) in zip(trs, resps, idx):
        ev["runs"] += 1
        ev["steps"] += tr["total"]; ev["steps_inside_alphabet"] += tr["inside"]
        if tr["outside"] is None:
            ev["runs_fully_inside_alphabet"] += 1
        else:
            key = tr["outside"].split(" (")[0]
            ev["outside"][key] = ev["outside"].get(key, 0) + 1
        n, bad, desync = compare(tr, resp, obs, None)
        ev["comparisons"] += n
        if desync:
            ev["desynchronised"] += 1
            ev.setdefault("first_desync", {"run": label, "detail": desync})
        if bad:
            if any(sig in explained_sigs for sig, _ in failures):
                ev["explained_by_oracle"] += len(bad)
                continue
            ev["disagreements"] += len(bad)
            badruns.append({"run": label, "first": bad[0], "n": len(bad), "request": request_of(tr),
                            "steps": [{k_: v for k_, v in st.items() if k_ != "files"} for st in steps]})
    ev["fraction_runs_inside"] = round(ev["runs_fully_inside_alphabet"] / max(1, ev["runs"]), 3)
    ev["fraction_steps_inside"] = round(ev["steps_inside_alphabet"] / max(1, ev["steps"]), 3)
    return badruns
