"""C04 — uncommitted AI work is carried to the commit that finally contains it, once (DESIGN §8 C04)."""
import concurrent.futures, json, os, traceback

from vlib import common as C, e2e, sysrun as S
from vlib.props import c01
from vlib import split_corr

PROP = "C04"
THEOREMS = ["GitAi.Split3.classify_spec", "GitAi.Split3.split_coordinates", "GitAi.Split3.changed_line_position",
            "GitAi.Split3.work_line_cases", "GitAi.Split3.regression_unstaged_deletion",
            "GitAi.Split3.regression_unstaged_replacement_above", "GitAi.Split3.regression_modified_again_stays_pending",
            "GitAi.Split3.locate_strictMono", "GitAi.Split3.regression_inner_line_of_block_modified_again",
            "GitAi.Split3.line_in_unstaged_hunk_not_committed", "GitAi.Split3.split_outputs_wf",
            "GitAi.Sys.every_commit_exact", "GitAi.Sys.pending_line_carried",
            "GitAi.Sys.head_line_not_listed", "GitAi.Sys.recorded_once",
            "GitAi.Sys.regression_pending_edited_before_checkpoint"]


def regions(head, work):
    """Align two ghost line lists by (uid, text): returns list of ('eq', [line]) / ('chg', hpart, wpart)."""
    hpos = {(l[2], l[0]): i for i, l in enumerate(head)}
    out, hi, wi = [], 0, 0
    cur_h, cur_w = [], []
    while wi < len(work):
        key = (work[wi][2], work[wi][0])
        j = hpos.get(key)
        if j is not None and j >= hi:
            cur_h.extend(head[hi:j])
            if cur_h or cur_w:
                out.append(("chg", cur_h, cur_w)); cur_h, cur_w = [], []
            out.append(("eq", [work[wi]]))
            hi = j + 1
        else:
            cur_w.append(work[wi])
        wi += 1
    cur_h.extend(head[hi:])
    if cur_h or cur_w:
        out.append(("chg", cur_h, cur_w))
    return out


def partial_version(rng, head, work):
    """A mix of HEAD and working-tree versions, region by region (what `git add -p` can stage)."""
    res, took, left = [], 0, 0
    for r in regions(head, work):
        if r[0] == "eq":
            res.extend(r[1])
        else:
            if rng.chance(1, 2):
                res.extend(r[2]); took += 1
            else:
                res.extend(r[1]); left += 1
    return [list(l) for l in res], took, left


def gen_scenario(seed):
    rng = S.Rng(seed ^ 0xC04)
    w = S.World()
    names = ["f1.txt", "src/lib.rs", "docs/notes.md"][: 1 + rng.below(3)]
    steps = []
    head = {}
    for n in names:
        w.files[n] = [w.fresh(S.gen_text(rng, w, "plain"), None) for _ in range(4 + rng.below(6))]
        steps.append({"op": "edit", "who": "human", "path": n, "lines": [list(l) for l in w.files[n]]})
    steps.append({"op": "commit", "msg": "base"})
    head = w.clone_files()
    index = w.clone_files()
    sessions = ["s1", "s2"][: 1 + rng.below(2)]
    tags = []
    ncommits = 2 + rng.below(4)
    spare = ["new1.txt", "pkg/new2.rs"]          # files that do not exist yet: created (untracked) by an edit
    for ci in range(ncommits):
        # a round without any agent: its working log has no AI checkpoint while AI lines may be pending
        human_round = 0 < ci < ncommits - 1 and rng.chance(1, 3)
        if human_round:
            tags.append("round=human-only")
        if ci > 0 and rng.chance(1, 2 if human_round else 4):
            # a checkpoint right after the previous commit, before anything is edited (an IDE plugin, an agent's
            # pre-edit hook): pending attribution is taken over into the working log before the lines move
            steps.append({"op": "checkpoint"})
            tags.append("checkpoint-at-round-start")
        for _ in range(1 + rng.below(5)):
            who = "human" if human_round else rng.pick(sessions + sessions + ["human"])
            if spare and rng.chance(1, 6):
                path = spare.pop(0)
                names.append(path)
                tags.append("new-file-by=" + ("ai" if who != "human" else "human"))
            else:
                path = rng.pick(names)
            if who != "human":
                steps.append({"op": "human_checkpoint", "paths": [path]})
                others = [n for n in names if n != path and n in w.files]
                if others and rng.chance(1, 6):
                    other = rng.pick(others)        # the person types in another file while the agent is at work
                    k2 = S.gen_edit(rng, w, other, "human", "plain")
                    steps.append({"op": "edit", "who": "human", "path": other, "kind": k2 + "/during-agent-run",
                                  "lines": [list(l) for l in w.files[other]]})
                    tags.append("human-edit-during-agent-run")
            if who == "human" and path in head and w.files.get(path) != head[path] and rng.chance(1, 6):
                # the person puts the file back to its HEAD content (git restore / checkout -- / undo)
                w.files[path] = [list(l) for l in head[path]]
                kind = "restore"
                tags.append("edit=restore-to-head")
            else:
                kind = S.gen_edit(rng, w, path, who, "plain")
            steps.append({"op": "edit", "who": who, "path": path, "kind": kind, "lines": [list(l) for l in w.files[path]]})
            if rng.chance(1, 5):
                # an explicit checkpoint between edits (takes pending attribution over into the working log)
                steps.append(rng.pick([{"op": "checkpoint"}, {"op": "human_checkpoint", "paths": [path]}]))
                tags.append("explicit-checkpoint")
        last = ci == ncommits - 1
        mode = "all" if last else rng.pick(["files", "hunks", "hunks", "all"])
        if mode == "all":
            steps.append({"op": "commit", "msg": f"c{ci} all"})
            index = w.clone_files()
        elif mode == "files":
            changed = [n for n in names if w.files[n] != index.get(n)]
            if not changed:
                continue
            sel = [n for n in changed if rng.chance(1, 2)] or [changed[0]]
            steps.append({"op": "commit", "msg": f"c{ci} files", "paths": sel, "add": "paths"})
            for n in sel:
                index[n] = [list(l) for l in w.files[n]]
            tags.append("partial=by-file")
        else:
            any_staged = False
            for n in names:
                if w.files[n] == index.get(n):
                    continue
                ver, took, left = partial_version(rng, index.get(n, []), w.files[n])
                if took:
                    steps.append({"op": "stage_content", "path": n, "lines": ver})
                    index[n] = ver
                    any_staged = True
                    tags.append("partial=by-hunk" if left else "partial=whole-file-via-hunks")
            if not any_staged:
                continue
            steps.append({"op": "commit", "msg": f"c{ci} hunks", "add": "none"})
        head = {n: [list(l) for l in ls] for n, ls in index.items()}
    return {"seed": seed, "style": "plain", "file_opts": {}, "steps": steps, "tags": sorted(set(tags))}


def regression_scenarios():
    """Deterministic histories for the two repaired split defects (run on every check, before the generated ones):
    a commit made while the working tree holds an unstaged deletion / growing replacement above a staged AI
    line (O2), and an agent's line staged and then modified again by the agent before the commit."""
    out = []

    def mk(name, build):
        w = S.World()
        base = [w.fresh(t, None) for t in ("alpha one", "beta two", "gamma three")]
        steps = [{"op": "edit", "who": "human", "path": "f1.txt", "lines": [list(l) for l in base]}, {"op": "commit", "msg": "base"}]
        build(w, base, steps)
        steps.append({"op": "commit", "msg": "rest"})
        out.append({"seed": name, "style": "plain", "file_opts": {}, "steps": steps, "tags": ["regression=" + name], "no_sys_tie": True})

    def ai_edit(steps, lines, kind):
        steps.append({"op": "human_checkpoint", "paths": ["f1.txt"]})
        steps.append({"op": "edit", "who": "s1", "path": "f1.txt", "kind": kind, "lines": [list(l) for l in lines]})

    def o2_delete(w, base, steps):
        cur = base + [w.fresh("agent line AIX", "s1")]
        ai_edit(steps, cur, "append")
        steps.append({"op": "stage_content", "path": "f1.txt", "lines": [list(l) for l in cur]})
        steps.append({"op": "edit", "who": "human", "path": "f1.txt", "kind": "delete", "lines": [list(l) for l in cur[1:]]})
        steps.append({"op": "commit", "msg": "staged only", "add": "none"})

    def o2_grow(w, base, steps):
        cur = base + [w.fresh("agent line AIX", "s1")]
        ai_edit(steps, cur, "append")
        steps.append({"op": "stage_content", "path": "f1.txt", "lines": [list(l) for l in cur]})
        grown = [w.fresh("person rewrote one", None), w.fresh("person added more", None)] + cur[1:]
        steps.append({"op": "edit", "who": "human", "path": "f1.txt", "kind": "replace", "lines": [list(l) for l in grown]})
        steps.append({"op": "commit", "msg": "staged only", "add": "none"})

    def modified_again(w, base, steps):
        v1 = [base[0], w.fresh("agent version one", "s1"), base[2]]
        ai_edit(steps, v1, "replace")
        steps.append({"op": "stage_content", "path": "f1.txt", "lines": [list(l) for l in v1]})
        v2 = [base[0], w.fresh("agent version two", "s1"), base[2]]
        ai_edit(steps, v2, "replace")
        steps.append({"op": "commit", "msg": "staged only", "add": "none"})

    def block_modified_again(n, idxs, who2):
        # an agent writes a contiguous BLOCK, the block is staged, then lines strictly INSIDE it are rewritten (same
        # line count, not staged): both ends of the attributed range translate to the commit with the same shift although
        # an unstaged hunk sits between them — the rewritten version must stay pending and arrive in the next commit
        # (independently written regression C04-seed3: the range's two ends were translated instead of each line)
        def build(w, base, steps):
            block = [w.fresh(f"agent block line {i}", "s1") for i in range(n)]
            v1 = [base[0]] + block + base[1:]
            ai_edit(steps, v1, "insert")
            steps.append({"op": "stage_content", "path": "f1.txt", "lines": [list(l) for l in v1]})
            v2 = list(v1)
            for i in idxs:
                v2[1 + i] = w.fresh(f"agent block line {i} rewritten", who2)
            steps.append({"op": "human_checkpoint", "paths": ["f1.txt"]})
            steps.append({"op": "edit", "who": who2, "path": "f1.txt", "kind": "replace", "lines": [list(l) for l in v2]})
            steps.append({"op": "commit", "msg": "staged only", "add": "none"})
        return build

    def untracked_left_out_twice(w, base, steps):
        # an agent creates a NEW file that stays untracked over two commits (the second round has no agent: its working
        # log holds no AI checkpoint, the file lives in INITIAL only), then everything is committed — the pending lines
        # must arrive in that last commit's note (independently written regression C04-seed1: post-commit stopped asking
        # about INITIAL files without a checkpoint entry)
        newf = [w.fresh("created by the agent one", "s1"), w.fresh("created by the agent two", "s1")]
        steps.append({"op": "human_checkpoint", "paths": ["new1.txt"]})
        steps.append({"op": "edit", "who": "s1", "path": "new1.txt", "kind": "insert", "lines": [list(l) for l in newf]})
        cur = base + [w.fresh("agent line in f1", "s1")]
        ai_edit(steps, cur, "append")
        steps.append({"op": "commit", "msg": "round 0: f1 only", "paths": ["f1.txt"], "add": "paths"})
        cur2 = cur + [w.fresh("person line in f1", None)]
        steps.append({"op": "edit", "who": "human", "path": "f1.txt", "kind": "append", "lines": [list(l) for l in cur2]})
        steps.append({"op": "commit", "msg": "round 1: f1 only, no agent", "paths": ["f1.txt"], "add": "paths"})

    mk("untracked-ai-file-left-out-of-two-commits", untracked_left_out_twice)
    out[-1]["no_correspond"] = True      # the correspondence's flush checkpoint would give the untracked file an entry
    mk("unstaged-deletion-above-staged-ai-line", o2_delete)
    mk("unstaged-growing-replacement-above-staged-ai-line", o2_grow)
    mk("staged-ai-line-modified-again-by-the-agent", modified_again)
    mk("staged-ai-block-inner-line-modified-again-by-the-agent", block_modified_again(5, [2], "s1"))
    mk("staged-ai-block-inner-lines-modified-again-by-another-session", block_modified_again(6, [1, 3, 4], "s2"))
    return out


def unstaged_non_insertion_above_ai(committed, work):
    """The working tree differs from the committed version in a region that removes or replaces
    committed lines (not a pure insertion) and an AI line sits below that region — the family of the
    repaired O2 defect (coordinate translation ignored removed lines); only used as a distribution tag."""
    regs = regions(committed, work)
    for k, r in enumerate(regs):
        if r[0] == "chg" and r[1]:
            for r2 in regs[k + 1:]:
                parts = r2[1] if r2[0] == "eq" else (r2[1] + r2[2])
                if any(l[1] is not None for l in parts):
                    return True
    return False


def run_scenario(sc):
    out = _run_scenario(sc)
    for _ in range(2):
        if not any(sig == "runner-exception" for sig, _d in out[0]):
            break
        out = _run_scenario(sc)       # transient environment trouble (busy machine): retry
    return out


def _run_scenario(sc):
    failures = []
    ncommits = 0
    corr = []
    try:
        with e2e.Env() as env:
            run = S.Runner(env, file_opts=sc.get("file_opts"))
            run.work_at_commit = {}
            watch = set()          # files with pending (uncommitted) AI lines after a partial commit
            stale_initial = set()  # ... that a person then edited before any checkpoint saw them
            for st in sc["steps"]:
                if st["op"] == "edit" and st["path"] in watch:
                    if st["who"] == "human":
                        stale_initial.add(st["path"])
                    watch.discard(st["path"])
                consumed_check = st["op"] in ("human_checkpoint", "checkpoint")
                snap = None
                if st["op"] == "commit" and sc.get("correspond") and len(run.commits) >= 1:
                    snap = split_corr.snapshot_before_commit(run.repo)
                    for p_ in list(watch):
                        if p_ in run.ghost:
                            watch.discard(p_)   # the flush above is a checkpoint: nothing was edited in between
                n_before = len(run.commits)
                run.step(st)
                if consumed_check and watch:
                    # a checkpoint takes pending attribution over only for the files it writes an entry for
                    have = {e.get("file") for cp in run.repo.checkpoints() for e in cp.get("entries", [])}
                    watch -= have
                if snap and len(run.commits) > n_before:
                    corr.extend(split_corr.requests_after_commit(run.repo, snap, snap["base"], run.commits[-1][0]))
                if st["op"] == "commit":
                    k = len(run.commits) - 1
                    run.work_at_commit[k] = {p: [list(l) for l in ls] for p, ls in run.ghost.items()}
                    tree = run.commits[k][1]
                    if any(unstaged_non_insertion_above_ai(tree.get(p_, []), ls) for p_, ls in run.ghost.items()):
                        sc["tags"] = sorted(set(sc["tags"]) | {"commit-with-unstaged-deletion-or-replacement-above-ai-line"})
                    for p_, ls in run.ghost.items():
                        have = {(l[2], l[0]) for l in tree.get(p_, [])}
                        if any(l[1] is not None and (l[2], l[0]) not in have for l in ls):
                            watch.add(p_)
            for i in range(1, len(run.commits)):
                fs = []
                c01.check_commit(run, i, fs)
                for sig, d in fs:
                    failures.append((sig, d))
            # every AI line (uid) is listed by exactly one note
            seen = {}
            for i in range(1, len(run.commits)):
                sha, files = run.commits[i]
                obs = S.observed_note_lines(run.repo.note(sha))
                for p, d in obs.items():
                    for ln, h in d.items():
                        if ln - 1 < len(files.get(p, [])):
                            uid = files[p][ln - 1][2]
                            seen.setdefault(uid, []).append(sha)
            ncommits = len(run.commits)
            sc["_observed"] = [S.observed_note_lines(run.repo.note(sha)) for sha, _ in run.commits[1:]]
            sc["_commit_ok"] = list(run.commit_ok)
            # files on which the binary deviates from the idealised model through a recorded finding
            idealised = {d.get("path") for sig, d in failures
                         if sig == "uncommitted-ai-line-reindented-next-to-a-change-in-the-same-interval"}
            sc["_skip"] = sorted(idealised)
    except Exception as ex:
        failures.append(("runner-exception", {"error": repr(ex), "trace": traceback.format_exc()[-1500:]}))
    return failures, ncommits, corr


def sys_tie(res, scs):
    """history-level model (Model/Sys.lean, partial commits) vs the binary: predicted vs written notes,
    for files outside the two known-finding families (which the model idealises away / mirrors)"""
    ncmp, nbad, first = 0, 0, None
    for sc in scs:
        if "_observed" not in sc or sc.get("no_sys_tie"):
            # the history-level model has no op for "staged, then modified again": the regression histories are
            # checked by the ghost oracle and the Split3 correspondence only
            sc.pop("_observed", None)
            continue
        n2, bad2 = S.sys_compare(sc, sc.pop("_observed"), C.run_driver, skip_paths=sc.pop("_skip", []), commit_ok=sc.pop("_commit_ok", None))
        ncmp += n2; nbad += len(bad2)
        if bad2 and first is None:
            first = {"seed": sc["seed"], "disagreement": bad2[0]}
    res.obligation("correspondence:sys-e2e (Sys model's predicted notes incl. partial commits vs notes written by the binary)", nbad == 0, "correspondence")
    cs = res.extra.setdefault("correspondence", {}).setdefault("sys-e2e", {"compared": 0, "disagreements": 0})
    cs["compared"] += ncmp; cs["disagreements"] += nbad
    if nbad:
        res.broken_tie("correspondence:sys-e2e", {"disagreements": nbad, "of": ncmp, "first": first})


REPLACES_ARM_SIG = "staged-ai-line-modified-again-by-another-session-credits-staged-version-to-it"
REPLACES_ARM_SCENARIO = "staged-ai-block-inner-lines-modified-again-by-another-session"


def classify_replaces_arm(sc, sig, detail):
    """Known finding (the `Replaces` arm of the split, same call site as C03's
    line-added-by-commit-was-modified-again-unstaged): in the deterministic history REPLACES_ARM_SCENARIO the staged-only
    commit's note credits the STAGED versions of exactly the rewritten lines (s1's text) to the session that rewrote them
    in the working tree (s2). Anything else in that history — another line, a line missing altogether, the later commit —
    keeps its signature."""
    if sc.get("seed") != REPLACES_ARM_SCENARIO or sig != "note-wrong-lines":
        return sig
    missing, extra = detail.get("missing") or {}, detail.get("extra") or {}
    rewritten = {3, 5, 6}          # 1-based lines of block indices 1, 3, 4 below the first base line
    if set(missing) == set(extra) and set(missing) <= rewritten and \
            set(missing.values()) == {S.hash_of("s1")} and set(extra.values()) == {S.hash_of("s2")} and \
            all((detail.get("line_texts") or {}).get(l, "").startswith("agent block line") and
                not (detail.get("line_texts") or {}).get(l, "").endswith("rewritten") for l in missing):
        return REPLACES_ARM_SIG
    return sig


def phase_e2e(res, seeds, threads=16, fixed=()):
    scs = list(fixed) + [gen_scenario(s) for s in seeds]
    for k, sc in enumerate(scs):
        # half the generated scenarios also feed the Split3 correspondence; its snapshot flushes pending edits with an explicit
        # checkpoint before every commit, which changes what the history exercises: scenarios marked no_correspond run untouched
        sc["correspond"] = not sc.get("no_correspond") and ((k % 2 == 0) or bool(sc.get("no_sys_tie")))
    with concurrent.futures.ThreadPoolExecutor(threads) as ex:
        outs = list(ex.map(run_scenario, scs))
    all_corr = [c for (_, _, corr) in outs for c in corr]
    n, bad = split_corr.compare(all_corr)
    res.obligation("correspondence:split3-e2e (model prediction from observed working log and hunks vs note/INITIAL written)", not bad, "correspondence")
    res.extra.setdefault("correspondence", {})["split3-e2e"] = {"compared": n, "disagreements": len(bad)}
    if bad:
        res.broken_tie("correspondence:split3-e2e", {"disagreements": len(bad), "of": n, "first": bad[0]})
    sys_tie(res, scs)
    for sc, (failures, ncommits, _) in zip(scs, outs):
        res.count_case(json.dumps(sc["steps"], ensure_ascii=False), nontrivial=ncommits >= 3)
        res.tag([f"commits={ncommits}"] + sc["tags"])
        res.sample({"seed": sc["seed"], "steps": [{k: (v if k != "lines" else f"{len(v)} lines") for k, v in st.items()} for st in sc["steps"]][:14]}, cap=2)
        for sig, detail in failures:
            sig = classify_replaces_arm(sc, sig, detail)
            res.oracle_failure(sig, {"scenario": sc, "detail": detail}, what=f"end-to-end oracle {sig}")


def run(tier, seed):
    res = C.Result(PROP, tier, seed)
    res.rule = ("in-process: edit scripts (kept lines, pure insertions, pure deletions, replacements of unequal length) -> every "
                "working-tree line through the real commit_position vs ground truth and vs Split3.locate; arbitrary hunk lists incl. "
                "values next to u32::MAX; generated -U0 diff texts through parse_diff_hunks. "
                "end-to-end: AI and human edits over 1-3 files split across 2-4 successive commits by file (git add <paths>) and "
                "by hunk (an explicit mix of HEAD and working-tree regions written to the index, as git add -p would), with "
                "further edits in between, final commit of everything; non-trivial = at least two non-base commits")
    res.trusted = ["Lean 4.33 kernel", "vlib/sysrun.py ghost tracking", "real git 2.39 as reference for what each commit adds",
                   "harness/src/suites/split3.rs (edit-script generator, hunks by git's -U0 convention, ground truth per line)"]
    ok, out = C.build_git_ai()
    if not ok:
        res.obligation("build binary from /repo working tree", False, "build")
        res.broken_tie("build", out[-3000:])
        return res.finish()
    if os.path.exists(os.path.join(C.LEAN, "GitAiModel", "Props", "C04.lean")):
        C.phase_proofs(res, PROP, THEOREMS)
    ok, out = C.build_harness()
    if not ok:
        res.obligation("build harness", False, "build")
        res.broken_tie("build", out[-3000:])
        return res.finish()
    n_inproc = 4000 if tier == "quick" else 200000
    bad, _ = C.phase_suite(res, "split3", seed, n_inproc, os.path.join(C.VERIF, "corpus", "C04", "split3.jsonl"))
    if bad:
        # tie broken (model ≠ code): search the real translation for a mistranslated line on more scripts
        C.phase_suite(res, "split3", seed + 7919, 40000, name="search:split3 (ground-truth oracle on 40000 more edit scripts)")
    nsc = 128 if tier == "quick" else 2400
    phase_e2e(res, [seed * 100000 + i for i in range(nsc)], fixed=regression_scenarios())
    if res.broken and not res.violations:
        phase_e2e(res, [seed * 100000 + 50000 + i for i in range(256)])
        res.extra["search"] = "256 extra end-to-end partial-commit histories against the ghost oracle"
    return res.finish()
