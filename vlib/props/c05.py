"""C05 — every authorship note is well-formed, self-contained and matches its commit (DESIGN §8 C05)."""
import concurrent.futures, json, os, random, traceback

from vlib import common as C
from vlib import e2e, wf
from vlib.props import c05_squash

PROP = "C05"
THEOREMS = [
    "GitAi.Sys.wf_all_notes",
    "GitAi.NotesTree.one_note_per_object",
    "GitAi.NotesTree.lookup_finds_all",
    "GitAi.NotesTree.specSet_lookup",
    "GitAi.NotesTree.batch_last_entry_wins",
    "GitAi.NotesTree.add_sets_note",
    "GitAi.NotesTree.one_note_per_object_before_fix_partial",
    "GitAi.NotesTree.witness_O6_duplicate_before_fix",
    "GitAi.NotesTree.witness_O6_missed_lookup_before_fix",
    "GitAi.NotesTree.regression_O6_fixed",
    "GitAi.NotesTree.notes_path_for_object_hex",
    "GitAi.NotesTree.witness_nonhex_slice_panics",
    "GitAi.NotesTree.compress_lines_wf",
    "GitAi.NotesTree.witness_compress_repeated_line",
    "GitAi.NotesTree.witness_compress_overflow",
    "GitAi.NotesTree.wf_ranges_from_line_function",
    "GitAi.NotesTree.postcommit_file_wf",
    "GitAi.NotesTree.merge_ranges_sorted_disjoint",
    "GitAi.NotesTree.merge_ranges_lists_only_input_lines",
    "GitAi.NotesTree.build_file_attestation_wf",
    "GitAi.NotesTree.witness_build_file_attestation_trusts_line_numbers",
    "GitAi.SquashNote.squash_args_name_merge_commit",
    "GitAi.SquashNote.squash_note_wf",
    "GitAi.SquashNote.squash_note_wf_extracted",
    "GitAi.SquashNote.witness_squash_final_state_at_source_head",
    "GitAi.SquashNote.witness_squash_source_head_names_absent_file",
    "GitAi.SquashNote.witness_squash_base_or_target_elsewhere",
    "GitAi.SquashNote.witness_squash_author_without_prompt",
    "GitAi.NotesTree.upsert_absent_file_removed",
    "GitAi.NotesTree.upsert_keeps_other_files",
    "GitAi.NotesTree.serialize_wf_grammar",
]

# file names equal to / containing the format's delimiters, and other awkward ones
SPECIAL_NAMES = [
    "---", "  lead.txt", "\"q\".txt", "\"", "tab\tname.txt", "unié🙂.txt", "trail ", "sp ace.txt", "a\"b.txt",
    "'single'.txt", "-dash.txt", "---/x.txt", "dir with space/f g.txt", "\"base_commit_sha\": \"x\".txt", "  ", "a,b-1.txt",
    "日本/語.txt", "cr\rname.txt", "trailing space ", "#hash.txt", "{brace}.json", "--", "a\\b.txt", " ls.txt",
]
PLAIN_NAMES = ["plain.txt", "src/main.rs", "lib/util.py", "README.md", "a/b/c/deep.txt"]


# ---------------------------------------------------------------- scenario context
class Ctx:
    def __init__(self, name, seed, env):
        self.name, self.seed, self.env = name, seed, env
        self.rng = random.Random(f"{name}:{seed}")
        self.trail, self.fails, self.tags = [], [], [name.split("#")[0]]
        self.stats = {}
        self.wfreqs = []          # (driver request, python verdict)
        self.batchreqs = []       # (driver request, expected tree)
        self.squashreqs = []      # (driver request `squash_note`, what the binary wrote)
        self.skip = set()
        self.repos = []
        self.special_attested = set()
        self.uid = 0
        self.ops = 0
        self.trace = os.path.join(env.root, "trace.jsonl")
        self.index = int(name.split("#")[1]) if "#" in name else 0

    def repo(self, name="r"):
        r = self.env.repo(name)
        self.repos.append(r)
        return r

    def summarize(self):
        """what the notes of this scenario actually attest (non-vacuity of the oracle)"""
        for r in self.repos:
            for path, blob, _ in wf.notes_tree(r):
                obj = path.replace("/", "")
                if obj in self.skip:
                    continue
                t = r.note_text(obj)
                if not t:
                    continue
                n = e2e.parse_note(t)
                files = [f for f, hs in n["files"].items() if hs]
                self.stats["notes_with_attestations"] = self.stats.get("notes_with_attestations", 0) + (1 if files else 0)
                self.stats["attested_files"] = self.stats.get("attested_files", 0) + len(files)
                for f in files:
                    if f in SPECIAL_NAMES or f.startswith("renamed/"):
                        self.special_attested.add(f)

    def lines(self, tag, n):
        out = []
        for _ in range(n):
            self.uid += 1
            out.append(f"{tag} {self.uid}")
        return out

    def op(self, what):
        self.trail.append(what)
        self.ops += 1

    def check(self, r, label):
        for sig, detail in wf.check_repo_notes(r, skip_objects=self.skip, stats=self.stats):
            self.fails.append((sig, {"scenario": self.name, "seed": self.seed, "after": label, "ops": list(self.trail)[-40:], "detail": detail}))

    # ---- editing helpers
    def write_lines(self, r, path, lines):
        r.write(path, "".join(l + "\n" for l in lines))

    def read_lines(self, r, path):
        t = r.read(path)
        return t.split("\n")[:-1] if t.endswith("\n") else (t.split("\n") if t else [])

    def human_edit(self, r, path, n=2):
        cur = self.read_lines(r, path) if r.exists(path) else []
        pos = self.rng.randint(0, len(cur))
        cur[pos:pos] = self.lines("human", n)
        self.write_lines(r, path, cur)
        r.human_checkpoint([path])
        self.op(f"human_edit {path!r} +{n}@{pos}")

    def human_rewrite_ai_line(self, r, path):
        """a person edits a line an AI session wrote (pending, not yet committed)"""
        cur = self.read_lines(r, path) if r.exists(path) else []
        idx = [i for i, l in enumerate(cur) if l.startswith("ai-")]
        if not idx:
            return False
        i = self.rng.choice(idx)
        cur[i] = "human rewrote: " + cur[i][3:]
        self.write_lines(r, path, cur)
        r.human_checkpoint([path])
        self.op(f"human rewrites AI line {i + 1} of {path!r}")
        return True

    def ai_edit(self, r, path, session, n=2, delete=0):
        cur = self.read_lines(r, path) if r.exists(path) else []
        for _ in range(min(delete, len(cur))):
            del cur[self.rng.randrange(len(cur))]
        pos = self.rng.randint(0, len(cur))
        cur[pos:pos] = self.lines(f"ai-{session}", n)
        self.write_lines(r, path, cur)
        r.ai_checkpoint(session, [path])
        self.op(f"ai_edit {path!r} by {session} +{n}@{pos} -{delete}")

    def commit(self, r, msg, extra=()):
        sha = r.commit(msg, extra=extra)
        self.op(f"commit {msg} -> {sha}")
        self.check(r, f"commit {msg}")
        return sha

    def git(self, r, *args, env=None, label=None):
        rc, out, err = r.git(*args, env=env)
        self.op(f"git {' '.join(args)} -> rc={rc}")
        self.check(r, label or f"git {' '.join(args)}")
        return rc, out, err

    def names(self, k, special=True):
        pool = (SPECIAL_NAMES if special else []) + PLAIN_NAMES
        # at most one name below "---/" and not both "---" and "---/x.txt" (file/dir clash)
        picked = []
        for nm in self.rng.sample(pool, len(pool)):
            top = nm.split("/")[0]
            clash = any((p == top and "/" in nm) or (nm == p.split("/")[0] and "/" in p) or p == nm for p in picked)
            if clash:
                continue
            picked.append(nm)
            if len(picked) == k:
                break
        return picked

    def lean_wf(self, r, commits):
        for c in commits:
            try:
                f = wf.note_facts(r, c)
                if f is not None:
                    self.wfreqs.append((f, wf.python_verdict(r, c)))
            except Exception:
                pass


# ---------------------------------------------------------------- notes-tree helpers (plain git)
def fan(obj, depth):
    d = depth
    while d > 0 and 2 * d >= len(obj):
        d -= 1
    return "/".join([obj[2 * i:2 * i + 2] for i in range(d)] + [obj[2 * d:]])


def tree_map(r):
    return {p: b for p, b, _ in wf.notes_tree(r)}


def relayout(cx, r, depth_for):
    rows = wf.notes_tree(r)
    if not rows:
        return
    script = "commit refs/notes/ai\ncommitter t <t@t> 1700000000 +0000\ndata 0\nfrom refs/notes/ai^0\n"
    moved = 0
    for path, blob, _ in rows:
        obj = path.replace("/", "")
        np = fan(obj, depth_for(obj))
        if np != path:
            script += f"D {path}\nM 100644 {blob} {np}\n"
            moved += 1
    if moved:
        r.plain_git("fast-import", "--quiet", input=(script + "\n").encode(), check=True)
    cx.op(f"relayout notes tree ({moved} entries moved)")


def seed_fake_notes(cx, r, objs, depth_for, content="filler\n"):
    """notes for objects that are not commits of this repository (what a fetched/merged notes ref of a
    big repository looks like)"""
    script = f"blob\nmark :1\ndata {len(content)}\n{content}\ncommit refs/notes/ai\ncommitter t <t@t> 1700000000 +0000\ndata 0\n"
    rc, out, _ = r.plain_git("rev-parse", "-q", "--verify", "refs/notes/ai")
    if rc == 0:
        script += "from refs/notes/ai^0\n"
    for o in objs:
        script += f"M 100644 :1 {fan(o, depth_for(o))}\n"
        cx.skip.add(o)
    r.plain_git("fast-import", "--quiet", input=(script + "\n").encode(), check=True)
    cx.op(f"seed {len(objs)} filler notes")


def hexs(rng, n):
    return "".join(rng.choice("0123456789abcdef") for _ in range(n))


def dense_seed(cx, r, prefixes):
    """enough filler notes that git itself, on its next write, stores the subtrees of `prefixes` at
    fan-out depth 2 (notes.c:determine_fanout: all 16 children of the node are internal)"""
    objs = []
    for a in "0123456789abcdef":
        objs += [a + hexs(cx.rng, 39) for _ in range(2)]
    for p in prefixes:
        for c in "0123456789abcdef":
            objs += [p + c + hexs(cx.rng, 37) for _ in range(2)]
    seed_fake_notes(cx, r, objs, lambda o: 0)


def touch_subtrees(cx, r, prefixes):
    """a plain `git notes add` inside each subtree: git rewrites (re-fans-out) that subtree"""
    for p in prefixes:
        o = p + hexs(cx.rng, 38)
        cx.skip.add(o)
        r.plain_git("notes", "--ref=ai", "add", "-f", "-m", "filler", o, check=True)
    cx.op(f"plain git notes add in subtrees {sorted(prefixes)}")


def base_repo(cx, names, lines=4):
    r = cx.repo()
    for nm in names:
        cx.write_lines(r, nm, cx.lines("base", lines))
    cx.commit(r, "base")
    return r


def traced_batch(cx, r, fn):
    """run `fn` (a rewrite op) with the internal-git trace on; when it made exactly one fast-import
    and no `notes add`, record a model-vs-observed correspondence for notes_add_batch"""
    before = tree_map(r)
    try:
        os.unlink(cx.trace)
    except FileNotFoundError:
        pass
    fn({"GIT_AI_VERIF_TRACE": cx.trace})
    after = tree_map(r)
    nfi = nadd = 0
    try:
        for line in open(cx.trace):
            try:
                a = json.loads(line).get("args") or []
            except Exception:
                continue
            if "fast-import" in a:
                nfi += 1
            if "notes" in a and "add" in a:
                nadd += 1
    except FileNotFoundError:
        pass
    if nfi == 1 and nadd == 0:
        entries = [[p.replace("/", ""), b] for p, b in after.items() if before.get(p) != b]
        if entries:
            cx.batchreqs.append(({"op": "nt_batch", "tree": [[p, b] for p, b in sorted(before.items())], "entries": entries},
                                 [[p, b] for p, b in sorted(after.items())]))
            cx.tags.append("batch-correspondence")


# ---------------------------------------------------------------- scenarios
def sc_commit(cx):
    names = cx.names(5)
    r = base_repo(cx, names)
    shas = []
    for rnd in range(3):
        for nm in names:
            k = cx.rng.random()
            if k < 0.5:
                cx.ai_edit(r, nm, cx.rng.choice(["s1", "s2"]), n=cx.rng.randint(1, 3), delete=cx.rng.randint(0, 1))
                if cx.rng.random() < 0.5:
                    cx.human_rewrite_ai_line(r, nm)
                if cx.rng.random() < 0.6:
                    # a second and third separate run of AI lines in the same file (another session sometimes)
                    cx.ai_edit(r, nm, cx.rng.choice(["s1", "s2"]), n=cx.rng.randint(1, 2))
                    cx.ai_edit(r, nm, cx.rng.choice(["s1", "s2"]), n=1)
            elif k < 0.75:
                cx.human_edit(r, nm)
        shas.append(cx.commit(r, f"c{rnd}"))
    cx.lean_wf(r, [s for s in shas if s])


def sc_amend(cx):
    names = cx.names(3)
    r = base_repo(cx, names)
    for nm in names[:2]:
        cx.ai_edit(r, nm, "s1")
    cx.commit(r, "c1")
    cx.ai_edit(r, names[2], "s2")
    cx.human_rewrite_ai_line(r, names[2])
    cx.human_edit(r, names[0])
    r.git("add", "-A")
    cx.git(r, "commit", "-q", "--amend", "-m", "c1 amended")
    cx.ai_edit(r, names[0], "s1", delete=1)
    r.git("add", "-A")
    cx.git(r, "commit", "-q", "--amend", "--no-edit")
    cx.lean_wf(r, [r.head()])


def _feature_and_main(cx, names, conflict_free_same_file):
    """main: base + m1; feature (from base): 3 AI commits. With `conflict_free_same_file` main also edits
    the feature's files (far from the AI lines) so tracked blobs differ → slow path."""
    r = base_repo(cx, names, lines=12)
    r.git("checkout", "-q", "-b", "feature")
    fshas = []
    for k in range(3):
        nm = names[k % len(names)]
        cur = cx.read_lines(r, nm)
        cur[6:6] = cx.lines("ai-s1", 2)
        cx.write_lines(r, nm, cur)
        r.ai_checkpoint("s1" if k < 2 else "s2", [nm])
        cx.op(f"ai_edit {nm!r} middle")
        fshas.append(cx.commit(r, f"f{k}"))
    r.git("checkout", "-q", "main")
    if conflict_free_same_file:
        for nm in names[:2]:
            cur = cx.read_lines(r, nm)
            cur[0:0] = cx.lines("main-top", 1)
            cx.write_lines(r, nm, cur)
    cx.write_lines(r, "main-only.txt", cx.lines("main", 2))
    cx.commit(r, "m1")
    return r, fshas


def sc_rebase(cx, slow, force_slow=False, seeded_depth=None):
    names = cx.names(3)
    r, fshas = _feature_and_main(cx, names, slow)
    r.git("checkout", "-q", "feature")
    if seeded_depth is not None:
        relayout(cx, r, seeded_depth)
        cx.check(r, "relayout")
    env = {"GIT_AI_VERIF_NO_FAST_PATH": "1"} if force_slow else {}
    traced_batch(cx, r, lambda tenv: cx.git(r, "rebase", "main", env={**env, **tenv}))
    rc, out, _ = r.plain_git("log", "--format=%H", "main..HEAD")
    new = out.split()
    notes = r.notes_list()
    missing = [c for c in new if c not in notes]
    if missing and len(new) == 3:
        cx.fails.append(("rewrite:note-missing-after-rebase", {"scenario": cx.name, "seed": cx.seed, "ops": cx.trail[-40:], "missing": missing}))
    cx.lean_wf(r, new)


def sc_cherry_pick(cx, slow, seeded_depth=None):
    names = cx.names(3)
    r, fshas = _feature_and_main(cx, names, slow)
    if seeded_depth is not None:
        relayout(cx, r, seeded_depth)
    picks = [s for s in fshas if s]
    if cx.rng.random() < 0.5:
        traced_batch(cx, r, lambda tenv: cx.git(r, "cherry-pick", *picks, env=tenv))
    else:
        for s in picks:
            cx.git(r, "cherry-pick", s)
    rc, out, _ = r.plain_git("log", "--format=%H", f"HEAD~{len(picks)}..HEAD")
    cx.lean_wf(r, out.split())


def sc_squash(cx):
    names = cx.names(3)
    r, fshas = _feature_and_main(cx, names, cx.rng.random() < 0.5)
    cx.git(r, "merge", "--squash", "feature")
    sha = cx.commit(r, "squashed", )
    if sha:
        cx.lean_wf(r, [sha])


def sc_reset(cx):
    names = cx.names(3)
    r = base_repo(cx, names)
    cx.ai_edit(r, names[0], "s1")
    cx.commit(r, "c1")
    cx.ai_edit(r, names[1], "s2")
    cx.human_edit(r, names[0])
    cx.commit(r, "c2")
    mode = cx.rng.choice(["--soft", "--mixed", "--hard"])
    cx.git(r, "reset", "-q", mode, "HEAD~1")
    if mode != "--hard":
        cx.ai_edit(r, names[2], "s1")
    else:
        cx.ai_edit(r, names[1], "s3")
    sha = cx.commit(r, "c2 again")
    cx.git(r, "reset", "-q", "--soft", "HEAD~2")
    sha2 = cx.commit(r, "both")
    cx.lean_wf(r, [s for s in (sha, sha2) if s])


def sc_delete_rename(cx):
    names = cx.names(4)
    r = base_repo(cx, names, lines=8)
    r.git("checkout", "-q", "-b", "feature")
    cx.ai_edit(r, names[0], "s1", n=3)
    cx.ai_edit(r, names[1], "s1", n=2)
    cx.commit(r, "f-add")
    # delete one AI file, rename the other, keep AI lines elsewhere
    r.git("rm", "-q", "--", names[0])
    cx.op(f"git rm {names[0]!r}")
    newname = "renamed/" + names[1].replace("/", "_") + ".moved"
    r.git("mv", "--", names[1], newname)
    cx.op(f"git mv {names[1]!r} {newname!r}")
    cx.ai_edit(r, names[2], "s2")
    f2 = cx.commit(r, "f-delete-rename")
    # a file created and deleted again with pending AI attribution
    cx.ai_edit(r, "temp-ai.txt", "s2", n=3)
    os.unlink(os.path.join(r.path, "temp-ai.txt"))
    cx.ai_edit(r, names[3], "s2")
    f3 = cx.commit(r, "f-after-temp")
    r.git("checkout", "-q", "main")
    cur = cx.read_lines(r, names[2])
    cur[0:0] = cx.lines("main-top", 1)
    cx.write_lines(r, names[2], cur)
    cx.commit(r, "m1")
    variant = ["rebase-slow", "rebase", "cherry-pick", "squash"][cx.index % 4]
    cx.tags.append(f"delete-rename:{variant}")
    if variant.startswith("rebase"):
        r.git("checkout", "-q", "feature")
        env = {"GIT_AI_VERIF_NO_FAST_PATH": "1"} if variant == "rebase-slow" else None
        cx.git(r, "rebase", "main", env=env)
        rc, out, _ = r.plain_git("log", "--format=%H", "main..HEAD")
        cx.lean_wf(r, out.split())
    elif variant == "cherry-pick":
        rc, out, _ = r.plain_git("log", "--reverse", "--format=%H", "main..feature")
        cx.git(r, "cherry-pick", *out.split())
        cx.lean_wf(r, [r.head()])
    else:
        cx.git(r, "merge", "--squash", "feature")
        sha = cx.commit(r, "squash")
        if sha:
            cx.lean_wf(r, [sha])
    # amend that deletes an AI file of the amended commit
    cx.ai_edit(r, "late.txt", "s1", n=2)
    cx.commit(r, "late")
    r.git("rm", "-q", "--", "late.txt")
    cx.git(r, "commit", "-q", "--amend", "-m", "late removed")
    cx.lean_wf(r, [r.head()])


def sc_git_refans(cx, op):
    """git itself moves the notes of the commits under rewrite to fan-out depth 2 (dense subtrees),
    then a git-ai batch operation runs"""
    names = cx.names(3, special=cx.rng.random() < 0.5)
    r, fshas = _feature_and_main(cx, names, False)
    commits = [s for s in fshas if s]
    prefixes = sorted({s[:2] for s in commits})
    dense_seed(cx, r, prefixes)
    touch_subtrees(cx, r, prefixes)
    depth = max((p.count("/") for p in tree_map(r)), default=0)
    cx.tags.append(f"git-chosen-depth={depth}")
    cx.check(r, "git re-fan-out")
    if op == "rebase":
        r.git("checkout", "-q", "feature")
        pin = {"GIT_COMMITTER_DATE": "1800000000 +0000"}
        traced_batch(cx, r, lambda tenv: cx.git(r, "rebase", "main", env={**pin, **tenv}))
        rc, out, _ = r.plain_git("log", "--format=%H", "main..HEAD")
        new = out.split()
        notes = r.notes_list()
        if len(new) == 3 and any(c not in notes for c in new):
            cx.fails.append(("rewrite:note-missing-after-rebase", {"scenario": cx.name, "seed": cx.seed, "ops": cx.trail[-40:],
                                                                   "missing": [c for c in new if c not in notes]}))
        # same rebase again (identical commit ids) after git re-fanned the new notes' subtrees
        newp = sorted({s[:2] for s in new})
        dense_seed(cx, r, newp)
        touch_subtrees(cx, r, newp)
        cx.check(r, "git re-fan-out 2")
        r.git("reset", "-q", "--hard", commits[-1])
        cx.git(r, "rebase", "main", env=pin)
        cx.lean_wf(r, new)
    else:
        cx.git(r, "cherry-pick", *commits)
        rc, out, _ = r.plain_git("log", "--format=%H", f"HEAD~{len(commits)}..HEAD")
        cx.lean_wf(r, out.split())


def sc_large(cx, n):
    """a large notes ref (filler notes for foreign objects, as after fetching a big project's notes),
    git's own re-fan-out, then ordinary work and a rebase on top"""
    names = cx.names(2, special=False)
    r = base_repo(cx, names, lines=10)
    objs = [hexs(cx.rng, 40) for _ in range(n)]
    d0 = cx.rng.choice([0, 1])
    seed_fake_notes(cx, r, objs, lambda o: d0)
    cx.tags.append(f"large:{n}")
    cx.check(r, "seed large")
    r.git("checkout", "-q", "-b", "feature")
    shas = []
    for k in range(3):
        cx.ai_edit(r, names[k % 2], "s1")
        shas.append(cx.commit(r, f"f{k}"))
    depth = max((p.count("/") for p in tree_map(r)), default=0)
    cx.tags.append(f"large-depth-after-commits={depth}")
    r.git("checkout", "-q", "main")
    cx.write_lines(r, "m.txt", cx.lines("main", 1))
    cx.commit(r, "m1")
    r.git("checkout", "-q", "feature")
    cx.git(r, "rebase", "main")
    rc, out, _ = r.plain_git("log", "--format=%H", "main..HEAD")
    new = out.split()
    notes = r.notes_list()
    if len(new) == 3 and any(c not in notes for c in new):
        cx.fails.append(("rewrite:note-missing-after-rebase", {"scenario": cx.name, "seed": cx.seed, "ops": cx.trail[-40:],
                                                               "missing": [c for c in new if c not in notes]}))
    cx.git(r, "commit", "-q", "--amend", "-m", "amended on large ref")
    cx.lean_wf(r, [r.head()])


def sc_rebase_later_file(cx):
    """regression (fix 4fd233ae): a tracked file that only a later rewritten commit changes, while the
    target branch shifted its lines — the earlier rewritten commits' notes must not mention it"""
    r = cx.repo()
    cx.write_lines(r, "a.txt", cx.lines("a", 8))
    cx.write_lines(r, "b.txt", cx.lines("b", 8))
    cx.commit(r, "base")
    r.git("checkout", "-q", "-b", "feature")
    cx.ai_edit(r, "a.txt", "s1", n=2)
    cx.commit(r, "c1")
    cur = cx.read_lines(r, "b.txt")
    cx.write_lines(r, "b.txt", cur + cx.lines("ai-s1", 2))
    r.ai_checkpoint("s1", ["b.txt"])
    cx.op("ai append b.txt")
    cx.commit(r, "c2")
    cx.ai_edit(r, "a.txt", "s2", n=1)
    cx.commit(r, "c3")
    r.git("checkout", "-q", "main")
    cx.write_lines(r, "b.txt", cx.lines("main-top", 1 + cx.index) + cx.read_lines(r, "b.txt"))
    cx.commit(r, "m1")
    if cx.index % 2 == 0:
        r.git("checkout", "-q", "feature")
        cx.git(r, "rebase", "main")
        rc, out, _ = r.plain_git("log", "--reverse", "--format=%H", "main..HEAD")
    else:
        cx.tags.append("later-file:cherry-pick")
        rc, out, _ = r.plain_git("log", "--reverse", "--format=%H", "main..feature")
        cx.git(r, "cherry-pick", *out.split())
        rc, out, _ = r.plain_git("log", "--reverse", "--format=%H", "HEAD~3..HEAD")
    new = out.split()
    if len(new) == 3:
        n1 = r.note(new[0])
        if n1 and any(hs for f, hs in n1["files"].items() if f == "b.txt"):
            cx.fails.append(("note:lists-file-untouched-by-commit", {"scenario": cx.name, "seed": cx.seed, "ops": cx.trail[-40:], "object": new[0]}))
    cx.lean_wf(r, new)


def sc_delete_recreate_in_range(cx):
    """a rewritten range in which one commit deletes an AI-attributed file and a later commit creates it
    again with AI lines, replayed through the content path (the target branch touched an AI file of the
    range): the note of the deleting commit, and of every commit until the file is back, must not
    name the file"""
    r = cx.repo()
    cx.write_lines(r, "a.txt", cx.lines("a", 8))
    cx.write_lines(r, "k.txt", cx.lines("k", 6))
    cx.commit(r, "base")
    r.git("checkout", "-q", "-b", "feature")
    cx.ai_edit(r, "b.txt", "s1", n=3)
    cx.ai_edit(r, "a.txt", "s1", n=1)
    cx.commit(r, "f1 adds b.txt")
    r.git("rm", "-q", "--", "b.txt")
    cx.op("git rm b.txt")
    cx.ai_edit(r, "k.txt", "s2", n=1)
    cx.commit(r, "f2 deletes b.txt")
    cx.ai_edit(r, "k.txt", "s1", n=1)
    cx.commit(r, "f3 without b.txt")
    cx.ai_edit(r, "b.txt", "s2", n=2 + cx.index % 2)
    cx.commit(r, "f4 b.txt again")
    r.git("checkout", "-q", "main")
    cur = cx.read_lines(r, "a.txt")
    cx.write_lines(r, "a.txt", cx.lines("main-top", 1 + cx.index % 3) + cur)
    cx.commit(r, "m1")
    variant = ["rebase", "rebase-forced", "cherry-pick"][cx.index % 3]
    cx.tags.append(f"delete-recreate:{variant}")
    if variant.startswith("rebase"):
        r.git("checkout", "-q", "feature")
        cx.git(r, "rebase", "main", env={"GIT_AI_VERIF_NO_FAST_PATH": "1"} if variant == "rebase-forced" else None)
        rc, out, _ = r.plain_git("log", "--reverse", "--format=%H", "main..HEAD")
    else:
        rc, out, _ = r.plain_git("log", "--reverse", "--format=%H", "main..feature")
        cx.git(r, "cherry-pick", *out.split())
        rc, out, _ = r.plain_git("log", "--reverse", "--format=%H", "HEAD~4..HEAD")
    cx.lean_wf(r, out.split())


def sc_squash_authorship(cx):
    """a squash merge made with plain git (as a forge does), whose note git-ai reconstructs afterwards
    (`git-ai squash-authorship <base> <new> <old>`), when the target branch changed the same file: the
    note's line numbers must exist in the squash commit's file"""
    r = cx.repo()
    n0 = 14 + cx.index % 5
    cx.write_lines(r, "a.txt", cx.lines("a", n0))
    cx.write_lines(r, "o.txt", cx.lines("o", 4))
    cx.commit(r, "base")
    r.git("checkout", "-q", "-b", "feature")
    cx.ai_edit(r, "a.txt", "s1", n=2)
    f1 = cx.commit(r, "F1")
    if cx.index % 2:
        cx.ai_edit(r, "o.txt", "s2", n=1)
        f1 = cx.commit(r, "F2")
    r.git("checkout", "-q", "main")
    cur = cx.read_lines(r, "a.txt")
    k = 2 + cx.index % 3
    cx.write_lines(r, "a.txt", cur[:2] + cur[2 + k:] if cx.index % 4 < 2 else cx.lines("main-top", k) + cur)
    cx.commit(r, "M1 changes the same file")
    rc, out, err = r.plain_git("merge", "-q", "--squash", "feature")
    cx.op("plain git merge --squash feature")
    if rc != 0:
        cx.tags.append("squash-authorship:conflict")
        return
    r.plain_git("commit", "-q", "-m", "Squash-merge feature (server side)")
    s_ = r.head()
    cx.op("plain git commit (no hooks)")
    rc, out, err = r.ai("squash-authorship", "main", s_, f1)
    cx.op(f"git-ai squash-authorship main {s_[:8]} {f1[:8]} rc={rc}")
    cx.tags.append("squash-authorship")
    cx.check(r, "squash-authorship")
    cx.lean_wf(r, [s_])


def sc_newline_name(cx):
    r = base_repo(cx, ["plain.txt"])
    cx.ai_edit(r, "nl\nname.txt", "s1")
    cx.commit(r, "newline name")


SCENARIOS = {
    "commit": sc_commit,
    "amend": sc_amend,
    "rebase-fast": lambda cx: sc_rebase(cx, slow=False),
    "rebase-slow": lambda cx: sc_rebase(cx, slow=True),
    "rebase-forced-slow": lambda cx: sc_rebase(cx, slow=False, force_slow=True),
    "rebase-seeded-depth0": lambda cx: sc_rebase(cx, slow=False, seeded_depth=lambda o: 0),
    "rebase-seeded-depth1": lambda cx: sc_rebase(cx, slow=cx.rng.random() < 0.5, seeded_depth=lambda o: 1),
    "rebase-seeded-depth2": lambda cx: sc_rebase(cx, slow=cx.rng.random() < 0.5, seeded_depth=lambda o: 2),
    "rebase-seeded-mixed": lambda cx: sc_rebase(cx, slow=cx.rng.random() < 0.5, seeded_depth=lambda o: int(o[0], 16) % 4),
    "cherry-pick-fast": lambda cx: sc_cherry_pick(cx, slow=False),
    "cherry-pick-slow": lambda cx: sc_cherry_pick(cx, slow=True),
    "cherry-pick-seeded-depth2": lambda cx: sc_cherry_pick(cx, slow=cx.rng.random() < 0.5, seeded_depth=lambda o: 2),
    "squash": sc_squash,
    "reset-recommit": sc_reset,
    "delete-rename": sc_delete_rename,
    "git-refans-rebase": lambda cx: sc_git_refans(cx, "rebase"),
    "git-refans-cherry-pick": lambda cx: sc_git_refans(cx, "cherry-pick"),
    "rebase-later-file": sc_rebase_later_file,
    "delete-recreate-in-range": sc_delete_recreate_in_range,
    "squash-authorship": sc_squash_authorship,
    "outside-writer": c05_squash.scenario,
    "large-600": lambda cx: sc_large(cx, 600),
    "newline-name": sc_newline_name,
}


def sc_cherry_pick_anticipated(cx):
    """The target branch has ALREADY dropped the head of the file; the LAST picked commit drops it too (git merges the
    identical deletion cleanly), the earlier picked commits append AI lines at the end: the last (original, new) pair is
    blob-identical on the AI-touched file, the earlier pairs are not — their AI lines sit `k` lines higher than the
    originals' notes say, past the end of the rewritten file if a note were copied verbatim. One or two earlier commits,
    1–4 dropped lines, one multi-commit `cherry-pick` or the rebase of the same series.
    (independently written regression C05-seed3: the fast path compared the last pair only)"""
    nm = cx.names(1)[0]
    r = base_repo(cx, [nm], lines=10)
    k = cx.rng.randint(1, 4)
    early = cx.rng.randint(1, 2)
    use_rebase = cx.rng.random() < 0.4
    r.git("checkout", "-q", "-b", "feature")
    fshas = []
    for j in range(early):
        cur = cx.read_lines(r, nm)
        cur += cx.lines("ai-s1", cx.rng.randint(1, 3))
        cx.write_lines(r, nm, cur)
        r.ai_checkpoint("s1" if j == 0 else "s2", [nm])
        cx.op(f"ai append {nm!r}")
        fshas.append(cx.commit(r, f"f{j}"))
    cur = cx.read_lines(r, nm)[k:]
    cx.write_lines(r, nm, cur)
    r.human_checkpoint([nm])
    cur += cx.lines("ai-s3", 1)
    cx.write_lines(r, nm, cur)
    r.ai_checkpoint("s3", [nm])
    cx.op(f"person drops the first {k} lines, ai append {nm!r}")
    fshas.append(cx.commit(r, "f-last"))
    r.git("checkout", "-q", "main")
    cx.write_lines(r, nm, cx.read_lines(r, nm)[k:])
    cx.commit(r, f"main drops the first {k} lines too")
    cx.tags.append(f"anticipated:{'rebase' if use_rebase else 'cherry-pick'}:early={early}:k={k}")
    if use_rebase:
        r.git("checkout", "-q", "feature")
        traced_batch(cx, r, lambda tenv: cx.git(r, "rebase", "main", env=tenv))
        rc, out, _ = r.plain_git("log", "--format=%H", "main..HEAD")
    else:
        picks = [s_ for s_ in fshas if s_]
        traced_batch(cx, r, lambda tenv: cx.git(r, "cherry-pick", *picks, env=tenv))
        rc, out, _ = r.plain_git("log", "--format=%H", f"HEAD~{len(picks)}..HEAD")
    cx.lean_wf(r, out.split())


SCENARIOS["cherry-pick-anticipated"] = sc_cherry_pick_anticipated


def run_scenario(name, seed):
    out = {"name": name, "seed": seed, "fails": [], "tags": [], "stats": {}, "wfreqs": [], "batchreqs": [], "squashreqs": [], "error": None, "ops": 0, "ncmd": 0}
    fn = SCENARIOS.get(name.split("#")[0])
    try:
        with e2e.Env() as env:
            cx = Ctx(name, seed, env)
            try:
                if fn is None and name.startswith("large-"):
                    sc_large(cx, int(name.split("#")[0].split("-")[1]))
                else:
                    fn(cx)
            except Exception:
                out["error"] = traceback.format_exc()[-1500:]
            try:
                cx.summarize()
            except Exception:
                pass
            cx.tags += ["attested-name:" + repr(f) for f in sorted(cx.special_attested)]
            out.update(fails=cx.fails, tags=cx.tags, stats=cx.stats, wfreqs=cx.wfreqs, batchreqs=cx.batchreqs, squashreqs=cx.squashreqs, ops=cx.ops, ncmd=env.ncmd)
    except Exception:
        out["error"] = traceback.format_exc()[-1500:]
    return out


def plan(tier, seed):
    reps = 2 if tier == "quick" else 20
    jobs = []
    for name in SCENARIOS:
        k = 1 if name in ("newline-name", "large-600") else 24 * (1 if tier == "quick" else 5) if name == "outside-writer" else (max(reps, 4) if name in ("delete-rename", "squash-authorship") else (max(reps, 3) if name in ("delete-recreate-in-range", "cherry-pick-anticipated") else reps))
        for i in range(k):
            jobs.append((f"{name}#{i}", seed * 1000 + i))
    if tier == "thorough":
        jobs += [("large-5000#0", seed), ("large-20000#0", seed), ("large-20000#1", seed + 1)]
    return jobs


def phase_e2e(res, tier, seed, jobs=None, name="e2e:WF of every note after every operation"):
    jobs = jobs if jobs is not None else plan(tier, seed)
    with concurrent.futures.ThreadPoolExecutor(16) as ex:
        results = list(ex.map(lambda j: run_scenario(*j), jobs))
    errors = [r for r in results if r["error"]]
    wfreqs, batchreqs, squashreqs = [], [], []
    totals = {"ops": 0, "git_commands": 0, "notes_seen": 0, "note_verdicts": 0, "max_fanout_depth": 0, "not_a_commit": 0, "notes_with_attestations": 0, "attested_files": 0}
    for r in results:
        res.count_case(f"{r['name']}:{r['seed']}")
        res.tag(["e2e:" + t for t in r["tags"]])
        totals["ops"] += r["ops"]
        totals["git_commands"] += r["ncmd"]
        totals["notes_seen"] += r["stats"].get("notes", 0)
        totals["note_verdicts"] += r["stats"].get("checked", 0)
        totals["not_a_commit"] += r["stats"].get("not_a_commit", 0)
        totals["notes_with_attestations"] += r["stats"].get("notes_with_attestations", 0)
        totals["attested_files"] += r["stats"].get("attested_files", 0)
        totals["max_fanout_depth"] = max(totals["max_fanout_depth"], r["stats"].get("max_depth", 0))
        for sig, w in r["fails"]:
            res.oracle_failure(sig, w, what=f"C05 end-to-end oracle: {sig}")
        wfreqs += r["wfreqs"]
        batchreqs += r["batchreqs"]
        squashreqs += [(q, o, r["name"], r["seed"]) for q, o in r["squashreqs"]]
    # every (operation, repository) state checked is an evaluation; every note verdict a distinct one
    res.evaluations += totals["ops"]
    res.extra.setdefault("e2e", {}).update(totals)
    res.obligation(name, not errors, "e2e")
    if errors:
        res.broken_tie(name, {"scenario_errors": [(r["name"], r["error"]) for r in errors[:3]]})
    if results:
        r0 = results[0]
        res.sample({"scenario": r0["name"], "ops": r0["ops"], "stats": r0["stats"]})
    # Lean `WFText` vs the Python oracle on real notes
    bad = []
    if wfreqs:
        resp = C.run_driver([q for q, _ in wfreqs])
        for (q, py), m in zip(wfreqs, resp):
            if m.get("wf") is not py:
                bad.append({"req": C.trunc(q, 1500), "python": py, "lean": m})
        res.tag([f"e2e:wf-verdict={py}" for _, py in wfreqs])
    res.obligation("correspondence:e2e Lean WFText = Python WF oracle on real notes", not bad, "correspondence")
    if bad:
        res.broken_tie("correspondence:e2e Lean WFText = Python WF oracle", {"disagreements": len(bad), "of": len(wfreqs), "first": bad[0]})
    # model of notes_add_batch vs the observed notes tree across real rebases / cherry-picks
    bad2 = []
    if batchreqs:
        resp = C.run_driver([q for q, _ in batchreqs])
        for (q, want), m in zip(batchreqs, resp):
            got = (m.get("ok") or {}).get("tree")
            if got != sorted(want):
                bad2.append({"req": C.trunc(q, 1500), "observed": C.trunc(want, 800), "model": C.trunc(m, 800)})
    res.obligation("correspondence:e2e notes_add_batch model = observed notes tree", not bad2, "correspondence")
    if bad2:
        res.broken_tie("correspondence:e2e notes_add_batch model = observed notes tree", {"disagreements": len(bad2), "of": len(batchreqs), "first": bad2[0]})
    # model of rewrite_authorship_after_squash_or_rebase (Model/SquashNote.lean, call-site arguments as extracted
    # from the current source) vs the note the binary wrote, on the outside-writer scenarios
    bad3 = []
    if squashreqs:
        resp = C.run_driver([q for q, _, _, _ in squashreqs])
        for (q, obs, nm, sd), m in zip(squashreqs, resp):
            if not C.subset_eq(obs, m):
                bad3.append({"scenario": nm, "seed": sd, "observed": C.trunc(obs, 900), "model": C.trunc(m, 900), "req": C.trunc(q, 2500)})
            res.tag([f"e2e:squash-model:prompts_ok={m.get('prompts_ok')}", f"e2e:squash-model:written={m.get('written')}",
                     f"e2e:squash-model:attested-entries={min(len(m.get('attested') or []), 3)}"])
    res.obligation("correspondence:e2e squash/CI note model (Model/SquashNote.lean) = note the binary wrote", not bad3, "correspondence")
    if bad3:
        res.broken_tie("correspondence:e2e squash/CI note model = note the binary wrote", {"disagreements": len(bad3), "of": len(squashreqs), "first": bad3[0]})
    res.extra["e2e"].update({"lean_wf_compared": len(wfreqs), "batch_model_compared": len(batchreqs), "squash_model_compared": len(squashreqs),
                             "scenarios": len(results)})
    return bool(errors or bad or bad2 or bad3)


def replay_cli(path, spec):
    """./check C05 --replay <file>: an end-to-end failing input is re-executed exactly (scenario name + scenario seed
    recorded in the witness); anything else re-runs the recorded tier at the recorded seed."""
    import re
    w = spec.get("witness") if isinstance(spec.get("witness"), dict) else {}
    if spec.get("kind") == "failing-input" and isinstance(w.get("scenario"), str) and isinstance(w.get("seed"), int) \
            and w["scenario"].split("#")[0] in SCENARIOS:
        ok, out = C.build_git_ai()
        if not ok:
            C.log("git-ai build failed"); return 1
        r = run_scenario(w["scenario"], w["seed"])
        live = [(sig, d) for sig, d in r["fails"] if not C.finding_for(PROP, sig)]
        for sig, d in live[:5]:
            C.log(f"REPRODUCED {sig}: {json.dumps(d, ensure_ascii=False)[:900]}")
        if r["error"]:
            C.log(r["error"])
        if live:
            C.log(f"VIOLATION property={PROP} replay={path}")
            return 1
        C.log(f"[{PROP}] replay of {w['scenario']} seed {w['seed']}: no oracle failed ({r['ops']} operations checked)")
        return 0
    m = re.search(r"-(\d+)-(quick|thorough)\.json$", path)
    return run(spec.get("tier") or (m.group(2) if m else "quick"), int(spec.get("seed") or (m.group(1) if m else 1)))


def run(tier, seed):
    res = C.Result(PROP, tier, seed)
    res.rule = ("in-process: (a) git-ai's notes path helpers / fast-import commands on generated object names, LineRange::compress_lines, "
                "upsert_file_attestation on generated inputs; (b) the real notes_add / notes_add_batch / note_blob_oids_for_commits on a scratch "
                "git repository whose notes tree is pre-seeded at mixed fan-out depths 0..19, one case per operation, the model run on the "
                "observed tree; end-to-end: histories built with the real binary (commit, amend, rebase fast/slow, cherry-pick, merge --squash, "
                "reset+recommit, delete/rename, notes trees at depth 0/1/2/mixed, git's own re-fan-out, large refs; notes written outside the wrapper: "
                "squash-authorship / ci local merge (squash, single-commit rebase, multi-commit rebase) x target branch {deleted lines above, inserted above, "
                "deleted the file, renamed the file, edited the AI lines, left the file alone}), the WF oracle run on the "
                "whole repository after every operation; evaluations = in-process cases + end-to-end operations checked; distinct = distinct "
                "request JSON / scenario instances")
    res.trusted = ["Lean 4.33 kernel (axioms: propext, Quot.sound, Classical.choice only)",
                   "harness/src/suites/c05.rs generators and canonicalisation; vlib/wf.py + e2e.parse_note (independent Python WF oracle)",
                   "extract/squash_args.py (textual extraction of which commit five call sites of the squash/CI note writer name)",
                   "vlib/props/c05_squash.py (line-id abstraction of file contents; VirtualAttributions recomputed from plain git blame + parsed notes)",
                   "real git 2.39 as the reference for notes-tree semantics (kernel model validated by correspondence, not proved)"]
    res.assumptions = ["object names are lower-case hex of one length per repository",
                       "git's notes writer may place every note at any fan-out depth (model: arbitrary layout function); fast-import D/M semantics as modelled",
                       "metadata JSON opaque (serde trusted); prompt keys / base_commit_sha supplied to WF as values",
                       "squash/CI note model: content-identity level (a line is its id, a faithful diff keeps a line's author iff its id survives — the tracker's line-level behaviour, C16); "
                       "git's merge result, diff_changed_files and blame are inputs; every non-human author a VirtualAttributions names has a prompt record in it (PromptsOK)",
                       "u32 as Nat with explicit <= u32::MAX guards; debug-build overflow semantics for compress_lines"]
    # which commit the call sites of rewrite_authorship_after_squash_or_rebase name, re-read from the current source
    try:
        import importlib.util
        spec = importlib.util.spec_from_file_location("extract_squash_args", os.path.join(C.VERIF, "extract", "squash_args.py"))
        X = importlib.util.module_from_spec(spec); spec.loader.exec_module(X)
        res.extra["extraction"] = X.main()
        res.obligation("extract call-site arguments of rewrite_authorship_after_squash_or_rebase", True, "extraction")
    except Exception as ex:
        res.obligation("extract call-site arguments of rewrite_authorship_after_squash_or_rebase", False, "extraction")
        res.broken_tie("extract:squash_args", repr(ex))
    C.phase_proofs(res, PROP, THEOREMS)
    ok, out = C.build_harness()
    if not ok:
        res.obligation("build harness against the repository's working tree", False, "build")
        res.broken_tie("harness build", out[-3000:])
        return res.finish()
    ok, out = C.build_git_ai()
    if not ok:
        res.obligation("build git-ai binary from the repository's working tree", False, "build")
        res.broken_tie("git-ai build", out[-3000:])
        return res.finish()
    corpus = os.path.join(C.VERIF, "corpus", "C05", "cases.jsonl")
    n1, n2 = (3000, 250) if tier == "quick" else (120000, 6000)
    bad1, _ = C.phase_suite(res, "c05", seed, n1, corpus)
    bad2, _ = C.phase_suite(res, "c05repo", seed, n2, corpus)
    bad3 = phase_e2e(res, tier, seed)
    if (bad1 or bad2 or bad3 or res.broken) and not res.violations:
        # a tie broke and no oracle has failed yet: search harder on the implementation
        for s in range(seed + 1000, seed + 1004):
            C.phase_suite(res, "c05", s, 20000, None, name=f"search:c05:{s}")
            C.phase_suite(res, "c05repo", s, 800, None, name=f"search:c05repo:{s}")
            if res.violations:
                break
        if not res.violations:
            phase_e2e(res, "quick", seed + 7, name="search:e2e")
        res.extra["search"] = ("4 extra seeds x (20000 pure + 800 real-repository cases) and one more end-to-end round, "
                               "all oracles evaluated on the implementation")
    return res.finish()
