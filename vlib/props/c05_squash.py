"""C05 — notes written OUTSIDE the wrapper path (`git-ai squash-authorship`, `git-ai ci local merge` with a
local bare `origin`): every writer × every shape of change the TARGET branch made to the same AI-touched file
after the branch point. Used by vlib/props/c05.py (scenario `outside-writer`).

For the two writers that go through `rewrite_authorship_after_squash_or_rebase` the scenario also records a
model request (driver op `squash_note`, Model/SquashNote.lean): commits as line-id lists, the two
VirtualAttributions recomputed here independently (plain `git blame --line-porcelain` + the notes parsed by
`e2e.parse_note`, bounded by the merge base), and what the binary wrote."""
import re

from vlib import e2e, wf

WRITERS = ["squash-authorship", "ci-squash", "ci-rebase-single", "ci-rebase-multi"]
SHAPES = ["delete-above", "insert-above", "file-deleted", "file-renamed", "ai-lines-edited", "untouched"]
HEADER = re.compile(r"^([0-9a-f]{40}) (\d+) (\d+)")


def variant(index):
    """all 24 (writer, shape) pairs in 24 consecutive indices"""
    return WRITERS[index % 4], SHAPES[(index // 4) % 6]


def blob_lines(r, rev, path):
    rc, out = wf._raw(r, "cat-file", "blob", f"{rev}:{path}")
    if rc != 0:
        return None
    t = out.decode("utf-8", "replace")
    return t.split("\n")[:-1] if t.endswith("\n") else (t.split("\n") if t else [])


def blame_lines(r, sha, path):
    """[(commit, original line, original path)] per line of `path` at `sha` (plain git)"""
    rc, out = wf._raw(r, "blame", "--line-porcelain", sha, "--", path)
    res, cur, fname = [], None, None
    for line in out.decode("utf-8", "replace").split("\n"):
        if line.startswith("\t"):
            if cur:
                res.append((cur[0], cur[1], fname))
            cur = None
            continue
        m = HEADER.match(line)
        if m and cur is None:
            cur = (m.group(1), int(m.group(2)))
        elif line.startswith("filename "):
            fname = line[9:]
    return res


class Ids:
    def __init__(self):
        self.m = {}

    def of(self, lines):
        return [self.m.setdefault(l, len(self.m) + 1) for l in lines]


def tree_of(r, sha, ids):
    return {"sha": sha, "files": [[p, ids.of(blob_lines(r, sha, p) or [])] for p in sorted(wf.commit_tree(r, sha))]}


def va_of(r, sha, base, paths, ids):
    """`VirtualAttributions::new_for_base_commit(sha, paths, blame_start = base)` at line level"""
    rc, out = wf._raw(r, "rev-list", f"{base}..{sha}")
    commits = set(out.decode().split())
    notes = {c: r.note(c) for c in commits}
    keys = set()
    for n in notes.values():
        if n and isinstance(n.get("meta"), dict):
            keys |= set((n["meta"].get("prompts") or {}).keys())
    files = []
    for p in paths:
        lines = blob_lines(r, sha, p)
        if lines is None:
            continue
        authors = []
        for (c, ol, of) in blame_lines(r, sha, p):
            a = None
            if c in commits and notes.get(c):
                a = e2e.note_line_authors(notes[c], of).get(ol)
            authors.append(a)
        if len(authors) != len(lines):
            return None
        files.append([p, ids.of(lines), authors])
    return {"files": files, "prompt_keys": sorted(keys)}


def model_request(r, fhead, target, merge, base):
    ids = Ids()
    rc, out = wf._raw(r, "diff", "--name-only", "-z", "--no-renames", fhead, target)
    diff = [b.decode("utf-8", "replace") for b in out.split(b"\0") if b]
    rc, out = wf._raw(r, "rev-list", f"{base}..{fhead}")
    touched, has_notes = set(), False
    for c in out.decode().split():
        n = r.note(c)
        if n:
            has_notes = True
            touched |= {f for f, hs in n["files"].items() if hs}
    changed = [p for p in diff if p in touched]
    sva, tva = va_of(r, fhead, base, changed, ids), va_of(r, target, base, changed, ids)
    if sva is None or tva is None:
        return None
    return {"op": "squash_note", "source": tree_of(r, fhead, ids), "target": tree_of(r, target, ids), "merge": tree_of(r, merge, ids),
            "changed": changed, "source_va": sva, "target_va": tva, "source_has_notes": has_notes}


def observed(r, merge):
    n = r.note(merge)
    if n is None:
        return {"written": False}
    att = sorted([p, h, sorted(ls)] for p, hs in n["files"].items() for h, ls in hs.items())
    meta = n["meta"] if isinstance(n["meta"], dict) else {}
    return {"written": True, "on": merge, "base": meta.get("base_commit_sha"), "attested": att}


def scenario(cx):
    writer, shape = variant(cx.index)
    cx.tags += [f"outside-writer:{writer}", f"outside-shape:{shape}", f"outside:{writer}/{shape}"]
    r = cx.repo()
    n0 = 10 + cx.rng.randint(0, 6)
    cx.write_lines(r, "a.txt", cx.lines("a", n0))
    cx.write_lines(r, "o.txt", cx.lines("o", 4))
    cx.commit(r, "base")
    base = r.head()
    r.git("checkout", "-q", "-b", "feature")
    cur = cx.read_lines(r, "a.txt")
    mid = cx.rng.randint(5, 7)
    if shape == "ai-lines-edited":
        cur[mid:mid + 2] = cx.lines("ai-s1", 2)          # the agent REPLACES two lines the target will also edit
    elif cx.rng.random() < 0.5:
        cur[mid:mid] = cx.lines("ai-s1", 1)             # and sometimes adds one in the middle
    cur = cur + cx.lines("ai-s1", 2 + cx.rng.randint(0, 1))   # … and always appends at the end of the file
    cx.write_lines(r, "a.txt", cur)
    r.ai_checkpoint("s1", ["a.txt"])
    cx.op("ai edit a.txt (tail" + (", middle)" if len(cur) > n0 + 3 else ")"))
    if shape == "file-deleted" or cx.rng.random() < 0.5:
        cx.ai_edit(r, "o.txt", "s2", n=1)             # same commit, another file and session
    fs = [cx.commit(r, "F1")]
    if writer == "ci-rebase-multi" or (writer != "ci-rebase-single" and cx.rng.random() < 0.4):
        cx.ai_edit(r, "o.txt", "s2", n=1)
        fs.append(cx.commit(r, "F2"))
        if writer == "ci-squash" and cx.rng.random() < 0.6:
            # more commits on the branch than the target has behind the merge commit: `ci` takes its squash branch
            for k in (3, 4):
                cx.ai_edit(r, "o.txt", "s1" if k == 3 else "s2", n=1)
                fs.append(cx.commit(r, f"F{k}"))
    fhead = fs[-1]
    r.git("checkout", "-q", "main")
    cur = cx.read_lines(r, "a.txt")
    k = cx.rng.randint(1, 3)
    if shape == "delete-above":
        cx.write_lines(r, "a.txt", cur[:1] + cur[1 + k:])
    elif shape == "insert-above":
        cx.write_lines(r, "a.txt", cx.lines("main-top", k) + cur)
    elif shape == "file-deleted":
        r.git("rm", "-q", "--", "a.txt")
    elif shape == "file-renamed":
        r.git("mv", "--", "a.txt", "b.txt")
    elif shape == "ai-lines-edited":
        cur[mid:mid + 2] = cx.lines("main-edit", 2)
        cx.write_lines(r, "a.txt", cx.lines("main-top", k) + cur)
    else:
        cx.write_lines(r, "m.txt", cx.lines("main", 1))
    cx.op(f"target branch: {shape} (k={k})")
    m1 = cx.commit(r, "M1")
    origin = cx.env.repo("origin.git", bare=True)
    r.plain_git("remote", "add", "origin", origin.path)
    r.plain_git("push", "-q", "origin", "main", "feature", "refs/notes/ai:refs/notes/ai", check=True)

    def resolve():
        # a person resolves the conflict with plain git (as on a forge / in an editor)
        if shape == "file-deleted":
            r.plain_git("rm", "-q", "--", "a.txt")
        elif shape == "ai-lines-edited":
            src = blob_lines(r, fhead, "a.txt")
            src[mid] = cx.lines("PERSONREWRITE", 1)[0].replace(" ", "")
            cx.write_lines(r, "a.txt", blob_lines(r, m1, "a.txt")[:k] + src)
            r.plain_git("add", "a.txt")
        else:
            r.plain_git("add", "-A")
        cx.op("conflict resolved by hand")
        cx.tags.append("outside:conflict-resolved")

    news = []
    if writer in ("squash-authorship", "ci-squash"):
        rc, _, _ = r.plain_git("merge", "-q", "--squash", "feature")
        if rc != 0:
            resolve()
        rc, _, err = r.plain_git("commit", "-q", "-m", "squash-merge feature (server side)")
        if rc != 0:
            cx.tags.append("outside:empty-merge")
            return
        news = [r.head()]
    else:
        for f in fs:
            rc, _, _ = r.plain_git("cherry-pick", f)
            if rc != 0:
                resolve()
                rc, _, _ = r.plain_git("cherry-pick", "--continue")
                if rc != 0:
                    r.plain_git("cherry-pick", "--skip")
                    cx.tags.append("outside:empty-pick-skipped")
                    continue
            news.append(r.head())
        if not news:
            return
    merge = r.head()
    cx.op(f"plain git {'merge --squash + commit' if len(news) == 1 and writer.endswith('squash') or writer == 'squash-authorship' else 'cherry-pick x%d' % len(news)} -> {merge[:8]}")
    r.plain_git("push", "-q", "origin", "main", check=True)
    if writer == "squash-authorship":
        rc, out, err = r.ai("squash-authorship", "main", merge, fhead)
    else:
        rc, out, err = r.ai("ci", "local", "merge", "--merge-commit-sha", merge, "--base-ref", "main", "--head-ref", "feature",
                            "--head-sha", fhead, "--base-sha", m1)
    cx.op(f"git-ai {writer} rc={rc}")
    if rc != 0:
        cx.fails.append(("outside-writer:command-failed", {"scenario": cx.name, "seed": cx.seed, "ops": cx.trail[-40:], "stderr": err[-600:]}))
    cx.check(r, writer)
    cx.check(origin, writer + " (origin)")
    cx.lean_wf(r, news)
    # `ci` picks the per-commit rebase writer when it finds as many single-parent commits behind the merge commit
    # as the pull request had (also for a squash of an n-commit branch onto a target with ≥ n-1 commits)
    via_squash_fn = writer == "squash-authorship" or "Detected rebase merge" not in out
    cx.tags.append("outside:via-" + ("squash-fn" if via_squash_fn else "rebase-v2"))
    for phrase in ("Detected squash merge", "Detected rebase merge", "Single commit PR"):
        if phrase in out:
            cx.tags.append("outside:ci says " + phrase)
    if via_squash_fn and rc == 0:
        # the squash function wrote (or declined to write) the note of `merge`
        req = model_request(r, fhead, m1, merge, base)
        if req is not None:
            cx.squashreqs.append((req, observed(r, merge)))
            cx.tags.append("outside:model-compared")
