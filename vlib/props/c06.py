"""C06 — running git through git-ai is indistinguishable from running git (DESIGN §8 C06).

Phases: extract (wrapper inventories → Extracted/WrapperTables.lean) → prove (Props/C06.lean: inventory_confined,
argv_identity, transparent, refusal_only_precommit + audit) → build the binary → corpus → **twin-run differential**: the
same generated command sequence (porcelain and plumbing, valid and invalid, global options, aliases, pathspecs, `--`,
help/version, stdin) is applied to twin repositories — one through the proxy, one with plain git, identical
dates/authors — and after every command exit code, stdout and every component of U are compared → run-time validation
of the call inventory against GIT_AI_VERIF_TRACE → search when a tie broke.

`./check C06 quick --replay <file>` re-executes the step list of a replay / corpus entry."""
import concurrent.futures, json, os, random, sys, time, traceback

from vlib import common as C, e2e
from vlib.props import c06_util as U, c06_sig as SIG, c06_hooks as HK

PROP = "C06"
THEOREMS = [
    "GitAi.C06.inventory_confined",
    "GitAi.C06.skeleton_holds",
    "GitAi.C06.child_argv",
    "GitAi.C06.argv_identity",
    "GitAi.C06.transparent",
    "GitAi.C06.hooks_never_touch_u",
    "GitAi.C06.refusal_only_precommit",
    "GitAi.C06.refused_only_commit_or_startup",
    "GitAi.C06.demoHooks_wf",
    "GitAi.C06.witness_unconfined_post_hook",
    "GitAi.C06.witness_post_exit_overrides_status",
    "GitAi.C06.exit_shape_holds",
    "GitAi.C06.signal_death_mirrored",
    "GitAi.C06.exit_code_mirrored",
    "GitAi.C06.status_mirrored",
    "GitAi.C06.witness_fixed_list_fails_sigpipe",
    "GitAi.C06.sigpipe_mirrored_iff_reset",
    "GitAi.C06.user_hooks_table_ok",
    "GitAi.C06.user_hooks_run_exactly_once_partial",
    "GitAi.C06.witness_default_dir_hooks_dead",
    "GitAi.C06.witness_skip_without_forward_check",
]
CORPUS = os.path.join(C.VERIF, "corpus", "C06", "cases.jsonl")
ALIASES = {"ci": "commit", "st": "status -s", "lg": "log --oneline -3", "unstage": "reset HEAD --", "sh": "!echo shell-alias",
           "amend": "commit --amend --no-edit", "co": "checkout", "last": "log -1 --format='%h %s'"}
FILES = ["f1.txt", "f2.txt", "d/f3.txt", "sp ace.txt", "-dash.txt"]


# ------------------------------------------------------------------------------------------ executing one step

class Runner:
    """Executes steps on the twins and compares after every git command. Steps are plain JSON (replayable)."""

    def __init__(self, env):
        self.env = env
        self.tw = U.Twins(env)
        self.failures = []
        self.steps = []
        self.ngit = 0

    def setup(self):
        for k, v in ALIASES.items():
            for r in (self.tw.p, self.tw.g):
                r.plain_git("config", f"alias.{k}", v, check=True)
        d = self.tw.compare_u()
        if d:
            self.failures.append(("setup-differs", d[0][1]))

    def do(self, st):
        self.steps.append(st)
        op = st["op"]
        tw = self.tw
        if op == "write":
            tw.write(st["path"], st["content"])
        elif op == "remove":
            tw.remove(st["path"])
        elif op == "ai":
            tw.ai_edit(st["session"], st["path"], st["content"])
            # a checkpoint is not a git command, but it must not touch U either
            self.check_u(st, "after-checkpoint")
        elif op == "peer":
            tw.peer_commit(st["path"], st["content"], st["msg"])
        elif op == "git":
            self.ngit += 1
            argv = st["argv"]
            r = tw.git(argv, cwd=st.get("cwd", ""), input=st.get("input", "").encode() if st.get("input") is not None else None,
                       extra_env=st.get("env"))
            (prc, pout, perr), (grc, gout, gerr) = r["proxy"], r["plain"]
            label = U.cmd_label(argv)
            st["rc"] = grc
            if label == "clone":
                pout = "".join(l for l in pout.splitlines(True) if not l.startswith("Fetching git-ai authorship notes"))
            if prc != grc:
                self.failures.append((f"status-differs:{label}", {"argv": argv, "proxy_rc": prc, "plain_rc": grc,
                                                                    "proxy_stderr": perr[-1200:], "plain_stderr": gerr[-600:]}))
            elif not U.names_ai(argv) and pout != gout:
                self.failures.append((f"stdout-differs:{label}", {"argv": argv, "proxy_stdout": pout[:1200], "plain_stdout": gout[:1200]}))
            self.check_u(st, label, carve=U.names_ai(argv))
            if "clone_target" in st:
                self.check_clone(st)
        else:
            raise ValueError(op)

    def check_u(self, st, label, carve=False):
        for sig, d in self.tw.compare_u(carve):
            d["after"] = st.get("argv") or st["op"]
            self.failures.append((sig, d))

    def check_clone(self, st):
        obs = {}
        for x in ("proxy", "plain"):
            path = os.path.join(self.tw.side[x]["tw"], st["clone_target"])
            r = e2e.Repo(self.env, path)
            if not os.path.isdir(path):
                obs[x] = None
                continue
            refs = [l for l in r.plain_git("for-each-ref", "--format=%(refname) %(objectname)")[1].split("\n") if l and "refs/notes/ai" not in l]
            obs[x] = {"refs": refs, "index": r.plain_git("ls-files", "-s")[1], "status": r.plain_git("status", "--porcelain=v2")[1],
                      "head": r.plain_git("symbolic-ref", "-q", "HEAD")[1]}
        if obs["proxy"] != obs["plain"]:
            self.failures.append(("clone-result-differs", {"argv": st["argv"], "proxy": obs["proxy"], "plain": obs["plain"]}))


def replay_steps(steps):
    """re-execute a recorded step list; returns (failures, traces)"""
    with e2e.Env() as env:
        rn = Runner(env)
        rn.setup()
        for st in steps:
            st = {k: v for k, v in st.items() if k != "rc"}
            rn.do(st)
            if rn.failures:
                break
        return rn.failures, [rn.tw.norm_trace(a) for a in rn.tw.traces()]


# ------------------------------------------------------------------------------------------ generating steps

class Walk:
    def __init__(self, env, seed):
        self.rng = random.Random(seed * 7919 + 0xC06)
        self.rn = Runner(env)
        self.uid = 0
        self.branches = ["main"]
        self.tagsn = 0
        self.ncommit = 0
        self.stashes = 0
        self.clones = 0
        self.wts = 0
        self.pushed = False
        self.tags = []

    # -- observations of the plain twin used to steer generation
    def g(self, *a):
        return self.rn.tw.g.plain_git(*a, env=U.NOHOOKS)[1]

    def tracked(self):
        return [p for p in self.g("ls-files", "-z").split("\0") if p]

    def commits(self):
        return [l for l in self.g("rev-list", "--all", "--max-count=12").split("\n") if l]

    def content(self, who):
        self.uid += 1
        n = 2 + self.rng.randrange(4)
        return "".join(f"{who}-{self.uid}-{i} {self.rng.choice(['alpha', 'beta();', 'return x;', '}', ''])}\n" for i in range(n))

    def mutate(self, path, who):
        try:
            old = open(os.path.join(self.rn.tw.g.path, path)).read().split("\n")[:-1]
        except Exception:
            old = []
        self.uid += 1
        new = list(old)
        k = self.rng.randrange(4)
        line = f"{who}-{self.uid} {self.rng.choice(['x = 1', 'call();', '# note'])}"
        if k == 0 or not new:
            new.insert(self.rng.randrange(len(new) + 1), line)
        elif k == 1:
            new[self.rng.randrange(len(new))] = line
        elif k == 2:
            del new[self.rng.randrange(len(new))]
            new.append(line)
        else:
            new += [line, line + " again"]
        return "".join(l + "\n" for l in new)

    # -- command pool
    def gen_git(self):
        rng = self.rng
        fs = self.tracked() or ["f1.txt"]
        f = rng.choice(fs + FILES[:3])
        cs = self.commits()
        c = rng.choice(cs) if cs else "HEAD"
        b = rng.choice(self.branches)
        st = {"op": "git"}
        kinds = [
            ("add", 10), ("commit", 14), ("status", 5), ("diff", 4), ("log", 5), ("show", 2), ("branch", 4), ("checkout", 6), ("switch", 3),
            ("restore", 3), ("reset", 6), ("stash", 7), ("merge", 4), ("rebase", 4), ("cherry-pick", 3), ("revert", 2), ("rm", 2), ("mv", 2),
            ("tag", 2), ("clean", 1), ("notes", 2), ("config", 2), ("remote", 5), ("plumbing", 8), ("invalid", 7), ("help", 3), ("alias", 6),
            ("pathspec", 5), ("stdin", 2), ("clone", 1), ("worktree", 1), ("allrefs", 2),
        ]
        kind = rng.choices([k for k, _ in kinds], [w for _, w in kinds])[0]
        a = None
        if kind == "add":
            a = rng.choice([["add", "-A"], ["add", "."], ["add", f], ["add", "-u"], ["add", "--", f], ["add", "-N", f]])
        elif kind == "commit":
            self.ncommit += 1
            m = f"c{self.ncommit}"
            a = rng.choice([["commit", "-q", "-m", m], ["commit", "-m", m], ["commit", "-q", "-am", m], ["commit", "-q", "--amend", "-m", m + " amended"],
                            ["commit", "-q", "--allow-empty", "-m", m], ["commit", "--dry-run", "-m", m], ["commit", "-q", "-m", m, "--author", "A U Thor <a@x>"],
                            ["commit", "-q", "--amend", "--no-edit"], ["commit", "-q", "-m", m, "--no-verify"], ["commit", "--porcelain", "-m", m],
                            ["commit", "-q", "-a", "-m", m, "--date", "2025-08-01T00:00:00Z"]])
        elif kind == "status":
            a = rng.choice([["status"], ["status", "-s"], ["status", "--porcelain"], ["status", "-sb"], ["status", "--porcelain=v2", "--branch"]])
        elif kind == "diff":
            a = rng.choice([["diff"], ["diff", "--cached"], ["diff", "HEAD"], ["diff", "--stat"], ["diff", "--name-only", "HEAD"], ["diff", c, "--", f]])
        elif kind == "log":
            a = rng.choice([["log", "--oneline", "-5"], ["log", "-3", "--format=%H %an %s"], ["log", "--stat", "-2"], ["log", "--graph", "--oneline", "-6"],
                            ["shortlog", "-s", "HEAD"], ["reflog", "-5"], ["log", "-p", "-1"], ["blame", f], ["log", "--oneline", "-3", "--", f]])
        elif kind == "show":
            a = rng.choice([["show", "--stat", "HEAD"], ["show", f"HEAD:{f}"], ["show", c, "--format=%s", "-s"]])
        elif kind == "branch":
            k = rng.randrange(5)
            if k == 0:
                nb = f"b{len(self.branches)}"
                self.branches.append(nb)
                a = ["branch", nb]
            elif k == 1 and len(self.branches) > 1:
                a = ["branch", "-D", self.branches.pop()]
            elif k == 2:
                a = ["branch", "-vv"]
            elif k == 3:
                a = ["branch", "--list"]
            else:
                a = ["branch", "-m", b, b + "r"] if b != "main" and rng.random() < 0.3 else ["branch", "-a"]
                if a[1] == "-m":
                    self.branches[self.branches.index(b)] = b + "r"
        elif kind == "checkout":
            nb = f"b{len(self.branches)}"
            ch = rng.randrange(6)
            if ch == 0:
                self.branches.append(nb)
                a = ["checkout", "-q", "-b", nb]
            elif ch == 1:
                a = ["checkout", "-q", b]
            elif ch == 2:
                a = ["checkout", "--", f]
            elif ch == 3:
                a = ["checkout", "-q", "-f", b]
            elif ch == 4:
                a = ["checkout", "-q", "--detach", c]
            else:
                a = ["checkout", c, "--", f]
        elif kind == "switch":
            nb = f"b{len(self.branches)}"
            if rng.random() < 0.4:
                self.branches.append(nb)
                a = ["switch", "-q", "-c", nb]
            else:
                a = rng.choice([["switch", "-q", b], ["switch", "-q", "-"], ["switch", "-q", "--discard-changes", b]])
        elif kind == "restore":
            a = rng.choice([["restore", f], ["restore", "--staged", f], ["restore", "--source", c, f], ["restore", "--staged", "--worktree", f]])
        elif kind == "reset":
            a = rng.choice([["reset", "-q"], ["reset", "-q", "--hard"], ["reset", "-q", "--soft", "HEAD~1"], ["reset", "-q", "--mixed", "HEAD~1"],
                            ["reset", "-q", "--hard", "HEAD~1"], ["reset", "-q", "--", f], ["reset", "-q", c], ["reset", "-q", "--keep", "HEAD"],
                            ["reset", "-q", "--merge"]])
        elif kind == "stash":
            a = rng.choice([["stash"], ["stash", "push", "-q", "-m", "wip"], ["stash", "-u", "-q"], ["stash", "pop", "-q"], ["stash", "apply", "-q"],
                            ["stash", "drop", "-q"], ["stash", "list"], ["stash", "show"], ["stash", "push", "-q", "--", f], ["stash", "branch", f"sb{self.uid}"],
                            ["stash", "pop", "--index", "-q"], ["stash", "clear"]])
        elif kind == "merge":
            a = rng.choice([["merge", "-q", "--no-edit", b], ["merge", "--squash", b], ["merge", "--no-ff", "--no-edit", "-q", b], ["merge", "--abort"],
                            ["merge", "--ff-only", "-q", b], ["merge", "-q", "--no-commit", b]])
        elif kind == "rebase":
            a = rng.choice([["rebase", "-q", b], ["rebase", "--abort"], ["rebase", "--continue"], ["rebase", "-q", "--onto", b, "HEAD~1"], ["rebase", "--skip"],
                            ["rebase", "-q", "-i", "HEAD~2"], ["rebase", "-q", "--autostash", b]])
        elif kind == "cherry-pick":
            a = rng.choice([["cherry-pick", c], ["cherry-pick", "--abort"], ["cherry-pick", "-n", c], ["cherry-pick", "--continue"], ["cherry-pick", "-x", c]])
        elif kind == "revert":
            a = rng.choice([["revert", "--no-edit", "HEAD"], ["revert", "--abort"], ["revert", "-n", c]])
        elif kind == "rm":
            a = rng.choice([["rm", "-q", f], ["rm", "-q", "-f", f], ["rm", "--cached", "-q", f]])
        elif kind == "mv":
            a = ["mv", f, f + ".mv" if not f.endswith(".mv") else f[:-3]]
        elif kind == "tag":
            self.tagsn += 1
            a = rng.choice([["tag", f"t{self.tagsn}"], ["tag", "-a", f"at{self.tagsn}", "-m", "annotated"], ["tag", "-d", f"t{max(1, self.tagsn - 1)}"], ["tag", "-l"]])
        elif kind == "clean":
            a = rng.choice([["clean", "-fd", "-q"], ["clean", "-n"]])
        elif kind == "notes":
            a = rng.choice([["notes", "add", "-f", "-m", "user note", "HEAD"], ["notes", "show", "HEAD"], ["notes", "list"], ["notes", "--ref=review", "add", "-f", "-m", "r", "HEAD"]])
        elif kind == "config":
            a = rng.choice([["config", "user.name"], ["config", "core.abbrev", "12"], ["config", "--get", "alias.ci"], ["config", "--unset", "core.abbrev"],
                            ["config", "--list", "--local"]])
        elif kind == "remote":
            self.pushed = True
            a = rng.choice([["push", "-q", "origin", "main"], ["push", "-q", "-u", "origin", "HEAD"], ["fetch", "-q", "origin"], ["pull", "-q", "--no-rebase", "origin", "main"],
                            ["pull", "-q", "--rebase", "origin", "main"], ["push", "-q", "--force", "origin", b], ["remote", "-v"], ["fetch", "-q", "--all"], ["push", "origin", "--tags", "-q"],
                            ["pull", "-q", "--ff-only"], ["push", "-q", "origin", ":" + b if b != "main" else "main"], ["fetch", "-q", "--dry-run", "origin"],
                            ["push", "-q", "--dry-run", "origin", "main"], ["pull", "-q", "--rebase", "--autostash", "origin", "main"]])
        elif kind == "plumbing":
            a = rng.choice([["rev-parse", "HEAD"], ["rev-parse", "--show-toplevel"], ["rev-parse", "--git-dir"], ["rev-parse", "--abbrev-ref", "HEAD"],
                            ["cat-file", "-p", "HEAD"], ["cat-file", "-t", c], ["ls-files", "-s"], ["ls-tree", "-r", "HEAD"], ["write-tree"],
                            ["update-ref", f"refs/heads/ur{self.uid}", c], ["symbolic-ref", "HEAD"], ["rev-list", "--count", "HEAD"], ["merge-base", "HEAD", b],
                            ["diff-tree", "-r", "--name-only", "HEAD"], ["diff-index", "--cached", "HEAD"], ["check-ignore", "-v", f], ["var", "GIT_AUTHOR_IDENT"],
                            ["update-index", "--refresh"], ["read-tree", "HEAD"], ["checkout-index", "-f", "-a"], ["commit-tree", "HEAD^{tree}", "-p", "HEAD", "-m", "ct"],
                            ["rev-parse", "--verify", "-q", "nosuch"], ["ls-files", "--others", "--exclude-standard"], ["symbolic-ref", "HEAD", "refs/heads/" + b]])
        elif kind == "invalid":
            a = rng.choice([["frobnicate"], ["commit"], ["checkout", "nonexistent-branch"], ["merge"], ["reset", "--hard", "nosuchrev"], ["log", "--bogus-option"],
                            ["add", "nonexistent.txt"], ["-c"], ["--git-dir"], ["stash", "pop", "stash@{9}"], ["cherry-pick"], ["push", "nosuchremote"], ["commit", "-m"],
                            ["branch", "-d", "main"], ["--bogus-global", "status"], ["status", "--"], ["rebase", "nosuch"], ["switch"], ["tag", "-d", "nosuchtag"],
                            ["mv", "nosuch", "x"], ["rm", "nosuch"], ["-C", "/nonexistent-dir", "status"], ["show", "nosuch:file"], [""], ["commit", "--amend", "--bogus"],
                            ["checkout", "-b"], ["-c", "foo", "status"], ["restore"], ["diff", "--no-index"], ["fetch", "nosuchremote"], ["pull", "nosuchremote", "main"]])
        elif kind == "help":
            a = rng.choice([["--version"], ["version"], ["--help"], ["help"], ["commit", "-h"], ["help", "-a"], ["status", "-h"], ["-h"], ["--exec-path"], ["help", "-g"],
                            ["rebase", "-h"], ["stash", "-h"], ["version", "--build-options"]])
        elif kind == "alias":
            self.ncommit += 1
            a = rng.choice([["ci", "-q", "-m", f"alias c{self.ncommit}"], ["st"], ["lg"], ["unstage", f], ["sh"], ["amend", "-q"], ["co", "-q", b], ["last"],
                            ["ci", "-q", "-am", f"alias ca{self.ncommit}"], ["co", "--", f]])
        elif kind == "pathspec":
            self.ncommit += 1
            a = rng.choice([["add", "--", f], ["checkout", "--", f], ["diff", "--", "d/"], ["reset", "-q", "--", f], ["restore", "--staged", "--", f],
                            ["commit", "-q", "-m", f"partial {self.ncommit}", "--", f], ["add", ":(glob)**/*.txt"], ["add", "*.txt"], ["ls-files", "--", "d/"],
                            ["commit", "-q", "-m", f"only {self.ncommit}", "--only", f], ["add", "--", "-dash.txt"], ["rm", "-q", "--cached", "--", "sp ace.txt"],
                            ["log", "--oneline", "-2", "--", "sp ace.txt"], ["stash", "push", "-q", "--", "d/"], ["checkout", "HEAD", "--", "."]])
        elif kind == "stdin":
            k = rng.randrange(3)
            if k == 0:
                a, st["input"] = ["hash-object", "-w", "--stdin"], self.content("blob")
            elif k == 1:
                self.ncommit += 1
                a, st["input"] = ["commit", "-q", "-F", "-"], f"from stdin {self.ncommit}\n\nbody\n"
            else:
                a, st["input"] = ["notes", "add", "-f", "-F", "-", "HEAD"], "note from stdin\n"
        elif kind == "clone":
            self.clones += 1
            tgt = f"cl{self.clones}"
            a = rng.choice([["clone", "-q", "<REMOTE>", f"<TW>/{tgt}"], ["clone", "<REMOTE>", f"<TW>/{tgt}"], ["clone", "-q", "--bare", "<REPO>", f"<TW>/{tgt}"]])
            st["cwd"] = "<TW>"
            st["clone_target"] = tgt
        elif kind == "worktree":
            self.wts += 1
            a = rng.choice([["worktree", "add", "-q", f"<TW>/wt{self.wts}", "-b", f"wtb{self.wts}"], ["worktree", "list"], ["worktree", "prune"]])
        elif kind == "allrefs":
            a = rng.choice([["log", "--all", "--oneline", "-8"], ["for-each-ref"], ["show-ref"], ["gc", "-q"], ["count-objects"], ["fsck"], ["pack-refs", "--all"],
                            ["notes", "--ref=ai", "list"], ["log", "-1", "--notes=ai"], ["rev-list", "--all", "--count"], ["push", "-q", "--mirror", "origin"]])
        st["argv"] = a
        st["tags"] = ["cmd:" + kind]
        # global options / invocation context
        if kind not in ("clone", "invalid", "help") and rng.random() < 0.4:
            g = rng.randrange(10)
            if g == 0:
                st["argv"], st["cwd"] = ["-C", "<REPO>"] + a, "<TW>"
                st["tags"].append("global:-C")
            elif g == 1:
                # settings with a visible effect on stdout / behaviour, so a lost or reordered `-c` pair is observable
                kv = rng.choice(["color.ui=always", "core.abbrev=20", "status.short=true", "core.quotepath=off", "log.decorate=full",
                                 "diff.noprefix=true", "commit.verbose=true", "advice.statusHints=false", "status.branch=true"])
                st["argv"] = ["-c", kv] + a
                st["tags"].append("global:-c")
            elif g == 2:
                st["argv"] = ["-c", "user.name=Other Name", "-c", "user.email=other@example.com"] + a
                st["tags"].append("global:-c-identity")
            elif g == 3:
                st["argv"] = ["--no-pager"] + a
                st["tags"].append("global:--no-pager")
            elif g == 4:
                st["argv"], st["cwd"] = ["--git-dir=<GITDIR>", "--work-tree=<REPO>"] + a, "<TW>"
                st["tags"].append("global:--git-dir=")
            elif g == 5:
                st["argv"], st["cwd"] = ["--git-dir", "<GITDIR>", "--work-tree", "<REPO>"] + a, "<TW>"
                st["tags"].append("global:--git-dir")
            elif g == 6:
                st["cwd"] = "d"
                st["tags"].append("cwd:subdir")
            elif g == 7:
                st["argv"] = [rng.choice(["-p", "--paginate", "--no-optional-locks", "--literal-pathspecs", "--no-replace-objects"])] + a
                st["tags"].append("global:flag")
            elif g == 8:
                st["argv"] = ["-C", "d", "-C", ".."] + a
                st["tags"].append("global:-C-C")
            else:
                # the user's own hooks-path override (here: naming the directory git would use anyway) travels into git-ai's internal calls
                st["argv"], st["cwd"] = ["-c", "core.hooksPath=<GITDIR>/hooks"] + a, st.get("cwd", "")
                st["tags"].append("global:-c-core.hooksPath")
        return st

    def run(self, length):
        rn, rng = self.rn, self.rng
        rn.setup()
        for p in FILES:
            rn.do({"op": "write", "path": p, "content": self.content("base")})
        rn.do({"op": "git", "argv": ["add", "-A"], "tags": ["cmd:add"]})
        rn.do({"op": "git", "argv": ["commit", "-q", "-m", "base"], "tags": ["cmd:commit"]})
        if rng.random() < 0.6:
            rn.do({"op": "git", "argv": ["push", "-q", "-u", "origin", "main"], "tags": ["cmd:remote"]})
        i = 0
        while i < length and not rn.failures:
            x = rng.random()
            fs = self.tracked() or ["f1.txt"]
            f = rng.choice(fs + FILES[:2])
            if x < 0.12:
                rn.do({"op": "ai", "session": rng.choice(["s1", "s2"]), "path": f, "content": self.mutate(f, "ai")})
                self.tags.append("op:ai-edit")
            elif x < 0.24:
                rn.do({"op": "write", "path": f, "content": self.mutate(f, "hum")})
                self.tags.append("op:human-edit")
            elif x < 0.27:
                rn.do({"op": "write", "path": f"new{self.uid}.txt", "content": self.content("new")})
                self.tags.append("op:new-file")
            elif x < 0.29:
                if os.path.exists(os.path.join(rn.tw.g.path, "FAIL_PRECOMMIT")):
                    rn.do({"op": "remove", "path": "FAIL_PRECOMMIT"})
                else:
                    rn.do({"op": "write", "path": "FAIL_PRECOMMIT", "content": "user pre-commit hook refuses while this file exists\n"})
                self.tags.append("op:toggle-user-precommit-failure")
            elif x < 0.32 and self.pushed:
                self.uid += 1
                rn.do({"op": "peer", "path": f"peer{self.uid % 3}.txt", "content": self.content("peer"), "msg": f"peer {self.uid}"})
                self.tags.append("op:peer-push")
            else:
                st = self.gen_git()
                self.tags += st.pop("tags")
                rn.do(st)
                self.tags.append("rc=0" if st.get("rc") == 0 else "rc!=0")
                if U.names_ai(st["argv"]):
                    self.tags.append("carve-out:names-ai-namespace")
            i += 1


def run_walk(args):
    seed, length = args
    try:
        with e2e.Env() as env:
            w = Walk(env, seed)
            w.run(length)
            return {"seed": seed, "failures": w.rn.failures, "steps": w.rn.steps, "tags": w.tags, "ngit": w.rn.ngit,
                    "traces": [w.rn.tw.norm_trace(a) for a in w.rn.tw.traces()]}
    except Exception as ex:
        return {"seed": seed, "failures": [("runner-exception", {"error": repr(ex), "trace": traceback.format_exc()[-1500:]})], "steps": [], "tags": [],
                "ngit": 0, "traces": []}


def shrink(steps, sig, budget=30):
    cur = list(steps)
    i, tries = len(cur) - 2, 0
    while i >= 0 and tries < budget:
        cand = cur[:i] + cur[i + 1:]
        tries += 1
        try:
            fl, _ = replay_steps(cand)
            if any(f[0] == sig for f in fl):
                cur = cand
        except Exception:
            pass
        i -= 1
    return cur


def report(res, out, label, do_shrink=True):
    seen = set()
    n = 0
    for sig, d in out["failures"]:
        if sig in seen:
            continue
        seen.add(sig)
        steps = out["steps"]
        if C.finding_for(PROP, sig) is None and do_shrink and sig != "runner-exception" and len(steps) > 3:
            steps = shrink(steps, sig)
        if res.oracle_failure(sig, {"source": label, "seed": out.get("seed"), "detail": d, "steps": steps,
                                    "replay": "./check C06 quick --replay <this file>"},
                              what=f"twin-run differential: {sig} (proxy vs plain git on the same command sequence)"):
            n += 1
    return n


def phase_walks(res, seeds, length, threads=16):
    t0 = time.time()
    with concurrent.futures.ThreadPoolExecutor(threads) as ex:
        outs = list(ex.map(run_walk, [(s, length) for s in seeds]))
    traces, ngit, nfail = [], 0, 0
    for o in outs:
        res.count_case(json.dumps(o["steps"], ensure_ascii=False), nontrivial=o["ngit"] > 5)
        res.tag(o["tags"])
        ngit += o["ngit"]
        traces += o["traces"]
        res.sample({"seed": o["seed"], "commands": [" ".join(s["argv"]) for s in o["steps"] if s["op"] == "git"][:14]}, cap=3)
        nfail += report(res, o, "walk")
    res.extra.setdefault("e2e", {})["walks"] = {"scenarios": len(seeds), "git_commands_per_twin": ngit, "wall_s": round(time.time() - t0, 1),
                                                "internal_git_calls_traced": len(traces)}
    res.obligation(f"twin-run differential: exit code, stdout and U equal after each of {ngit} commands ({len(seeds)} scenarios)", nfail == 0, "oracle")
    return traces, nfail


def phase_corpus(res):
    traces, n = [], 0
    if not os.path.exists(CORPUS):
        return traces
    for ln in open(CORPUS):
        ln = ln.strip()
        if not ln:
            continue
        j = json.loads(ln)
        try:
            fl, tr = replay_steps(j["steps"])
        except Exception as ex:
            fl, tr = [("runner-exception", {"error": repr(ex), "trace": traceback.format_exc()[-1200:]})], []
        traces += tr
        n += 1
        res.count_case("corpus:" + j["name"])
        res.tag(["corpus"])
        report(res, {"failures": fl, "steps": j["steps"], "seed": None}, "corpus:" + j["name"], do_shrink=False)
    res.extra.setdefault("e2e", {})["corpus_cases"] = n
    return traces


def merge(res, r2):
    res.obligations += r2.obligations
    res.evaluations += r2.evaluations
    res.distinct |= r2.distinct
    for k, v in r2.tags.items():
        res.tags[k] = res.tags.get(k, 0) + v
    res.samples += r2.samples[:2]
    for k, v in r2.known.items():
        res.known[k] = res.known.get(k, 0) + v
    res.violations += r2.violations
    res.broken += r2.broken
    for k, v in r2.extra.get("e2e", {}).items():
        res.extra.setdefault("e2e", {})[k] = v


def check_exit_tables(res, inv):
    """the exit / user-hook tables compiled into the driver (the ones the theorems were checked against) are the ones extracted now"""
    x = (inv or {}).get("exit_hooks")
    if x is None:
        return
    try:
        d = C.run_driver([{"op": "wrap_exit_tables"}])[0]
    except Exception as e:
        res.obligation("driver tables = extracted exit / user-hook tables", False, "correspondence")
        res.broken_tie("exit-tables-driver", repr(e)[:500])
        return
    conj = lambda c: [[a, bool(v)] for a, v in c]
    want = {"resets": ["dying" if r[0] == "dying" else list(r[1]) for r in x["resets"]], "raises": x["raises"], "unreachable": x["unreachable"],
            "else_exits_code": x["else_exits_code"], "forwarded": x["forwarded"], "uninstalled": x["uninstalled"],
            "other_signal_sites": x["other_signal_sites"], "early_returns": [conj(c) for c in x["early_returns"]],
            "managed_guard": conj(x["managed_guard"]), "managed_failure_returns": x["managed_failure_returns"], "tail_forwards": x["tail_forwards"],
            "none_when": [conj(c) for c in x["none_when"]], "fallback_null": x["fallback_null"], "same_forward_resolver": x["same_forward_resolver"],
            "inject_when": conj(x["inject_when"]), "child_skip_env": x["child_skip_env"]}
    diff = {k: {"extracted": v, "driver": d.get(k)} for k, v in want.items() if d.get(k) != v}
    res.obligation("driver tables = extracted exit / user-hook tables", not diff, "correspondence")
    if diff:
        res.broken_tie("exit-tables-driver", diff)
    res.extra.setdefault("inventory", {})["exit_hooks"] = {"resets": want["resets"], "early_returns": want["early_returns"], "none_when": want["none_when"],
                                                           "user_hooks_ok_in_model": d.get("user_hooks_ok")}


def run(tier, seed):
    res = C.Result(PROP, tier, seed)
    res.level = "proof"
    res.rule = ("twin-run differential: one generated op sequence (AI/human edits, ~150 git command shapes: porcelain, plumbing, invalid, help/version, "
                "aliases, pathspecs/--, stdin, clone/worktree, remote ops against a local bare remote, each optionally under -C / -c k=v / --no-pager / "
                "--git-dir[=] / --work-tree / a sub-directory / flag globals) applied to a proxy-driven and a plain-git twin with identical dates/authors; "
                "after EVERY command: exit code, stdout (unless the command line names git-ai's namespaces / all refs), HEAD, refs outside refs/notes/ai*, "
                "ls-files -s, status --porcelain=v2, stash list, working-tree bytes, in-progress state, the log of 10 user hooks, names of all files under "
                ".git outside objects/ai/notes-ai, .git/config, global gitconfig; non-trivial = more than 5 git commands; distinct = distinct step list")
    res.trusted = ["real git 2.39 (F1/F2 of GitKernel are assumptions, exercised by the twin runs)", "extract/wrapper_tables.py (name+arity call graph, reviewed write roots)",
                   "vlib/props/c06_util.py observation of U", "Lean 4.33 kernel"]
    res.assumptions = [
        "PARTIAL (DESIGN §10): the frame facts F1 (git's effect on U, status and stdout do not depend on A for command lines that do not name git-ai's "
        "namespaces) and F2 (an invocation with confined footprint and no runnable user hook leaves U unchanged) are hypotheses of `GitKernel`, validated by "
        "the twin runs on git 2.39, not proved",
        "completeness of the extracted call inventory is validated (every traced internal argv must match a reachable entry and be callOk), not proved; the "
        "step from token patterns to concrete argv is checked per traced call, dynamic tokens are assumed to be revisions/paths, not options",
        "wrapper mode only: sites gated by managed-hooks mode (is_repo_hooks_enabled) are reviewed but excluded (C13); telemetry / background self-spawns, sqlite "
        "DBs under ~/.git-ai and the object store are outside U",
        "stdout is compared, stderr is not (debug builds log to stderr); TTY behaviour (post-commit attribution summary) and timing are observed only",
        "exit mirroring: the signal mask of the wrapper is assumed empty and the Rust runtime's start-up dispositions (SIGPIPE ignored, SIGSEGV/SIGBUS handled) and "
        "std::process::Command's reset of SIGPIPE in the child are facts about std, exercised by the termination twin run; an aliased builtin dying by SIGPIPE is exit "
        "code 141 under plain git 2.39 (it runs the alias as a child) and death by signal 13 under the proxy (DESIGN O10: the wrapper expands aliases itself) — "
        "compared on the shell-visible status",
        "user hooks: one hook event is modelled (git's rule: the last `-c core.hooksPath=` > local > global > .git/hooks); `git-hooks ensure` is assumed to have run after "
        "the user's hooks were put in place (a hook added later is linked by the next ensure / self-heal); hooks-only mode (plain git on an ensured repository) is C13's",
        "argv-level deviations for meta options (--html-path…, options after --help/--version) and alias edge cases are C18's findings and not generated here",
    ]
    inv = U.phase_extract(res)
    proofs_ok = C.phase_proofs(res, PROP, THEOREMS)
    ok, out = C.build_git_ai()
    res.obligation("build git-ai from the working tree (test-support, verif-hooks)", ok, "build")
    if not ok:
        res.broken_tie("build", out[-3000:])
        return res.finish()
    if "--replay" in sys.argv:
        j = json.load(open(sys.argv[sys.argv.index("--replay") + 1]))
        w = j.get("witness", j)
        if "sigcase" in w:
            SIG.replay(res, w["sigcase"])
            return res.finish()
        if "hookcase" in w:
            HK.replay(res, w["hookcase"])
            return res.finish()
        steps = w.get("steps")
        fl, _ = replay_steps(steps)
        report(res, {"failures": fl, "steps": steps, "seed": None}, "replay", do_shrink=False)
        return res.finish()
    check_exit_tables(res, inv)
    traces = phase_corpus(res)
    n, length = (56, 24) if tier == "quick" else (700, 32)
    # the termination and user-hook twin runs are cheap and mostly wait for child processes: they share the machine with the walks
    r_sig, r_hk = C.Result(PROP, tier, seed), C.Result(PROP, tier, seed)       # private recorders, merged below (Result is not thread-safe)
    with concurrent.futures.ThreadPoolExecutor(2) as side:
        f_sig = side.submit(SIG.phase_signals, r_sig, tier, seed)
        f_hk = side.submit(HK.phase_hooks, r_hk, tier, seed)
        tr, nfail = phase_walks(res, [seed * 100000 + i for i in range(n)], length)
        f_sig.result()
        f_hk.result()
    merge(res, r_sig)
    merge(res, r_hk)
    traces += tr
    U.validate_trace(res, inv, traces, "trace")
    # a tie broke (extraction / theorem / inventory-vs-trace) and no oracle failed yet: search further on the implementation
    if res.broken and not res.violations:
        extra = 40 if tier == "quick" else 300
        tr2, nf2 = phase_walks(res, [seed * 100000 + 50000 + i for i in range(extra)], length + 8)
        # and the two targeted twin runs again with other seeds / the thorough generators
        nf3 = 0
        for k in (1, 2):
            nf3 += SIG.phase_signals(res, "thorough", seed * 31 + k)[0]
            if not nf3:
                nf3 += HK.phase_hooks(res, "quick", seed * 31 + k)[0]
            if nf3:
                break
        res.obligations = [o for i, o in enumerate(res.obligations) if o not in res.obligations[:i]]
        res.extra["search"] = (f"a tie broke; {extra} additional longer twin-run scenarios and further termination / user-hook twin runs were executed: "
                               + ("a failing input was found" if (nf2 or nf3) else "no failing input found"))
    return res.finish()
