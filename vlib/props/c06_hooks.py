"""C06 — the user's own hooks fire through the proxy exactly as under plain git, in every hook installation state.

Twin repositories with the same user hooks (pre-commit, prepare-commit-msg, commit-msg, post-commit, reference-transaction with a
veto on refs named `forbidden-*`, post-checkout, post-merge, post-rewrite, pre-rebase, pre-push, applypatch-msg, pre-/post-applypatch,
pre-merge-commit — every one appends to a log) and the same command sequence (managed by the wrapper: commit, checkout, switch, reset,
stash, merge, rebase, cherry-pick, push, fetch; NOT managed: tag, branch, update-ref, notes, revert, am, worktree, bisect, replace;
some with a `-c core.hooksPath=` of the user's own). Twin `plain` is driven by plain git and never sees git-ai; twin `proxy` is in
one of the installation states
    wrapper only | `git-ai git-hooks ensure`     ×     hooks in .git/hooks | a local core.hooksPath | the global core.hooksPath
and every command goes through the proxy. After every command: exit code, the hook log, HEAD, refs, index, status, stash, work tree,
in-progress state, the remote's refs. The Lean model of one hook event over the extracted decision tables (driver op
`wrap_userhook`) predicts, per step, whether the user's hook runs: prediction vs observation is the correspondence.

State `ensure` × `.git/hooks` is the listed finding `user-hooks-dead:ensure-default-hooks-dir` (no forward target is recorded, the
user's hooks never run again): there the proxy twin must equal a plain twin WITHOUT hooks, its log must stay empty, and one final
vetoed command shows the difference."""
import concurrent.futures, json, os, random, re, time, traceback

from vlib import common as C, e2e
from vlib.props import c06_util as U

HOOKS = ("pre-commit", "prepare-commit-msg", "commit-msg", "post-commit", "reference-transaction", "post-checkout", "post-merge",
         "post-rewrite", "pre-rebase", "pre-push", "applypatch-msg", "pre-applypatch", "post-applypatch", "pre-merge-commit")
SCRIPT = """#!/bin/sh
# user hook of the verification harness: append what git told the hook to $HOOKLOG; veto where the scenario asks for it
n=$(basename "$0")
[ -n "$HOOKLOG" ] || exit 0
echo "$n@TAG@ $*" >> "$HOOKLOG"
case "$n" in
  reference-transaction)
    while read old new ref; do
      echo " $old $new $ref" >> "$HOOKLOG"
      case "$1:$ref" in prepared:refs/*/forbidden-*) echo " VETO" >> "$HOOKLOG"; exit 1 ;; esac
    done ;;
  post-rewrite|pre-push) cat >> "$HOOKLOG" ;;
  commit-msg|applypatch-msg)
    head -n 1 "$1" >> "$HOOKLOG"
    if grep -q FORBIDDEN-MSG "$1"; then echo " VETO" >> "$HOOKLOG"; exit 1; fi ;;
  pre-commit)
    if [ -f "$(git rev-parse --show-toplevel)/FAIL_PRECOMMIT" ]; then echo " VETO" >> "$HOOKLOG"; exit 1; fi ;;
esac
exit 0
"""
STATES = [(ens, loc) for ens in (False, True) for loc in ("default", "local", "global")]
KEYS = (("head", "head-differs"), ("refs", "refs-differ"), ("index", "index-differs"), ("status", "status-porcelain-differs"),
        ("stash", "stash-differs"), ("worktree", "worktree-differs"), ("in_progress", "in-progress-differs"),
        ("hooklog", "user-hook-log-differs"), ("remote_refs", "remote-refs-differ"))
HOOK_HEAD = re.compile(r"^(" + "|".join(re.escape(h) for h in HOOKS) + r")(\+ALT)?( |$)")


def managed_hook_names():
    src = open(os.path.join(C.REPO, "src", "commands", "git_hook_handlers.rs"), encoding="utf-8").read()
    m = re.search(r"const MANAGED_GIT_HOOK_NAMES: &\[&str\] = &\[(.*?)\];", src, re.S)
    return re.findall(r'"([^"]+)"', m.group(1)) if m else []


def state_name(st):
    return ("ensure" if st[0] else "wrapper-only") + "+" + {"default": "dot-git-hooks", "local": "local-hooksPath", "global": "global-hooksPath"}[st[1]]


def install(dirpath, tag=""):
    os.makedirs(dirpath, exist_ok=True)
    for h in HOOKS:
        p = os.path.join(dirpath, h)
        with open(p, "w") as f:
            f.write(SCRIPT.replace("@TAG@", tag))
        os.chmod(p, 0o755)


class HookTwins:
    """twins of c06_util.Twins put into one installation state"""

    def __init__(self, env, state, plain_has_hooks=True):
        self.env, self.state = env, state
        ens, loc = state
        self.tw = U.Twins(env, trace=False)
        tw = self.tw
        for x in ("proxy", "plain"):
            s = tw.side[x]
            hd = os.path.join(s["repo"].path, ".git", "hooks")
            for h in os.listdir(hd):
                os.unlink(os.path.join(hd, h))
            install(os.path.join(s["tw"], "althooks"), "+ALT")
            if x == "plain" and not plain_has_hooks:
                continue
            if loc == "default":
                install(hd)
            elif loc == "local":
                d = os.path.join(s["tw"], "userhooks")
                install(d)
                s["repo"].plain_git("config", "core.hooksPath", d, check=True)
        if loc == "global":
            d = os.path.join(env.root, "globalhooks")
            install(d)
            tw.g.plain_git("config", "--global", "core.hooksPath", d, check=True)
            tw.gitconfig0 = open(env.env["GIT_CONFIG_GLOBAL"], "rb").read()
        self.ensure_out = None
        if ens:
            self.ensure_out = tw.p.ai("git-hooks", "ensure")
        self.failures, self.steps, self.ngit = [], [], 0
        self.prev = {"proxy": "", "plain": ""}
        self.events = []          # per git step: (label, plain delta, proxy delta)

    def install_plain_hooks(self):
        hd = os.path.join(self.tw.g.path, ".git", "hooks")
        install(hd)

    def do(self, st):
        self.steps.append(st)
        tw = self.tw
        if st["op"] == "write":
            tw.write(st["path"], st["content"])
            return
        if st["op"] == "remove":
            tw.remove(st["path"])
            return
        self.ngit += 1
        argv = st["argv"]
        r = tw.git(argv, cwd=st.get("cwd", ""))
        (prc, pout, perr), (grc, gout, gerr) = r["proxy"], r["plain"]
        label = U.cmd_label(argv)
        st["rc"] = grc
        if prc != grc:
            self.failures.append((f"status-differs:{label}", {"argv": argv, "proxy_rc": prc, "plain_rc": grc, "proxy_stderr": perr[-800:], "plain_stderr": gerr[-500:]}))
        a, b = tw.observe("proxy"), tw.observe("plain")
        for key, sig in KEYS:
            if a[key] != b[key]:
                self.failures.append((sig, {"component": key, "after": argv, "proxy": C.trunc(a[key], 1500), "plain": C.trunc(b[key], 1500)}))
        da, db = a["hooklog"][len(self.prev["proxy"]):], b["hooklog"][len(self.prev["plain"]):]
        self.prev = {"proxy": a["hooklog"], "plain": b["hooklog"]}
        self.events.append((label, "-c" in argv and any(x.startswith("core.hooksPath=") for x in argv), db, da))


def hook_counts(delta):
    """{(hook, outcome): count} of one log delta; outcome veto when the invocation logged ` VETO`"""
    inv = []
    for ln in delta.split("\n"):
        m = HOOK_HEAD.match(ln)
        if m:
            inv.append([m.group(1) + (m.group(2) or ""), "ok"])
        elif ln == " VETO" and inv:
            inv[-1][1] = "veto"
    cnt = {}
    for h, o in inv:
        cnt[(h, o)] = cnt.get((h, o), 0) + 1
    return cnt


# ------------------------------------------------------------------------------------------ scenario generation

class Gen:
    def __init__(self, ht, seed, with_remote):
        self.ht, self.rng = ht, random.Random(seed)
        self.n = 0
        self.branches = ["main"]
        self.with_remote = with_remote
        self.fail_pre = False

    def uid(self):
        self.n += 1
        return self.n

    def g(self, *a):
        return self.ht.tw.g.plain_git(*a, env=U.NOHOOKS)[1]

    def edit(self):
        k = self.uid()
        self.ht.do({"op": "write", "path": self.rng.choice(["a.txt", "b.txt", f"n{k}.txt"]), "content": f"line {k}\n" * (1 + k % 3)})

    def managed(self):
        rng, k = self.rng, self.uid()
        b = rng.choice(self.branches)
        nb = f"b{k}"
        choices = [
            lambda: (self.edit(), [["add", "-A"], ["commit", "-q", "-m", f"c{k}"]])[1],
            lambda: (self.edit(), [["commit", "-q", "-am", f"ca{k}"]])[1],
            lambda: (self.edit(), [["add", "-A"], ["commit", "-q", "-m", f"FORBIDDEN-MSG {k}"]])[1],
            lambda: [["commit", "-q", "--allow-empty", "-m", f"empty {k}"]],
            lambda: [["commit", "-q", "--amend", "-m", f"amended {k}"]],
            lambda: (self.branches.append(nb), [["checkout", "-q", "-b", nb]])[1],
            lambda: [["checkout", "-q", b]],
            lambda: [["switch", "-q", b]],
            lambda: [["checkout", "-q", "-b", f"forbidden-c{k}"]],
            lambda: [["switch", "-q", "-c", f"forbidden-s{k}"]],
            lambda: [["reset", "-q", "--hard", "HEAD"]],
            lambda: [["reset", "-q", "--soft", "HEAD~1"], ["commit", "-q", "-m", f"again {k}"]],
            lambda: (self.edit(), [["stash", "-q", "-u"], ["stash", "pop", "-q"]])[1],
            lambda: [["merge", "-q", "--no-ff", "--no-edit", b]],
            lambda: [["rebase", "-q", b]],
            lambda: [["cherry-pick", "--allow-empty", b]],
            lambda: [["-c", "core.hooksPath=<TW>/althooks", "commit", "-q", "--allow-empty", "-m", f"alt {k}"]],
        ]
        if self.with_remote:
            choices += [lambda: [["push", "-q", "origin", "HEAD"]], lambda: [["fetch", "-q", "origin"]],
                        lambda: [["push", "-q", "origin", f"HEAD:refs/heads/forbidden-p{k}"]]]
        return rng.choice(choices)()

    def unmanaged(self):
        rng, k = self.rng, self.uid()
        b = rng.choice(self.branches)
        choices = [
            lambda: [["tag", f"t{k}"]],
            lambda: [["tag", "-a", f"at{k}", "-m", "annotated"]],
            lambda: [["tag", f"t{k}"], ["tag", "-d", f"t{k}"]],
            lambda: [["tag", f"forbidden-t{k}"]],
            lambda: (self.branches.append(f"u{k}"), [["branch", f"u{k}"]])[1],
            lambda: [["branch", f"forbidden-b{k}"]],
            lambda: [["branch", f"tmp{k}"], ["branch", "-m", f"tmp{k}", f"ren{k}"], ["branch", "-D", f"ren{k}"]],
            lambda: [["update-ref", f"refs/heads/ur{k}", "HEAD"]],
            lambda: [["update-ref", f"refs/heads/forbidden-u{k}", "HEAD"]],
            lambda: [["update-ref", f"refs/heads/ud{k}", "HEAD"], ["update-ref", "-d", f"refs/heads/ud{k}"]],
            lambda: [["notes", "add", "-f", "-m", f"note {k}", "HEAD"]],
            lambda: [["notes", f"--ref=forbidden-n{k}", "add", "-f", "-m", "n", "HEAD"]],
            lambda: [["revert", "--no-edit", "HEAD"]],
            lambda: [["format-patch", "-q", "-1", "HEAD", "-o", f"<TW>/patches{k}"], ["reset", "-q", "--hard", "HEAD~1"],
                     ["am", "-q", f"<TW>/patches{k}"]],
            lambda: [["worktree", "add", "-q", f"<TW>/wt{k}", "-b", f"wtb{k}"]],
            # git 2.39's `bisect--helper` does not read core.hooksPath: its ref updates run .git/hooks/reference-transaction whatever the
            # configuration says (same in both twins) — except in the ensure+.git/hooks state, where the plain twin is set up WITHOUT hooks
            lambda: [["bisect", "start", "HEAD", "HEAD~1"], ["bisect", "reset"]] if self.ht.state != (True, "default") else [["tag", f"nb{k}"]],
            lambda: [["replace", "-f", "HEAD", "HEAD~1"], ["replace", "-d", "HEAD"]],
            lambda: [["symbolic-ref", "HEAD", f"refs/heads/{b}"], ["reset", "-q", "--hard"]],
            lambda: [["-c", "core.hooksPath=<TW>/althooks", "tag", f"alt{k}"]],
            lambda: [["-c", "core.hooksPath=<TW>/althooks", "update-ref", f"refs/heads/forbidden-alt{k}", "HEAD"]],
        ]
        return rng.choice(choices)()

    def run(self, length):
        ht, rng = self.ht, self.rng
        ht.do({"op": "write", "path": "a.txt", "content": "one\n"})
        ht.do({"op": "write", "path": "b.txt", "content": "bee\n"})
        ht.do({"op": "git", "argv": ["add", "-A"]})
        ht.do({"op": "git", "argv": ["commit", "-q", "-m", "base"]})
        ht.do({"op": "write", "path": "a.txt", "content": "one\ntwo\n"})
        ht.do({"op": "git", "argv": ["commit", "-q", "-am", "second"]})
        if self.with_remote:
            ht.do({"op": "git", "argv": ["push", "-q", "-u", "origin", "main"]})
        i = 0
        while i < length and not ht.failures:
            x = rng.random()
            if x < 0.06:
                if self.fail_pre:
                    ht.do({"op": "remove", "path": "FAIL_PRECOMMIT"})
                else:
                    ht.do({"op": "write", "path": "FAIL_PRECOMMIT", "content": "the user's pre-commit hook refuses while this file exists\n"})
                self.fail_pre = not self.fail_pre
                continue
            for argv in (self.unmanaged() if x < 0.58 else self.managed()):
                if ht.failures:
                    break
                ht.do({"op": "git", "argv": argv})
            i += 1


def run_scenario(args):
    state, seed, length = args
    dead = state == (True, "default")
    try:
        with e2e.Env() as env:
            ht = HookTwins(env, state, plain_has_hooks=not dead)
            if state[0] and (ht.ensure_out is None or ht.ensure_out[0] != 0):
                return {"state": state, "seed": seed, "failures": [("git-hooks-ensure-failed", {"out": ht.ensure_out})], "steps": [], "events": [], "ngit": 0, "witness": None}
            g = Gen(ht, seed, with_remote=state[1] != "global")
            g.run(length)
            witness = None
            if dead and not ht.failures:
                # the proxy twin behaved like a repository without user hooks; now give the plain twin the same hooks the
                # proxy twin has had in .git/hooks all along and run one command the user's reference-transaction hook vetoes
                proxy_log_empty = not any(not h.endswith("+ALT") for (h, _o) in hook_counts(ht.prev["proxy"]))
                ht.install_plain_hooks()
                r = ht.tw.git(["tag", "forbidden-final"])
                witness = {"proxy_rc": r["proxy"][0], "plain_rc": r["plain"][0], "proxy_log_empty": proxy_log_empty,
                           "argv": ["tag", "forbidden-final"]}
            return {"state": state, "seed": seed, "failures": ht.failures, "steps": ht.steps, "events": ht.events, "ngit": ht.ngit, "witness": witness}
    except Exception as ex:
        return {"state": state, "seed": seed, "failures": [("runner-exception", {"error": repr(ex), "trace": traceback.format_exc()[-1500:]})],
                "steps": [], "events": [], "ngit": 0, "witness": None}


def replay_steps(state, steps):
    state = tuple(state)
    dead = state == (True, "default")
    with e2e.Env() as env:
        ht = HookTwins(env, state, plain_has_hooks=not dead)
        for st in steps:
            ht.do({k: v for k, v in st.items() if k != "rc"})
            if ht.failures:
                break
        return ht.failures


def shrink(state, steps, sig, budget=14):
    cur = list(steps)
    i, tries = len(cur) - 2, 0
    while i >= 0 and tries < budget:
        cand = cur[:i] + cur[i + 1:]
        tries += 1
        try:
            if any(f[0] == sig for f in replay_steps(state, cand)):
                cur = cand
        except Exception:
            pass
        i -= 1
    return cur


def correspond(res, outs, managed_names):
    """Lean model of one hook event (extracted tables) vs what the proxy twin's log shows, per step and hook"""
    reqs, keys = [], []
    for o in outs:
        ens, loc = o["state"]
        if o["state"] == (True, "default"):
            continue            # the plain twin has no hooks there (see run_scenario); the witness step is checked below
        for (label, explicit, dplain, dproxy) in o["events"]:
            cp, cx = hook_counts(dplain), hook_counts(dproxy)
            for (h, outcome), n in cp.items():
                reqs.append({"op": "wrap_userhook", "cmd": label, "loc": loc, "ensured": ens, "ev_managed": h.replace("+ALT", "") in managed_names,
                             "user": outcome, "explicit": bool(explicit)})
                keys.append((o, label, h, outcome, n, cx.get((h, outcome), 0)))
    # identical requests are asked once
    uniq = {}
    for rq in reqs:
        uniq.setdefault(json.dumps(rq, sort_keys=True), rq)
    ans = dict(zip(uniq.keys(), C.run_driver(list(uniq.values())))) if uniq else {}
    bad, classes = [], {}
    for rq, (o, label, h, outcome, n_plain, n_proxy) in zip(reqs, keys):
        rp = ans[json.dumps(rq, sort_keys=True)]
        classes[(rp.get("uses_managed"), rp.get("dir"))] = classes.get((rp.get("uses_managed"), rp.get("dir")), 0) + 1
        want = n_plain * rp.get("runs", -1)
        if want != n_proxy:
            bad.append({"state": state_name(o["state"]), "cmd": label, "hook": h, "user": outcome, "model_runs_per_event": rp.get("runs"),
                        "plain_count": n_plain, "proxy_count": n_proxy, "dir": rp.get("dir")})
    res.obligation(f"user hooks: Lean model of a hook event (extracted decision tables) = runs seen in the proxy twin's log ({len(reqs)} hook events)",
                   not bad, "correspondence")
    res.extra.setdefault("e2e", {}).setdefault("user_hooks", {})["hook_events_by_route"] = {f"managed_cmd={k[0]},dir={k[1]}": v for k, v in sorted(classes.items(), key=str)}
    if bad:
        res.broken_tie("userhook-model-vs-proxy", {"first": bad[:6], "count": len(bad)})
    return len(bad)


def phase_hooks(res, tier, seed, threads=12):
    t0 = time.time()
    per_state, length = (1, 16) if tier == "quick" else (10, 26)
    jobs = [(st, seed * 1000003 + 97 * i + 7 * k, length) for k, st in enumerate(STATES) for i in range(per_state)]
    with concurrent.futures.ThreadPoolExecutor(threads) as ex:
        outs = list(ex.map(run_scenario, jobs))
    nfail, ngit = 0, 0
    managed_names = managed_hook_names()
    for o in outs:
        sn = state_name(o["state"])
        res.count_case("hooks:" + sn + json.dumps(o["steps"], ensure_ascii=False), nontrivial=o["ngit"] > 5)
        res.tag(["hooks:state:" + sn])
        ngit += o["ngit"]
        for (label, explicit, dplain, dproxy) in o["events"]:
            res.tag(["hooks:cmd:" + label] + (["hooks:explicit-hooksPath"] if explicit else []))
            for (h, outcome), n in hook_counts(dplain).items():
                res.tag([f"hooks:fired:{h}" + (":veto" if outcome == "veto" else "")])
        seen = set()
        for sig, d in o["failures"]:
            sig2 = f"{sig}" if sig == "runner-exception" else f"{sig}:hooks:{sn}"
            if sig2 in seen:
                continue
            seen.add(sig2)
            steps = o["steps"]
            if sig != "runner-exception" and C.finding_for("C06", sig2) is None and len(steps) > 8:
                steps = shrink(o["state"], steps, sig)
            if res.oracle_failure(sig2, {"hookcase": {"state": list(o["state"]), "steps": steps}, "seed": o["seed"], "detail": d,
                                         "replay": "./check C06 quick --replay <this file>"},
                                  what=f"user-hook twin run in state {sn}: {sig} (proxy vs plain git on the same command sequence)"):
                nfail += 1
        w = o.get("witness")
        if w is not None:
            # model: in this state the user's hook does not run (witness_default_dir_hooks_dead)
            rp = C.run_driver([{"op": "wrap_userhook", "cmd": "tag", "loc": "default", "ensured": True, "ev_managed": True, "user": "veto", "explicit": False}])[0]
            model_dead = rp.get("runs") == 0 and rp.get("dead_default_dir") is True
            observed_dead = w["proxy_rc"] == 0 and w["plain_rc"] != 0 and w["proxy_log_empty"]
            res.obligation("user hooks: state ensure+.git/hooks — model (hooks dead) = observed (log empty, veto not applied)", model_dead == observed_dead, "correspondence")
            if model_dead != observed_dead:
                res.broken_tie("userhook-dead-state-model-vs-proxy", {"model": rp, "observed": w})
            if observed_dead:
                res.oracle_failure("user-hooks-dead:ensure-default-hooks-dir", {"state": sn, "witness": w},
                                   what="after `git-ai git-hooks ensure` the hooks in .git/hooks never run")
    ncorr = correspond(res, outs, managed_names)
    res.extra.setdefault("e2e", {}).setdefault("user_hooks", {}).update({"scenarios": len(jobs), "git_commands_per_twin": ngit, "wall_s": round(time.time() - t0, 1)})
    res.sample({"hook_scenario": state_name(outs[-1]["state"]), "commands": [" ".join(s["argv"]) for s in outs[-1]["steps"] if s["op"] == "git"][:12]}, cap=6)
    res.obligation(f"user-hook twin run: exit code, hook log and U equal after each of {ngit} commands in {len(STATES)} installation states "
                   f"({len(jobs)} scenarios)", nfail == 0, "oracle")
    return nfail, ncorr


def replay(res, case):
    fl = replay_steps(case["state"], case["steps"])
    sn = state_name(tuple(case["state"]))
    n = 0
    for sig, d in fl:
        if res.oracle_failure(f"{sig}:hooks:{sn}", {"hookcase": case, "detail": d}, what=f"user-hook twin run in state {sn}: {sig}"):
            n += 1
    return n
