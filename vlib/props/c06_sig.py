"""C06 — exit mirroring including death by signal (`git_handlers.rs:exit_with_status`).

Twin run on the termination status: the same command line is started once as plain git and once through the proxy and
made to die by a signal; `wait(2)` must report the same thing for both.
  * reader closes early: stdout is a pipe, one line is read, the pipe is closed while git still has ~2 MB to write → git dies
    by SIGPIPE (stdin /dev/null: the wrapper makes the child a process-group leader and installs its forwarding handlers; stdin
    a pty: it does not; the parent ignoring SIGPIPE or not);
  * killed from outside: `git hash-object --stdin` blocks on its stdin; the git process (for the proxy: its child git) is sent
    every signal whose default action ends a process; for TERM/INT/HUP/QUIT also the wrapper itself (forwarded to the child's
    group).
Every observed child status is also run through the Lean model of `exit_with_status` over the statements extracted from the
source (driver op `wrap_exit`): model prediction vs observed proxy status is the correspondence, proxy vs plain the oracle.
"""
import concurrent.futures, json, os, pty, resource, signal, subprocess, time

from vlib import common as C, e2e

EMPTY_TREE = "4b825dc642cb6eb9a060e54bf8d69288fbee4904"
KILLERS = [1, 2, 3, 4, 5, 6, 7, 8, 9, 10, 11, 12, 13, 14, 15, 16, 24, 25, 26, 27, 29, 30, 31, 34, 64]
FORWARDED = [15, 2, 1, 3]
PIPE_ARGVS = [["log", "-p"], ["show", "HEAD:big.txt"], ["cat-file", "blob", "HEAD:big.txt"], ["--no-pager", "diff", EMPTY_TREE, "HEAD"],
              ["-c", "core.quotepath=off", "log", "-p", "--stat"], ["blame", "big.txt"], ["grep", "-n", "line", "HEAD"],
              ["diff-tree", "-p", "--root", "HEAD"], ["stash", "show", "-p"], ["cat-file", "-p", "HEAD:big.txt"], ["lg-alias"]]
# every command line above writes more than 1 MB (a pipe holds 64 KB): git is still writing when the reader goes away.
# `lg-alias` is a git alias (log -p --format=%H): plain git 2.39 runs an aliased builtin as a child process and turns its death by
# SIGPIPE into exit code 141, while the wrapper expands the alias itself (DESIGN O10: the expanded argv is what the child gets) and
# mirrors the signal. Both are status 141 to a shell; the alias case is therefore compared on the shell-visible status
# (exit code, or 128 + signal) and counted under the tag `sig:alias-exit141-vs-signal13`.


def signame(n):
    try:
        return signal.Signals(n).name
    except ValueError:
        return f"SIG{n}"


def describe(rc):
    return {"end": "signaled", "value": -rc} if rc < 0 else {"end": "exited", "value": rc}


def _argv_env(env, kind, args):
    e = dict(env.env)
    e["GIT_AUTHOR_DATE"] = e["GIT_COMMITTER_DATE"] = "1760000000 +0000"
    if kind == "proxy":
        e["GIT_AI"] = "git"
        return [env.binary] + args, e
    return [e2e.REAL_GIT] + args, e


def _drain(f, secs):
    """what is readable within `secs` (a process that outlived its parent may keep the write end open for ever)"""
    os.set_blocking(f.fileno(), False)
    out, t1 = b"", time.time()
    while time.time() - t1 < secs:
        try:
            chunk = f.read()
        except (BlockingIOError, OSError):
            chunk = None
        if chunk == b"":
            break
        if chunk:
            out += chunk
        else:
            time.sleep(0.02)
    return out


def run_sigpipe(env, repo, kind, case):
    argv, e = _argv_env(env, kind, case["argv"])
    master = slave = None
    if case["stdin"] == "pty":
        master, slave = pty.openpty()
        stdin = slave
    else:
        stdin = subprocess.DEVNULL
    try:
        p = subprocess.Popen(argv, cwd=repo, env=e, stdin=stdin, stdout=subprocess.PIPE, stderr=subprocess.PIPE,
                             restore_signals=not case.get("parent_ignores_sigpipe", False))
        first = p.stdout.readline()
        p.stdout.close()
        try:
            rc = p.wait(timeout=60)
        except subprocess.TimeoutExpired:
            p.kill()
            rc = 999
        err = _drain(p.stderr, 5).decode("utf-8", "replace")
        p.stderr.close()
    finally:
        for fd in (master, slave):
            if fd is not None:
                os.close(fd)
    return describe(rc), first.decode("utf-8", "replace")[:200], err[-600:]


def _children(pid):
    try:
        return [int(x) for x in open(f"/proc/{pid}/task/{pid}/children").read().split()]
    except OSError:
        out = subprocess.run(["pgrep", "-P", str(pid)], capture_output=True, text=True).stdout.split()
        return [int(x) for x in out]


def _cmdline(pid):
    try:
        return open(f"/proc/{pid}/cmdline", "rb").read().split(b"\0")[:-1]
    except OSError:
        return []


def run_kill(env, repo, kind, case):
    args = ["hash-object", "--stdin"]
    argv, e = _argv_env(env, kind, args)
    p = subprocess.Popen(argv, cwd=repo, env=e, stdin=subprocess.PIPE, stdout=subprocess.PIPE, stderr=subprocess.PIPE, start_new_session=True)
    target = p.pid
    try:
        if kind == "proxy":
            child, t0 = None, time.time()
            while child is None and time.time() - t0 < 20 and p.poll() is None:
                for k in _children(p.pid):
                    cl = _cmdline(k)
                    # (a freshly forked internal call still shows the wrapper's own command line until it execs: require git itself)
                    if cl and os.path.basename(cl[0]) == b"git" and [c.decode("utf-8", "replace") for c in cl[1:]] == args:
                        child = k
                if child is None:
                    time.sleep(0.01)
            if child is None:
                p.kill()
                p.wait()
                return {"end": "harness", "value": "child git not found"}, "", ""
            if case["target"] == "child":
                target = child
        else:
            # give git time to block on stdin
            time.sleep(0.05)
        time.sleep(0.03)
        try:
            os.kill(target, case["signal"])
        except ProcessLookupError:
            p.kill()
            p.wait()
            return {"end": "harness", "value": "target vanished"}, "", ""
        try:
            rc = p.wait(timeout=30)
        except subprocess.TimeoutExpired:
            p.kill()
            p.wait()
            rc = 999
        # nothing of this case may outlive it: when the wrapper dies without taking its child along (a regression in
        # signal forwarding, or SIGKILL to the wrapper) the orphaned git still blocks on stdin and holds the pipes open
        survivors = []
        for pid in ([child] if kind == "proxy" and child else []):
            try:
                os.kill(pid, 0)
                survivors.append(pid)
                os.kill(pid, signal.SIGKILL)
            except OSError:
                pass
        try:
            os.killpg(p.pid, signal.SIGKILL)
        except OSError:
            pass
        try:
            p.stdin.close()
        except Exception:
            pass
        err = _drain(p.stderr, 5).decode("utf-8", "replace")
        if survivors:
            err += f"\n[harness] child git {survivors} outlived the wrapper"
    finally:
        for f in (p.stdin, p.stdout, p.stderr):
            try:
                f.close()
            except Exception:
                pass
    return describe(rc), "", err[-600:]


def run_case(env, repo, case):
    """returns {"plain":…, "proxy":…} (end, first line, stderr tail)"""
    fn = run_sigpipe if case["kind"] == "sigpipe" else run_kill
    return {k: fn(env, repo, k, case) for k in ("plain", "proxy")}


def make_repo(env):
    r = env.repo("sigrepo")
    r.write("big.txt", "".join("line %06d of a rather long file, padding padding padding\n" % i for i in range(40000)))
    for i in range(300):
        r.write(f"many/f{i:03d}.txt", f"file {i}\n" * 40)
    r.plain_git("add", "-A", check=True)
    r.plain_git("commit", "-q", "-m", "big file", check=True)
    r.plain_git("config", "alias.lg-alias", "log -p --format=%H", check=True)
    r.write("big.txt", "".join("changed %06d padding padding padding padding\n" % i for i in range(40000)))
    r.plain_git("stash", "-q", check=True)
    return r


def cases_for(tier, seed):
    import random
    rng = random.Random(seed * 104729 + 0x516)
    cs = []
    argvs = list(PIPE_ARGVS)
    rng.shuffle(argvs)
    n = 6 if tier == "quick" else len(argvs)
    for i, a in enumerate(argvs[:n]):
        cs.append({"kind": "sigpipe", "argv": a, "stdin": "devnull", "parent_ignores_sigpipe": False})
    # always the plainest one, and the variants of the context
    cs.append({"kind": "sigpipe", "argv": ["log", "-p"], "stdin": "devnull", "parent_ignores_sigpipe": False})
    cs.append({"kind": "sigpipe", "argv": rng.choice(argvs), "stdin": "pty", "parent_ignores_sigpipe": False})
    cs.append({"kind": "sigpipe", "argv": rng.choice(argvs), "stdin": "devnull", "parent_ignores_sigpipe": True})
    cs.append({"kind": "sigpipe", "argv": rng.choice(argvs), "stdin": "pty", "parent_ignores_sigpipe": True})
    for s in KILLERS:
        cs.append({"kind": "kill", "signal": s, "target": "child"})
    for s in FORWARDED:
        cs.append({"kind": "kill", "signal": s, "target": "wrapper"})
    seen, out = set(), []
    for c in cs:
        k = json.dumps(c, sort_keys=True)
        if k not in seen:
            seen.add(k)
            out.append(c)
    return out


def label(case):
    if case["kind"] == "sigpipe":
        return "reader-closes-early:" + " ".join(case["argv"])
    return f"kill-{case['target']}:{signame(case['signal'])}"


def evaluate(res, case, obs):
    """oracle + correspondence for one case; returns number of failures"""
    plain, proxy = obs["plain"], obs["proxy"]
    n = 0
    if plain[0]["end"] == "harness" or proxy[0]["end"] == "harness":
        res.tag(["sig:harness-could-not-deliver"])
        return 0
    res.tag([f"sig:{case['kind']}", f"sig:plain-{plain[0]['end']}" + (":" + signame(plain[0]["value"]) if plain[0]["end"] == "signaled" else "")])
    shell = lambda d: d["value"] + (128 if d["end"] == "signaled" else 0)
    if case["kind"] == "sigpipe" and case["argv"] == ["lg-alias"] and plain[0] != proxy[0] and shell(plain[0]) == shell(proxy[0]) == 141:
        res.tag(["sig:alias-exit141-vs-signal13"])
        return 0
    if plain[0] != proxy[0]:
        sn = signame(plain[0]["value"]) if plain[0]["end"] == "signaled" else f"exit{plain[0]['value']}"
        if res.oracle_failure(f"termination-differs:{sn}", {"sigcase": case, "plain": plain[0], "proxy": proxy[0], "proxy_stderr": proxy[2],
                                                           "replay": "./check C06 quick --replay <this file>"},
                              what=f"{label(case)}: plain git ended {plain[0]}, the proxy ended {proxy[0]} (exit mirroring, exit_with_status)"):
            n += 1
    elif case["kind"] == "sigpipe" and plain[1] != proxy[1]:
        if res.oracle_failure("stdout-differs:reader-closes-early", {"sigcase": case, "plain": plain[1], "proxy": proxy[1]},
                              what=f"{label(case)}: first line of stdout differs"):
            n += 1
    return n


def correspond(res, cases, observed):
    """model of exit_with_status (over the extracted statements) vs the proxy's observed termination"""
    reqs = []
    for c, o in zip(cases, observed):
        st = o["plain"][0]
        if st["end"] == "harness" or o["proxy"][0]["end"] == "harness":
            reqs.append(None)
            continue
        if c["kind"] == "sigpipe" and c["argv"] == ["lg-alias"] and st == {"end": "exited", "value": 141}:
            st = {"end": "signaled", "value": 13}      # the wrapper's child is `git log -p …` itself (see PIPE_ARGVS)
        setpgid = not (c["kind"] == "sigpipe" and c["stdin"] == "pty")
        reqs.append({"op": "wrap_exit", "kind": st["end"], "value": st["value"], "setpgid": setpgid, "ignored": []})
    live = [r for r in reqs if r is not None]
    resp = iter(C.run_driver(live)) if live else iter([])
    bad = []
    for c, o, rq in zip(cases, observed, reqs):
        if rq is None:
            continue
        rp = next(resp)
        if rp.get("proxy") != o["proxy"][0]:
            bad.append({"case": c, "child_status": o["plain"][0], "model": rp.get("proxy"), "observed": o["proxy"][0]})
    res.obligation(f"exit mirroring: Lean model of exit_with_status (extracted statements) = observed proxy termination ({len(live)} cases)", not bad, "correspondence")
    if bad:
        res.broken_tie("exit-model-vs-proxy", {"first": bad[:5], "count": len(bad)})
    return len(bad)


def phase_signals(res, tier, seed, threads=6):
    t0 = time.time()
    try:
        resource.setrlimit(resource.RLIMIT_CORE, (0, resource.getrlimit(resource.RLIMIT_CORE)[1]))
    except Exception:
        pass
    cases = cases_for(tier, seed)
    nfail = 0
    with e2e.Env() as env:
        repo = make_repo(env)
        with concurrent.futures.ThreadPoolExecutor(threads) as ex:
            observed = list(ex.map(lambda c: run_case(env, repo.path, c), cases))
        # a case the harness could not deliver (child not found in time) is retried once, serially
        for i, (c, o) in enumerate(zip(cases, observed)):
            if "harness" in (o["plain"][0]["end"], o["proxy"][0]["end"]):
                observed[i] = run_case(env, repo.path, c)
    for c, o in zip(cases, observed):
        res.count_case("sig:" + json.dumps(c, sort_keys=True))
        nfail += evaluate(res, c, o)
    ncorr = correspond(res, cases, observed)
    died = sum(1 for o in observed if o["plain"][0]["end"] == "signaled")
    res.extra.setdefault("e2e", {})["signals"] = {"cases": len(cases), "plain_git_died_by_signal": died, "wall_s": round(time.time() - t0, 1),
                                                  "signals": sorted({signame(o["plain"][0]["value"]) for o in observed if o["plain"][0]["end"] == "signaled"})}
    res.sample({"signal_cases": [label(c) + " → " + json.dumps(o["proxy"][0]) for c, o in list(zip(cases, observed))[:6]]}, cap=5)
    res.obligation(f"termination twin run: wait status (exit code / killing signal) of the proxy = plain git's in {len(cases)} cases "
                   f"({died} deaths by signal)", nfail == 0, "oracle")
    return nfail, ncorr


def replay(res, case):
    with e2e.Env() as env:
        repo = make_repo(env)
        o = run_case(env, repo.path, case)
    res.count_case("sig:" + json.dumps(case, sort_keys=True))
    return evaluate(res, case, o)
