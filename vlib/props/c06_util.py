"""Shared machinery of the C06 / C07 end-to-end checks: twin repositories (one driven through the git-ai proxy,
one by plain git, identical dates/authors), observation of `U` (everything the properties compare with plain
git), the wrapper inventory (extract/wrapper_tables.py) and its run-time validation against
GIT_AI_VERIF_TRACE, replay of recorded op lists."""
import hashlib, importlib.util, json, os, random, re, shutil, stat, subprocess, traceback

from vlib import common as C, e2e

NOHOOKS = {"GIT_CONFIG_COUNT": "1", "GIT_CONFIG_KEY_0": "core.hooksPath", "GIT_CONFIG_VALUE_0": "/dev/null"}
USER_HOOKS = ("pre-commit", "commit-msg", "post-commit", "reference-transaction", "post-checkout", "post-merge",
              "post-rewrite", "pre-push", "pre-rebase", "prepare-commit-msg")
HOOK_SCRIPT = """#!/bin/sh
# user hook installed by the verification harness: append what git told the hook to $HOOKLOG
n=$(basename "$0")
[ -n "$HOOKLOG" ] || exit 0
echo "$n $*" >> "$HOOKLOG"
case "$n" in
  reference-transaction|post-rewrite|pre-push) cat >> "$HOOKLOG" ;;
  commit-msg) head -n 1 "$1" >> "$HOOKLOG" ;;
  pre-commit) if [ -f "$(git rev-parse --show-toplevel)/FAIL_PRECOMMIT" ]; then echo "user pre-commit hook says no" >&2; exit 1; fi ;;
esac
exit 0
"""
INPROGRESS = ("MERGE_HEAD", "CHERRY_PICK_HEAD", "REVERT_HEAD", "MERGE_MSG", "SQUASH_MSG", "MERGE_MODE", "AUTO_MERGE", "ORIG_HEAD",
              "BISECT_LOG", "rebase-merge", "rebase-apply", "sequencer")
SHA_RE = re.compile(r"\b[0-9a-f]{40}\b")


def load_module(name, rel):
    spec = importlib.util.spec_from_file_location(name, os.path.join(C.VERIF, rel))
    m = importlib.util.module_from_spec(spec)
    spec.loader.exec_module(m)
    return m


# ------------------------------------------------------------------------------------------ inventory

def phase_extract(res):
    """Regenerate Extracted/WrapperTables.lean; returns the inventory dict (or the last good one / None)."""
    try:
        ex = load_module("wrapper_tables", "extract/wrapper_tables.py")
        r = ex.run(write=True)
    except Exception as e:
        res.obligation("extract:wrapper_tables", False, "extraction")
        res.broken_tie("extract:wrapper_tables", f"{type(e).__name__}: {e}"[:3000])
        try:
            return json.load(open(os.path.join(C.BUILD, "wrapper-inventory" + C._ALT + ".json")))
        except Exception:
            return None
    res.obligation("extract:wrapper_tables", r["ok"], "extraction")
    if not r["ok"]:
        res.broken_tie("extract:wrapper_tables", {"problems": r["problems"][:12]})
    res.extra["inventory"] = {"internal_git_call_sites": len(r["calls"]), "fs_write_sites": len(r["writes"]), "exit_sites": len(r["exits"]),
                              "pre_dispatch": [a["cmd"] for a in r["pre"]], "post_dispatch": [a["cmd"] for a in r["post"]],
                              "call_graph": r["stats"]}
    return r


def profile_tables():
    pt = load_module("profile_tables_c06", "extract/profile_tables.py")
    return pt.extract_profile_tables()


def matcher_tokens(toks):
    """inventory tokens without the literal `-c core.hooksPath=/dev/null` pair (the matcher strips it from the argv too)"""
    out, i = [], 0
    while i < len(toks):
        t = toks[i]
        if (t["k"] == "lit" and t["s"] == "-c" and i + 1 < len(toks) and toks[i + 1]["k"] == "lit"
                and toks[i + 1]["s"].startswith("core.hooksPath=")):
            i += 2
            continue
        out.append(t)
        i += 1
    return out


def validate_trace(res, inv, traces, label):
    """Every traced internal argv must (1) match an entry of the reachable-call inventory and (2) be `callOk` for the
    Lean classifier on the concrete argv (confined footprint, no user hook can run). Returns number of problems."""
    from vlib.props import c12_util as U12
    if inv is None or not traces:
        return 0
    tables = profile_tables()
    calls = [dict(c, tokens=matcher_tokens(c["tokens"])) for c in inv["calls"]]
    shapes = {}
    malformed = 0
    for a in traces:
        # `find_repository` splices the user's global args in front of `rev-parse`: when the user's last global option
        # lacks its value (`git --git-dir`, `git -c`, `git -C`) it swallows `rev-parse`, git rejects the command line
        # (usage error, nothing runs); such argvs have no sub-command to classify
        pre, rest = U12.strip_observed(a, tables["value_opts"], None)
        if "rev-parse" in pre and (not rest or rest[0].startswith("-")):
            malformed += 1
            continue
        shapes.setdefault(tuple(SHA_RE.sub("<sha>", x) for x in a), a)
    res.tags["trace:user-global-option-swallowed-rev-parse"] = malformed
    unmatched, pairs = [], []
    for shape, a in shapes.items():
        ms = [c for c in calls if U12.match_call(c, list(a), tables)]
        if not ms:
            unmatched.append(list(a))
        else:
            pairs.append((a, ms))
    res.obligation(f"{label}: every traced internal git argv matches a reachable inventory entry ({len(shapes)} shapes)", not unmatched, "correspondence")
    if unmatched:
        res.broken_tie(f"{label}:inventory-vs-trace", {"unmatched": unmatched[:8], "count": len(unmatched)})
    reqs = []
    for a, ms in pairs:
        refs = next((c["script_refs"] for c in ms if c["script_refs"]), [])
        reqs.append({"op": "wrap_classify", "argv": list(a), "refs": refs})
    bad = []
    feet = {}
    if reqs:
        for rq, rp in zip(reqs, C.run_driver(reqs)):
            feet[rp.get("foot", "?")] = feet.get(rp.get("foot", "?"), 0) + 1
            if not rp.get("call_ok"):
                bad.append({"argv": rq["argv"], "model": rp})
    res.obligation(f"{label}: every traced internal call is callOk in the Lean classifier (confined footprint, user hooks off)", not bad, "correspondence")
    if bad:
        res.broken_tie(f"{label}:traced-call-not-confined", {"first": bad[:6], "count": len(bad)})
    # abstraction check: some matching entry's token pattern has the footprint of the concrete argv
    by_key = {c["key"]: c for c in inv["calls"]}
    keys = sorted({m["key"] for _, ms in pairs for m in ms})
    pat = {}
    if keys:
        for k, rp in zip(keys, C.run_driver([{"op": "wrap_tokens", "tokens": by_key[k]["tokens"], "refs": by_key[k]["script_refs"]} for k in keys])):
            pat[k] = rp.get("foot")
    mism = []
    if reqs:
        for (a, ms), rc in zip(pairs, C.run_driver(reqs)):
            if not any(pat.get(m["key"]) == rc.get("foot") for m in ms):
                mism.append({"argv": list(a), "entries": [m["key"] for m in ms][:4], "pattern_feet": [pat.get(m["key"]) for m in ms][:4],
                             "concrete_foot": rc.get("foot")})
    res.obligation(f"{label}: footprint of a matched entry's token pattern = footprint of the concrete argv", not mism, "correspondence")
    if mism:
        res.broken_tie(f"{label}:pattern-vs-concrete-footprint", {"first": mism[:6], "count": len(mism)})
    res.extra.setdefault("trace", {})[label] = {"distinct_argv_shapes": len(shapes), "feet": feet}
    return len(unmatched) + len(bad) + len(mism)


# ------------------------------------------------------------------------------------------ twins

def names_ai(argv):
    """the command line names git-ai's namespaces / all refs / the object store: F1 is false there (DESIGN C06 theorem 3);
    such commands are compared on status and U only."""
    sub = cmd_label(argv)
    if any("notes/ai" in a or a.startswith("--ref=ai") or a.startswith("--notes") or a in ("--all", "--mirror", "--reflog", "--alternate-refs")
           or a.startswith("--glob") or a.startswith("--exclude") for a in argv):
        return True
    return sub in ("for-each-ref", "show-ref", "gc", "prune", "fsck", "count-objects", "pack-refs", "repack", "fast-export", "bundle",
                   "ls-remote", "describe", "name-rev", "maintenance")


class Twins:
    """Two repositories with identical histories: `p` driven through the proxy, `g` by plain git."""

    def __init__(self, env, trace=True):
        self.env = env
        self.t = 1760000000
        self.side = {}
        for x in ("proxy", "plain"):
            tw = os.path.join(env.root, "tw-" + x)
            os.makedirs(tw)
            r = e2e.Repo(env, os.path.join(tw, "repo"))
            os.makedirs(r.path)
            r.plain_git("init", "-q", "-b", "main", check=True)
            remote = e2e.Repo(env, os.path.join(tw, "remote.git"))
            os.makedirs(remote.path)
            remote.plain_git("init", "-q", "--bare", "-b", "main", check=True)
            # relative URL: merge messages ("Merge branch 'main' of ../remote") must not contain the twin's own path
            r.plain_git("remote", "add", "origin", "../remote.git", check=True)
            for h in USER_HOOKS:
                hp = os.path.join(r.path, ".git", "hooks", h)
                with open(hp, "w") as f:
                    f.write(HOOK_SCRIPT)
                os.chmod(hp, 0o755)
            self.side[x] = {"tw": tw, "repo": r, "remote": remote, "hooklog": os.path.join(tw, "hooklog"), "peer": None}
        self.p, self.g = self.side["proxy"]["repo"], self.side["plain"]["repo"]
        self.trace_file = os.path.join(env.root, "trace.jsonl") if trace else None
        self.gitconfig0 = open(env.env["GIT_CONFIG_GLOBAL"], "rb").read()

    # ---- helpers
    def tick(self):
        self.t += 60
        return self.t

    def envfor(self, x, t, extra=None):
        e = {"GIT_AUTHOR_DATE": f"{t} +0000", "GIT_COMMITTER_DATE": f"{t} +0000", "HOOKLOG": self.side[x]["hooklog"]}
        if x == "proxy" and self.trace_file:
            e["GIT_AI_VERIF_TRACE"] = self.trace_file
        if extra:
            e.update(extra)
        return e

    def subst(self, x, argv):
        s = self.side[x]
        rep = {"<REPO>": s["repo"].path, "<GITDIR>": os.path.join(s["repo"].path, ".git"), "<REMOTE>": s["remote"].path, "<TW>": s["tw"]}
        out = []
        for a in argv:
            for k, v in rep.items():
                a = a.replace(k, v)
            out.append(a)
        return out

    def norm(self, x, text):
        return text.replace(self.side[x]["tw"], "<TW>")

    def write(self, rel, content, mode=None):
        for x in ("proxy", "plain"):
            r = self.side[x]["repo"]
            p = os.path.join(r.path, rel)
            os.makedirs(os.path.dirname(p) or ".", exist_ok=True)
            if os.path.isdir(p) and not os.path.islink(p):
                continue
            with open(p, "wb") as f:
                f.write(content.encode("utf-8") if isinstance(content, str) else content)
            if mode:
                os.chmod(p, mode)

    def remove(self, rel):
        for x in ("proxy", "plain"):
            p = os.path.join(self.side[x]["repo"].path, rel)
            if os.path.isfile(p):
                os.unlink(p)

    def git(self, argv, cwd="", extra_env=None, input=None, proxy_env=None):
        """the same command in both twins; returns {"proxy": (rc,out,err), "plain": (..)} with normalised text"""
        t = self.tick()
        res = {}
        for x in ("proxy", "plain"):
            s = self.side[x]
            a = self.subst(x, argv)
            wd = os.path.normpath(os.path.join(s["repo"].path, cwd)) if cwd != "<TW>" else s["tw"]
            if not os.path.isdir(wd):
                wd = s["repo"].path
            e = self.envfor(x, t, extra_env)
            if x == "proxy" and proxy_env:
                e.update(proxy_env)
            try:
                if x == "proxy":
                    rc, out, err = s["repo"].git(*a, env=e, cwd=wd, input=input)
                else:
                    rc, out, err = s["repo"].plain_git(*a, env=e, cwd=wd, input=input)
            except subprocess.TimeoutExpired:
                rc, out, err = -999, "", "timeout"
            res[x] = (rc, self.norm(x, out), self.norm(x, err))
        return res

    def git_one(self, x, argv, t, cwd="", extra_env=None, input=None, stdout_path=None):
        """one command in one twin at clock `t` (C07: the twins are not in lockstep there)"""
        s = self.side[x]
        a = self.subst(x, argv)
        wd = os.path.normpath(os.path.join(s["repo"].path, cwd)) if cwd != "<TW>" else s["tw"]
        e = self.envfor(x, t, extra_env)
        if stdout_path:
            full = dict(self.env.env)
            full.update(e)
            if x == "proxy":
                full["GIT_AI"] = "git"
            with open(stdout_path, "wb") as so:
                p = subprocess.run([self.env.binary if x == "proxy" else e2e.REAL_GIT] + a, cwd=wd, env=full, stdout=so, stderr=subprocess.PIPE, timeout=120)
            return p.returncode, "", self.norm(x, p.stderr.decode("utf-8", "replace"))
        try:
            if x == "proxy":
                rc, out, err = s["repo"].git(*a, env=e, cwd=wd, input=input)
            else:
                rc, out, err = s["repo"].plain_git(*a, env=e, cwd=wd, input=input)
        except subprocess.TimeoutExpired:
            rc, out, err = -999, "", "timeout"
        return rc, self.norm(x, out), self.norm(x, err)

    def ai_edit(self, session, rel, content):
        """an AI session rewrites a file: checkpoints exist in the proxy twin only (they live in A)"""
        self.p.human_checkpoint([rel])
        self.write(rel, content)
        self.p.ai_checkpoint(session, [rel])

    def peer_commit(self, rel, content, msg):
        """somebody else pushes a commit to both remotes (plain git on both sides, same ids)"""
        t = self.tick()
        for x in ("proxy", "plain"):
            s = self.side[x]
            if s["peer"] is None:
                pr = e2e.Repo(self.env, os.path.join(s["tw"], "peer"))
                e2e.Repo(self.env, s["tw"]).plain_git("clone", "-q", s["remote"].path, pr.path)
                s["peer"] = pr
            pr = s["peer"]
            e = {"GIT_AUTHOR_DATE": f"{t} +0000", "GIT_COMMITTER_DATE": f"{t} +0000"}
            pr.plain_git("pull", "-q", "--ff-only", "origin", "main", env=e)
            pr.write(rel, content)
            pr.plain_git("add", "-A", env=e)
            pr.plain_git("commit", "-q", "-m", msg, env=e)
            pr.plain_git("push", "-q", "origin", "HEAD:main", env=e)

    # ---- observation of U
    def observe(self, x):
        s = self.side[x]
        r = s["repo"]
        g = lambda *a: r.plain_git(*a, env=NOHOOKS)[1]
        o = {}
        rc, out, _ = r.plain_git("symbolic-ref", "-q", "HEAD", env=NOHOOKS)
        o["head"] = out.strip() if rc == 0 else "detached:" + g("rev-parse", "HEAD").strip()
        o["refs"] = [l for l in g("for-each-ref", "--format=%(refname) %(objectname)").split("\n") if l and not l.startswith("refs/notes/ai")]
        o["index"] = g("ls-files", "-s", "-z")
        o["status"] = g("status", "--porcelain=v2", "--untracked-files=all", "--branch")
        o["stash"] = g("stash", "list", "--format=%H %gs")
        wt = {}
        for root, dirs, files in os.walk(r.path):
            if root == r.path and ".git" in dirs:
                dirs.remove(".git")
            for fn in files + [d for d in dirs if os.path.islink(os.path.join(root, d))]:
                p = os.path.join(root, fn)
                rel = os.path.relpath(p, r.path)
                try:
                    st = os.lstat(p)
                    if stat.S_ISLNK(st.st_mode):
                        wt[rel] = "link:" + os.readlink(p)
                    else:
                        wt[rel] = hashlib.sha1(open(p, "rb").read()).hexdigest() + (":x" if st.st_mode & 0o100 else "")
                except OSError:
                    wt[rel] = "unreadable"
            for d in dirs:
                if not os.listdir(os.path.join(root, d)):
                    wt[os.path.relpath(os.path.join(root, d), r.path) + "/"] = "emptydir"
        o["worktree"] = wt
        gd = os.path.join(r.path, ".git")
        ip = {}
        for n in INPROGRESS:
            p = os.path.join(gd, n)
            if os.path.isdir(p):
                ent = {}
                for fn in sorted(os.listdir(p)):
                    fp = os.path.join(p, fn)
                    if os.path.isfile(fp) and fn in ("done", "git-rebase-todo", "onto", "orig-head", "head-name", "msgnum", "end", "todo", "head", "stopped-sha", "next", "last"):
                        ent[fn] = self.norm(x, open(fp, "rb").read().decode("utf-8", "replace"))
                    else:
                        ent[fn] = "present"
                ip[n + "/"] = ent
            elif os.path.exists(p):
                ip[n] = self.norm(x, open(p, "rb").read().decode("utf-8", "replace"))
        o["in_progress"] = ip
        try:
            o["hooklog"] = self.norm(x, open(s["hooklog"], "rb").read().decode("utf-8", "replace"))
        except FileNotFoundError:
            o["hooklog"] = ""
        # names of everything under .git outside the object store and git-ai's namespaces
        names = []
        for root, dirs, files in os.walk(gd):
            rel = os.path.relpath(root, gd)
            if rel == ".":
                for d in ("objects", "ai"):
                    if d in dirs:
                        dirs.remove(d)
            for fn in files:
                q = os.path.normpath(os.path.join(rel, fn))
                if re.match(r"^(logs/)?refs/notes/ai", q) or q.endswith(".lock") or q in ("index", "COMMIT_EDITMSG", "FETCH_HEAD", "gc.log", "packed-refs"):
                    continue
                names.append(q)
        o["gitdir_names"] = sorted(names)
        try:
            cfg = open(os.path.join(gd, "config"), "rb").read().decode("utf-8", "replace")
        except OSError:
            cfg = "<missing>"
        o["git_config"] = self.norm(x, cfg)
        # the remote the twin pushes to (refs outside git-ai's namespaces), and the twin's directory listing
        rr = s["remote"].plain_git("for-each-ref", "--format=%(refname) %(objectname)", env=NOHOOKS)[1]
        o["remote_refs"] = [l for l in rr.split("\n") if l and not l.startswith("refs/notes/ai")]
        o["twin_dir"] = sorted(os.listdir(s["tw"]))
        try:
            o["packed_refs"] = [l for l in open(os.path.join(gd, "packed-refs")).read().split("\n") if "refs/notes/ai" not in l]
        except OSError:
            o["packed_refs"] = None
        return o

    COMPARE = (("head", "head-differs"), ("refs", "refs-differ"), ("index", "index-differs"), ("status", "status-porcelain-differs"),
               ("stash", "stash-differs"), ("worktree", "worktree-differs"), ("in_progress", "in-progress-differs"),
               ("hooklog", "user-hook-log-differs"), ("gitdir_names", "gitdir-files-differ"), ("git_config", "git-config-differs"),
               ("packed_refs", "refs-differ"), ("remote_refs", "remote-refs-differ"), ("twin_dir", "files-outside-repository-differ"))

    @staticmethod
    def hook_delta_without_ai(delta):
        """for a command that itself names all refs (pack-refs, gc, push --mirror ..): the user's reference-transaction /
        pre-push hook legitimately sees refs/notes/ai* in the USER's transaction. Drop those lines, and drop the
        reference-transaction blocks left without any ref line (a transaction that held only refs/notes/ai* in the proxy
        twin corresponds to an empty or absent transaction in the plain twin)."""
        blocks = []
        head_re = re.compile(r"^(" + "|".join(re.escape(h) for h in USER_HOOKS) + r")( |$)")
        for ln in delta.split("\n"):
            if head_re.match(ln) or not blocks:
                if ln != "":
                    blocks.append((ln, []))
            elif "refs/notes/ai" not in ln:
                blocks[-1][1].append(ln)
        out = []
        for head, lines in blocks:
            if head.startswith("reference-transaction ") and not lines:
                continue
            out.append(head)
            out.extend(lines)
        return "\n".join(out)

    def compare_u(self, carve=False):
        """[(sig, detail)] for every component of U that differs between the twins; the user-hook log is compared as the
        delta since the previous call (`carve`: the command names all refs, see hook_delta_without_ai)"""
        a, b = self.observe("proxy"), self.observe("plain")
        prev = getattr(self, "_hook_prev", ("", ""))
        da, db = a["hooklog"][len(prev[0]):], b["hooklog"][len(prev[1]):]
        self._hook_prev = (a["hooklog"], b["hooklog"])
        if carve:
            da, db = self.hook_delta_without_ai(da), self.hook_delta_without_ai(db)
        a["hooklog"], b["hooklog"] = da, db
        out = []
        for key, sig in self.COMPARE:
            if a[key] != b[key]:
                if key == "packed_refs" and (a[key] is None or b[key] is None):
                    continue       # packing is an internal representation; the refs themselves are compared above
                out.append((sig, {"component": key, "proxy": C.trunc(a[key], 1500), "plain": C.trunc(b[key], 1500)}))
        if open(self.env.env["GIT_CONFIG_GLOBAL"], "rb").read() != self.gitconfig0:
            out.append(("global-gitconfig-changed", {}))
        extra = sorted(set(os.listdir(self.env.home)) - {".gitconfig", ".git-ai"})
        if extra:
            out.append(("home-extra-file", {"entries": extra}))
        return out

    def traces(self):
        out = []
        if self.trace_file and os.path.exists(self.trace_file):
            for ln in open(self.trace_file):
                try:
                    j = json.loads(ln)
                    if isinstance(j.get("pid"), int) and isinstance(j.get("n"), int) and all(isinstance(a, str) for a in j["args"]):
                        out.append(j["args"])
                except Exception:
                    pass
        return out

    def norm_trace(self, args):
        return [a.replace(self.side["proxy"]["tw"], "<TW>") for a in args]


def cmd_label(argv):
    """sub-command (first non-option word after the global options) for signatures"""
    i = 0
    while i < len(argv):
        a = argv[i]
        if a in ("-C", "-c", "--git-dir", "--work-tree", "--namespace", "--super-prefix", "--config-env") and i + 1 < len(argv):
            i += 2
            continue
        if a.startswith("-"):
            i += 1
            continue
        return a
    return (argv[0] if argv else "<none>")
