"""C07 — a failure inside git-ai never damages or silently alters a git operation (DESIGN §8 C07).

Phases: extract (wrapper inventories + reader shape facts) → prove (Props/C07.lean: fault_dichotomy,
status_never_changed_after_git, journals_tolerant, later_commands_work + the O12 witness; audit) → build → corpus
(O12 torn checkpoints, clone with a full stdout) → **fault enumeration**: for each wrapped command of a scenario the
number n of internal git calls is recorded (GIT_AI_VERIF_TRACE), then the command is re-run from an identical snapshot
with GIT_AI_VERIF_FAULT=k:fail and k:abort for k = 1…n and compared with the plain-git twin (outcome class, U, notes
readable, the NEXT commands — `git status`, then a `git commit` — still behave like plain git, no attribution invented)
→ **corruption stream** over every file under .git/ai → **node stream** (vlib/props/c07_nodes.py: every file AND directory under
.git/ai × {deleted, truncated at line boundaries, bit flips, emptied, garbage, replaced by a directory / a file, replaced by a dangling
symbolic link, mode 000, immutable} × {commit, amend, agent + human checkpoint then commit, stash push/pop/commit, rebase} against the
plain-git twin, then C03's content oracle on notes and blame; Model/JournalStore.lean) → **snapshot stream** (vlib/props/c07_snapshots.py: the blobs under
working_logs/<HEAD>/blobs damaged after an agent checkpoint, a person retypes lines at the agent's positions, commit; content
oracle on note + blame; Model/Snapshot.lean vs the real note) → journal-reader correspondence (Lean model vs a real JSON
parser's per-line verdicts) → search when a tie broke."""
import concurrent.futures, json, os, random, shutil, sys, time, traceback, zlib

from vlib import common as C, e2e
from vlib.props import c06_util as U
from vlib.props import c07_snapshots as SNAP
from vlib.props import c07_nodes as NODES

PROP = "C07"
THEOREMS = [
    "GitAi.C07.fault_dichotomy",
    "GitAi.C07.fault_dichotomy_vs_plain_git",
    "GitAi.C07.status_never_changed_after_git",
    "GitAi.C07.status_mirroring_in_source",
    "GitAi.C07.journals_tolerant",
    "GitAi.C07.checkpoints_tolerant",
    "GitAi.C07.initial_tolerant",
    "GitAi.C07.readers_in_source",
    "GitAi.C07.later_commands_work",
    "GitAi.C07.later_commands_work_nodes",
    "GitAi.C07.storage_failures_in_source",
    "GitAi.C07.modelHooks_wf",
    "GitAi.C07.modelHooksS_wf",
    "GitAi.C07.witness_blocked_storage_blocks_commit",
    "GitAi.C07.witness_O12_strict_reader_blocks_commit",
    "GitAi.C07.lost_snapshot_never_invents",
    "GitAi.C07.snapshot_reads_in_source",
    "GitAi.C07.lost_snapshot_never_invents_in_history",
    "GitAi.C07.witness_current_fallback_invents",
    "GitAi.C07.lost_snapshot_invents_with_current_fallback",
    "GitAi.C07.witness_initial_current_invents",
    "GitAi.C07.witness_forged_snapshot_invents",
    "GitAi.C06.inventory_confined",
    "GitAi.C06.refusal_only_precommit",
]
CORPUS = os.path.join(C.VERIF, "corpus", "C07", "cases.jsonl")
SIGABRT = -6


# ------------------------------------------------------------------------------------------ scenario states

def ai_lines(session, n, k=2):
    return [f"ai-{session}-{n}-{i} generated();" for i in range(k)]


class Lab:
    """One Env with twins, a scripted history and snapshot/restore of both twin directories."""

    def __init__(self, env):
        self.env = env
        self.tw = U.Twins(env, trace=False)
        self.t = 1760100000
        self.n = 0
        self.contents = {}
        self.snaps = {}

    def tick(self):
        self.t += 60
        return self.t

    def both(self, *argv, check=True):
        t = self.tick()
        rp = self.tw.git_one("proxy", list(argv), t)
        rg = self.tw.git_one("plain", list(argv), t)
        if check and (rp[0] != 0 or rg[0] != 0):
            raise RuntimeError(f"setup command {argv} failed: proxy {rp[0]} {rp[2][-300:]} plain {rg[0]} {rg[2][-300:]}")
        return rp, rg

    def write(self, path, lines):
        self.contents[path] = list(lines)
        self.tw.write(path, "".join(l + "\n" for l in lines))

    def ai(self, session, path, pos=None):
        self.n += 1
        cur = list(self.contents.get(path, []))
        new = ai_lines(session, self.n)
        pos = len(cur) if pos is None else pos
        cur[pos:pos] = new
        self.contents[path] = cur
        self.tw.ai_edit(session, path, "".join(l + "\n" for l in cur))

    def human(self, path):
        self.n += 1
        cur = list(self.contents.get(path, []))
        cur.append(f"hum-{self.n} typed by a person")
        self.write(path, cur)

    # ---- the states
    def state_a(self):
        """history with AI commits on two branches, notes pushed, pending AI lines in INITIAL, staged AI work"""
        for p in ("f1.txt", "f2.txt", "d/f3.txt"):
            self.write(p, [f"hum-base-{p}-{i}" for i in range(4)])
        self.both("add", "-A")
        self.both("commit", "-q", "-m", "base")
        self.both("push", "-q", "-u", "origin", "main")
        self.both("checkout", "-q", "-b", "feat")
        self.ai("s2", "f2.txt")
        self.both("commit", "-q", "-am", "feat ai")
        self.human("d/f3.txt")
        self.both("commit", "-q", "-am", "feat human")
        self.both("checkout", "-q", "main")
        self.ai("s1", "f1.txt", 1)
        self.both("commit", "-q", "-am", "main ai 1")
        self.ai("s1", "f1.txt")
        self.write("g.txt", ["hum-g-0", "hum-g-1"])
        self.both("add", "g.txt")
        self.both("commit", "-q", "-m", "partial: g only")          # f1's AI lines stay pending (INITIAL)
        self.ai("s2", "f1.txt", 0)
        self.both("add", "f1.txt")
        self.human("g.txt")
        self.both("push", "-q", "origin", "main")

    def state_b(self):
        """state A with everything committed (clean tree) and a peer commit on the remote"""
        self.state_a()
        self.both("commit", "-q", "-am", "all")
        self.tw.peer_commit("peer0.txt", "hum-peer\n", "peer 1")

    def state_c(self):
        """state A with the work stashed"""
        self.state_a()
        self.both("stash", "push", "-q")

    # ---- snapshots
    def snapshot(self, name="base"):
        d = os.path.join(self.env.root, "snap-" + name)
        if os.path.isdir(d):
            shutil.rmtree(d)
        os.makedirs(d)
        for x in ("proxy", "plain"):
            shutil.copytree(self.tw.side[x]["tw"], os.path.join(d, x), symlinks=True)
        self.snaps[name] = d

    def restore(self, x, name="base"):
        tw = self.tw.side[x]["tw"]
        shutil.rmtree(tw)
        shutil.copytree(os.path.join(self.snaps[name], x), tw, symlinks=True)

    def observe(self, x):
        o = self.tw.observe(x)
        o.pop("gitdir_names", None)       # lock files / ORIG_HEAD bookkeeping are compared by C06; here: U proper
        return o


STATES = {"A": Lab.state_a, "B": Lab.state_b, "C": Lab.state_c}
# (label, state, argv)
COMMANDS = [
    ("commit", "A", ["commit", "-q", "-m", "work"]),
    ("commit --amend", "A", ["commit", "-q", "--amend", "-m", "amended"]),
    ("reset --hard", "A", ["reset", "-q", "--hard", "HEAD~1"]),
    ("stash", "A", ["stash", "push", "-q"]),
    ("checkout", "A", ["checkout", "-q", "-f", "feat"]),
    ("rebase", "B", ["rebase", "-q", "feat"]),
    ("cherry-pick", "B", ["cherry-pick", "feat~1"]),
    ("merge --squash", "B", ["merge", "--squash", "feat"]),
    ("push", "B", ["push", "-q", "--force", "origin", "main"]),
    ("fetch", "B", ["fetch", "-q", "origin"]),
    ("pull", "B", ["pull", "-q", "--rebase", "origin", "main"]),
    ("stash pop", "C", ["stash", "pop", "-q"]),
    ("reset --soft", "A", ["reset", "-q", "--soft", "HEAD~1"]),
    ("switch", "B", ["switch", "-q", "feat"]),
    ("commit -a", "A", ["commit", "-q", "-a", "-m", "all work"]),
    ("reset --mixed", "B", ["reset", "-q", "HEAD~2"]),
    ("stash apply", "C", ["stash", "apply", "-q"]),
    ("merge", "B", ["merge", "-q", "--no-edit", "feat"]),
]
QUICK = ["commit", "commit --amend", "reset --hard", "stash", "checkout", "rebase"]


def diff_obs(a, b):
    return [k for k in a if a.get(k) != b.get(k)]


def notes_ok(lab, wrote_check=True):
    """every note of refs/notes/ai parses; no line written by a person is credited to an AI session"""
    r = lab.tw.p
    problems = []
    for sha in r.notes_list():
        text = r.note_text(sha)
        if text is None:
            problems.append(("note-unreadable", {"commit": sha}))
            continue
        n = e2e.parse_note(text)
        if n["errors"] or n["meta"] is None:
            problems.append(("note-does-not-parse", {"commit": sha, "errors": n["errors"][:3], "text": text[:300]}))
            continue
        if not wrote_check:
            continue
        for path in n["files"]:
            content = r.file_at(sha, path)
            lines = content.split("\n") if content is not None else []
            for ln, h in e2e.note_line_authors(n, path).items():
                text_l = lines[ln - 1] if 0 < ln <= len(lines) else None
                if text_l is not None and text_l.startswith("hum-"):
                    problems.append(("attribution-invented", {"commit": sha, "path": path, "line": ln, "text": text_l, "hash": h}))
    return problems


class Experiment:
    """All fault runs of one command from one snapshot."""

    def __init__(self, lab, label, argv):
        self.lab, self.label, self.argv = lab, label, argv
        self.t0 = lab.t + 1000
        self.failures = []
        self.tags = []
        self.n = 0

    NEXT_FILE = "next-file.txt"

    def run_next(self, x):
        """the NEXT commands: a plain `git status`, then a commit of a new file"""
        tw = self.lab.tw
        r1 = tw.git_one(x, ["status", "--porcelain"], self.t0 + 60)
        p = os.path.join(tw.side[x]["repo"].path, self.NEXT_FILE)
        with open(p, "w") as f:
            f.write("hum-next written by a person\n")
        r2 = tw.git_one(x, ["add", self.NEXT_FILE], self.t0 + 120)
        r3 = tw.git_one(x, ["commit", "-q", "-m", "next commit"], self.t0 + 180)
        return (r1[0], r1[1]), r2[0], r3[0]

    def plain_reference(self):
        lab = self.lab
        lab.restore("plain")
        self.before = lab.observe("plain")
        self.rc, self.out, self.err = lab.tw.git_one("plain", self.argv, self.t0)
        self.after = lab.observe("plain")
        self.next_after = self.run_next("plain")
        self.after_next = lab.observe("plain")
        lab.restore("plain")
        self.next_before = self.run_next("plain")
        self.before_next = lab.observe("plain")

    def count_calls(self):
        lab = self.lab
        lab.restore("proxy")
        tr = os.path.join(lab.env.root, f"trace-{os.getpid()}-{id(self)}.jsonl")
        if os.path.exists(tr):
            os.unlink(tr)
        rc, out, err = lab.tw.git_one("proxy", self.argv, self.t0, extra_env={"GIT_AI_VERIF_TRACE": tr})
        pids = {}
        self.trace = []
        if os.path.exists(tr):
            for ln in open(tr):
                try:
                    j = json.loads(ln)
                    pids[j["pid"]] = max(pids.get(j["pid"], 0), j["n"])
                    self.trace.append(lab.tw.norm_trace(j["args"]))
                except Exception:
                    pass
            os.unlink(tr)
        self.n = max(pids.values()) if pids else 0
        # the un-faulted run itself must be transparent (C06) — otherwise the baseline is meaningless
        o = lab.observe("proxy")
        if rc != self.rc or diff_obs(o, self.after):
            self.failures.append((f"baseline-differs:{self.label}", {"argv": self.argv, "proxy_rc": rc, "plain_rc": self.rc,
                                                                     "components": diff_obs(o, self.after), "stderr": err[-800:]}))
        return self.n

    def one(self, k, kind):
        lab = self.lab
        lab.restore("proxy")
        rc, out, err = lab.tw.git_one("proxy", self.argv, self.t0, extra_env={"GIT_AI_VERIF_FAULT": f"{k}:{kind}"})
        o = lab.observe("proxy")
        d_after, d_before = diff_obs(o, self.after), diff_obs(o, self.before)
        w = {"command": self.label, "argv": self.argv, "fault": f"{k}:{kind}", "of": self.n, "rc": rc, "plain_rc": self.rc,
             "stderr_tail": err[-700:]}
        ran = not d_after
        untouched = not d_before
        cls = None
        if ran and rc == self.rc and (U.names_ai(self.argv) or out == self.out):
            cls = "git-ran-same"
        elif ran and kind == "abort" and rc == SIGABRT:
            cls = "killed-after-git"
        elif untouched and kind == "abort" and rc == SIGABRT:
            cls = "killed-before-git"
        elif untouched and rc != 0 and rc != self.rc and kind == "fail":
            cls = "refused-before-git"
            if not err.strip():
                self.failures.append((f"refusal-without-diagnostic:{self.label}", w))
            if not self.label.startswith("commit"):
                self.failures.append((f"refusal-outside-precommit:{self.label}", w))
        elif untouched and ran and rc == self.rc:
            cls = "git-ran-same"         # the command changes nothing in U (e.g. a fetch with nothing new)
        if cls is None:
            if ran and rc != self.rc:
                self.failures.append((f"fault-changed-status:{self.label}:{kind}", w))
            elif ran:
                self.failures.append((f"fault-changed-stdout:{self.label}:{kind}", dict(w, proxy_stdout=out[:400], plain_stdout=self.out[:400])))
            else:
                self.failures.append((f"fault-damaged-operation:{self.label}:{kind}", dict(w, differs_from_plain_after=d_after, differs_from_before=d_before,
                                                                                           detail={c: {"proxy": C.trunc(o[c], 500), "plain_after": C.trunc(self.after[c], 500)} for c in d_after[:3]})))
            cls = "violation"
        self.tags.append(f"outcome:{cls}")
        self.tags.append(f"{self.label}:{kind}:{cls}")
        # existing notes still parse, nothing invented
        for sig, d in notes_ok(lab):
            self.failures.append((f"{sig}:{self.label}", dict(w, **d)))
        # the NEXT commands behave like plain git
        if cls in ("git-ran-same", "killed-after-git", "refused-before-git", "killed-before-git"):
            nxt = self.run_next("proxy")
            o2 = lab.observe("proxy")
            ref_next, ref_obs = (self.next_after, self.after_next) if cls in ("git-ran-same", "killed-after-git") else (self.next_before, self.before_next)
            if (nxt[0][0], nxt[1], nxt[2]) != (ref_next[0][0], ref_next[1], ref_next[2]):
                self.failures.append((f"next-command-status-differs:{self.label}", dict(w, proxy_next=nxt, plain_next=ref_next)))
            elif diff_obs(o2, ref_obs):
                dd = diff_obs(o2, ref_obs)
                self.failures.append((f"next-command-state-differs:{self.label}", dict(w, components=dd,
                                      detail={c: {"proxy": C.trunc(o2[c], 500), "plain": C.trunc(ref_obs[c], 500)} for c in dd[:2]})))
            for sig, d in notes_ok(lab):
                self.failures.append((f"{sig}:after-next:{self.label}", dict(w, **d)))
        return cls


def run_experiment(job):
    """job = (label, state, argv, kinds, kstride, kofs): returns dict with failures/tags/n/trace"""
    label, state, argv, kinds, stride, ofs = job
    try:
        with e2e.Env() as env:
            lab = Lab(env)
            STATES[state](lab)
            lab.snapshot()
            ex = Experiment(lab, label, argv)
            ex.plain_reference()
            n = ex.count_calls()
            runs = 0
            classes = {}
            for k in range(1 + ofs, n + 1, stride):
                for kind in kinds:
                    classes[f"{k}:{kind}"] = ex.one(k, kind)
                    runs += 1
                    if len(ex.failures) > 6:
                        break
            return {"label": label, "state": state, "argv": argv, "n": n, "runs": runs, "failures": ex.failures, "tags": ex.tags,
                    "trace": ex.trace if ofs == 0 else [], "classes": classes}
    except Exception as e:
        return {"label": label, "state": state, "argv": argv, "n": 0, "runs": 0, "tags": [], "classes": {},
                "failures": [("runner-exception", {"error": repr(e), "trace": traceback.format_exc()[-1500:]})], "trace": []}


# ------------------------------------------------------------------------------------------ corruption stream

def corruptions(path, data, rng, thorough):
    """[(name, function applying the corruption to the file at `path`)]"""
    out = []

    def setbytes(b):
        return lambda: open(path, "wb").write(b)
    cuts = [i + 1 for i, c in enumerate(data) if c == 0x0A]
    if not thorough:
        cuts = cuts[:2] + cuts[-1:]
    for c in sorted(set(cuts)):
        if c < len(data):
            out.append((f"truncate-at-line-boundary", setbytes(data[:c])))
    for _ in range(3 if thorough else 2):
        if len(data) > 2:
            off = rng.randrange(1, len(data))
            out.append((f"truncate-at-byte", setbytes(data[:off])))
            b = bytearray(data)
            i = rng.randrange(len(data))
            b[i] ^= 1 << rng.randrange(8)
            out.append((f"bit-flip", setbytes(bytes(b))))
    out.append(("empty", setbytes(b"")))
    out.append(("garbage", setbytes(b"\x00\xff{{{ not json \n\n}\n")))
    out.append(("delete", lambda: os.unlink(path)))

    def to_dir():
        os.unlink(path)
        os.makedirs(path)
    out.append(("replaced-by-directory", to_dir))
    return out


def run_corruption(job):
    state, seed, thorough, part, parts = job
    fails, tags, runs = [], [], 0
    try:
        with e2e.Env() as env:
            lab = Lab(env)
            STATES[state](lab)
            lab.snapshot()
            rng = random.Random(seed)
            ai = lab.tw.p.ai_dir()
            files = []
            for root, _, fns in os.walk(ai):
                for fn in sorted(fns):
                    p = os.path.join(root, fn)
                    rel = os.path.relpath(p, ai)
                    if rel.startswith("logs/") or "/blobs/" in rel or rel.startswith("working_logs/old-"):
                        continue
                    files.append(rel)
            seq = [["status", "--porcelain"], ["commit", "-q", "-m", "after corruption"], ["checkout", "-q", "-f", "feat"], ["checkout", "-q", "main"]]
            # the plain reference for the command sequence
            lab.restore("plain")
            t0 = lab.t + 5000
            ref = []
            for i, a in enumerate(seq):
                rc, out, _ = lab.tw.git_one("plain", a, t0 + 60 * i)
                ref.append((rc, out, lab.observe("plain")))
            jobs = []
            for rel in sorted(files):
                data = open(os.path.join(ai, rel), "rb").read()
                for name, _ in corruptions(os.path.join(ai, rel), data, random.Random(seed ^ zlib.crc32(rel.encode()) & 0xffff), thorough):
                    jobs.append((rel, name))
            for idx, (rel, name) in enumerate(jobs):
                if idx % parts != part:
                    continue
                lab.restore("proxy")
                p = os.path.join(ai, rel)
                data = open(p, "rb").read()
                cs = corruptions(p, data, random.Random(seed ^ zlib.crc32(rel.encode()) & 0xffff), thorough)
                # pick the occurrence of this name for this file in order
                occ = sum(1 for (r2, n2) in jobs[:idx] if r2 == rel and n2 == name)
                fn = [f for n_, f in cs if n_ == name][occ]
                fn()
                kindf = "checkpoints" if rel.endswith("checkpoints.jsonl") else "INITIAL" if rel.endswith("INITIAL") else \
                    "rewrite_log" if rel == "rewrite_log" else "lock" if rel.endswith(".lock") else "other"
                tags.append(f"corrupt:{kindf}:{name}")
                runs += 1
                for i, a in enumerate(seq):
                    rc, out, err = lab.tw.git_one("proxy", a, t0 + 60 * i)
                    o = lab.observe("proxy")
                    w = {"state": state, "file": rel, "corruption": name, "command": a, "rc": rc, "plain_rc": ref[i][0], "stderr_tail": err[-600:]}
                    lab_ = a[0]
                    if rc != ref[i][0]:
                        fails.append((f"corruption-changes-status:{lab_}:{kindf}:{name}", w))
                        break
                    if diff_obs(o, ref[i][2]):
                        dd = diff_obs(o, ref[i][2])
                        fails.append((f"corruption-changes-repository:{lab_}:{kindf}:{name}", dict(w, components=dd)))
                        break
                    if out != ref[i][1]:
                        fails.append((f"corruption-changes-stdout:{lab_}:{kindf}:{name}", dict(w, proxy_stdout=out[:300], plain_stdout=ref[i][1][:300])))
                        break
                for sig, d in notes_ok(lab):
                    fails.append((f"{sig}:after-corruption:{kindf}", dict(w, **d)))
                if len(fails) > 6:
                    break
    except Exception as e:
        fails.append(("runner-exception", {"error": repr(e), "trace": traceback.format_exc()[-1500:]}))
    return {"state": state, "runs": runs, "failures": fails, "tags": tags}


# ------------------------------------------------------------------------------------------ corpus

def case_o12():
    """DESIGN O12: INITIAL present + checkpoints.jsonl torn in the middle of its last line: every later commit must still work"""
    with e2e.Env() as env:
        lab = Lab(env)
        lab.state_a()
        cp = os.path.join(lab.tw.p.ai_dir(), "working_logs", lab.tw.p.head(), "checkpoints.jsonl")
        data = open(cp, "rb").read()
        ini = lab.tw.p.initial()
        open(cp, "wb").write(data[:max(1, len(data) - len(data) // 3)])
        out = []
        for i in range(2):
            lab.human("g.txt")
            (prc, _, perr), (grc, _, _) = lab.both("commit", "-q", "-am", f"after torn write {i}", check=False)
            if prc != grc:
                out.append(("corruption-changes-status:commit:checkpoints:torn-last-line", {"case": "o12", "round": i, "proxy_rc": prc, "plain_rc": grc, "initial_present": ini is not None,
                                                                             "stderr_tail": perr[-400:]}))
        d = lab.tw.compare_u()
        if d:
            out.append(("corruption-changes-repository:commit:checkpoints:torn-last-line", {"case": "o12", "components": [x[1]["component"] for x in d]}))
        return out


def case_clone_stdout_full():
    """a clone whose stdout cannot be written (the post-clone status line panics): the exit status must stay git's"""
    with e2e.Env() as env:
        lab = Lab(env)
        lab.state_a()
        out = []
        rcs = {}
        for x in ("proxy", "plain"):
            rcs[x] = lab.tw.git_one(x, ["clone", "-q", "<REMOTE>", "<TW>/cl-full"], lab.tick(), cwd="<TW>", stdout_path="/dev/full")
        if rcs["proxy"][0] != rcs["plain"][0]:
            out.append(("fault-changed-status:clone:stdout-full", {"proxy_rc": rcs["proxy"][0], "plain_rc": rcs["plain"][0], "stderr_tail": rcs["proxy"][2][-400:]}))
        return out


def case_blocked(what):
    """/repo 767cab50: a node of HEAD's working log (or of .git/ai itself) that cannot be read / written at all, with AI work staged and an
    INITIAL file: two later commits (and a `git status`) must behave like plain git"""
    def run_case():
        with e2e.Env() as env:
            lab = Lab(env)
            lab.state_a()
            ai = lab.tw.p.ai_dir()
            wl = os.path.join(ai, "working_logs", lab.tw.p.head())
            cp = os.path.join(wl, "checkpoints.jsonl")
            if what == "checkpoints-directory":
                os.unlink(cp)
                os.makedirs(cp)
            elif what == "checkpoints-dangling-link":
                os.unlink(cp)
                os.symlink(NODES.DANGLING, cp)
            elif what == "blobs-file":
                shutil.rmtree(os.path.join(wl, "blobs"))
                open(os.path.join(wl, "blobs"), "w").write("not a directory\n")
            elif what == "logs-dangling-link":
                shutil.rmtree(os.path.join(ai, "logs"))
                os.symlink(NODES.DANGLING, os.path.join(ai, "logs"))
            else:
                raise ValueError(what)
            out = []
            (prc, _, perr), (grc, _, _) = lab.both("status", "--porcelain", check=False)
            if prc != grc:
                out.append((f"corruption-changes-status:status:{what}", {"case": what, "proxy_rc": prc, "plain_rc": grc, "stderr_tail": perr[-400:]}))
            for i in range(2):
                lab.human("g.txt")
                (prc, _, perr), (grc, _, _) = lab.both("commit", "-q", "-am", f"after blocked node {i}", check=False)
                if prc != grc:
                    out.append((f"corruption-changes-status:commit:{what}", {"case": what, "round": i, "proxy_rc": prc, "plain_rc": grc, "stderr_tail": perr[-400:]}))
            d = lab.tw.compare_u()
            if d:
                out.append((f"corruption-changes-repository:commit:{what}", {"case": what, "components": [x[1]["component"] for x in d]}))
            for sig, dd in notes_ok(lab):
                out.append((f"{sig}:after-corruption:{what}", dd))
            return out
    return run_case


def case_snapshot(job):
    """a fixed scenario of the snapshot stream (vlib/props/c07_snapshots.py): (mode, damage, person's edit, target, seed)"""
    def run_case():
        return SNAP.scenario(job)["failures"]
    return run_case


CASES = {"o12-torn-checkpoints-with-initial": case_o12, "clone-stdout-full": case_clone_stdout_full,
         # seeded/C07-seed1: the entry's snapshot deleted / made non-UTF-8, a person retypes the agent's lines in place
         "lost-entry-snapshot-retyped": case_snapshot(("ckpt", "delete", "retype", "all", 7001)),
         "nonutf8-entry-snapshot-inserted-above": case_snapshot(("ckpt2", "byte-ff", "insert-above", "latest", 7002)),
         # /repo 225ad875: INITIAL's recorded snapshot deleted, a person retypes the pending lines
         "lost-initial-snapshot-retyped": case_snapshot(("initial", "delete", "retype", "all", 7003)),
         # /repo d58396a6: a directory at the path of the blob the checkpoint is about to write
         "blob-slot-is-a-directory": case_snapshot(("ckpt", "directory", "keep", "all", 7004)),
         # /repo 767cab50: private state that cannot be read or written at all
         "checkpoints-replaced-by-directory": case_blocked("checkpoints-directory"),
         "checkpoints-dangling-link": case_blocked("checkpoints-dangling-link"),
         "blobs-replaced-by-file": case_blocked("blobs-file"),
         "ai-logs-dangling-link": case_blocked("logs-dangling-link")}


def phase_corpus(res):
    names = []
    if os.path.exists(CORPUS):
        for ln in open(CORPUS):
            if ln.strip():
                names.append(json.loads(ln))
    for j in names:
        fn = CASES.get(j["name"])
        if not fn:
            res.broken_tie("corpus", f"unknown corpus case {j['name']}")
            continue
        try:
            fl = fn()
        except Exception as e:
            fl = [("runner-exception", {"error": repr(e), "trace": traceback.format_exc()[-1200:]})]
        res.count_case("corpus:" + j["name"])
        res.tag(["corpus:" + j["name"]])
        for sig, d in fl:
            res.oracle_failure(sig, {"source": "corpus:" + j["name"], "detail": d, "what": j.get("what")},
                               what=f"corpus case {j['name']}: {sig}")
    res.extra.setdefault("e2e", {})["corpus_cases"] = len(names)


# ------------------------------------------------------------------------------------------ journal readers: model vs real decoder

def phase_journal_model(res, seed, count):
    """Lean `deserializeEvents` / strict reader vs an independent implementation with a real JSON parser per line."""
    rng = random.Random(seed * 31 + 7)
    reqs, want = [], []
    good = ['{"commit":{"base_commit":"a","commit_sha":"b"}}', '{"x":1}', '{"nested":{"k":[1,2,3]}}', '{}']
    for _ in range(count):
        lines = []
        for _ in range(rng.randrange(0, 7)):
            k = rng.randrange(8)
            if k < 4:
                lines.append(rng.choice(good))
            elif k == 4:
                lines.append(rng.choice(["", "   ", "\t"]))
            elif k == 5:
                g = rng.choice(good)
                lines.append(g[:rng.randrange(1, len(g))])
            elif k == 6:
                lines.append(rng.choice(["not json", "{bad", "}{", "\x00\x01", "[1,2", "nul"]))
            else:
                lines.append(rng.choice(good) + "\r")
        text = "\n".join(lines) + rng.choice(["", "\n", "\r\n"])
        # Rust str::lines + trim().is_empty()
        pieces = text.split("\n")
        rl = []
        for i, p in enumerate(pieces):
            last = i == len(pieces) - 1
            if last:
                if p != "":
                    rl.append(p)
            else:
                rl.append(p[:-1] if p.endswith("\r") else p)
        data = [l for l in rl if l.strip() != ""]

        def ok(l):
            try:
                return isinstance(json.loads(l), dict)
            except Exception:
                return False
        verdicts = [ok(l) for l in data]
        mx = rng.choice([200, 2, 1])
        reqs.append({"op": "wrap_journal", "text": text, "max": mx, "ok": verdicts})
        tol = [l for l, v in zip(data, verdicts) if v][:mx]
        strict = None if not all(verdicts) else list(data)
        want.append((len(data), tol, strict))
    bad = []
    for rq, rp, (n, tol, strict) in zip(reqs, C.run_driver(reqs), want):
        res.count_case("journal:" + rq["text"] + str(rq["max"]))
        if rp.get("lines") != n or rp.get("tolerant") != tol or rp.get("strict") != strict:
            # duplicate lines with different verdicts cannot occur (same text ⇒ same verdict), so any mismatch is real
            bad.append({"req": rq, "model": rp, "expected": {"lines": n, "tolerant": tol, "strict": strict}})
    res.tag(["journal-model-case"] * len(reqs))
    res.obligation(f"correspondence: journal reader model vs line splitting + real JSON decoder ({len(reqs)} texts)", not bad, "correspondence")
    if bad:
        res.broken_tie("correspondence:journal-model", {"first": bad[:3], "count": len(bad)})


# ------------------------------------------------------------------------------------------ main

def extract_journal_store(res):
    """regenerate Extracted/JournalStore.lean (handling of storage failures on the pre-commit path); returns the extractor's dict or None"""
    try:
        r = U.load_module("extract_journal_store", "extract/journal_store.py").main()
    except Exception as e:
        res.obligation("extract:journal_store", False, "extraction")
        res.broken_tie("extract:journal_store", f"{type(e).__name__}: {e}"[:2000])
        return None
    res.obligation("extract:journal_store", True, "extraction")
    res.extra["journal_store"] = r
    return r


def phase_nodes(res, tier, seed, label="node stream"):
    t0 = time.time()
    jobs = NODES.jobs_for(tier, seed)
    with concurrent.futures.ThreadPoolExecutor(16) as ex:
        outs = list(ex.map(NODES.run_part, jobs))
    nfail = collect(res, outs, label)
    runs = sum(o["runs"] for o in outs)
    for i in range(runs):
        res.count_case(f"node:{i}:{seed}:{label}")
    kinds = sorted({t for o in outs for t in o["tags"] if t.startswith("node:")})
    res.extra.setdefault("e2e", {})[label.replace(" ", "_")] = {"runs": runs, "distinct_node_damage_pairs": len(kinds), "wall_s": round(time.time() - t0, 1),
                                                               "sequences": sorted({t for o in outs for t in o["tags"] if t.startswith("seq:")})}
    return nfail, runs, kinds


def collect(res, outs, what):
    nfail = 0
    for o in outs:
        res.tag(o["tags"])
        seen = set()
        for sig, d in o["failures"]:
            if sig in seen:
                continue
            seen.add(sig)
            if res.oracle_failure(sig, {"source": what, "scenario_state": o.get("state"), "command": o.get("label"), "argv": o.get("argv"), "detail": d,
                                        "replay": "rebuild state (vlib/props/c07.py STATES), then run argv with GIT_AI_VERIF_FAULT=<fault> from that state"},
                                  what=f"{what}: {sig}"):
                nfail += 1
    return nfail


def run(tier, seed):
    res = C.Result(PROP, tier, seed)
    res.level = "proof"
    res.rule = ("fault enumeration: for each wrapped command (quick: commit with staged AI work + pending INITIAL, commit --amend, reset --hard, stash, "
                "checkout -f, rebase; thorough: 18 commands incl. cherry-pick, merge --squash, push/fetch/pull to a local bare remote, stash pop/apply, "
                "switch, reset --soft/--mixed, merge) every k in 1..n (n = internal git calls of that command, from GIT_AI_VERIF_TRACE) × {k:fail, k:abort} "
                "re-run from an identical snapshot and compared with the plain-git twin: outcome class (git ran: same status/stdout/U; refused before git: "
                "non-zero status, diagnostic, U untouched, commit only; killed before/after git), every note parses, no person-written line credited to an "
                "AI session, the NEXT `git status` + `git add` + `git commit` equal plain git's; corruption stream: every file under .git/ai × {truncation at "
                "line boundaries and random bytes, bit flips, empty, garbage, deleted, replaced by a directory} then status / commit / checkout must equal "
                "plain git; node stream: every file and directory under .git/ai (the directory itself included) × {deleted, truncated at line boundaries / a random byte, "
                "bit flip, emptied, garbage, replaced by a directory (files) / a file (directories), replaced by a dangling symbolic link, mode 000, immutable (chattr +i)} × "
                "{commit; commit --amend; agent + human checkpoint then commit -a; stash push, pop, commit -a; rebase then commit -a} (quick: HEAD's working-log nodes × the "
                "damages that block reading / writing × every sequence, one rotating sequence for the rest) — each step's status and stdout and the final repository "
                "state equal plain git's (git-ai's own checkpoint commands may fail but must leave U alone), notes parse, every line a note or git-ai blame credits "
                "to a session carries a text that session wrote; snapshot stream: {1 agent checkpoint, 2 sessions, pending INITIAL, agent checkpoint over INITIAL} × blobs {intact, deleted, emptied, "
                "truncated at a line boundary / mid-line, one byte → 0xFF, one bit flipped, replaced by a directory, blobs/ removed, checkpoints.jsonl + INITIAL "
                "pointing to a non-existent sha} × a person {retypes the agent's lines in place, inserts above, both, moves to the end, rewrites all, nothing} then "
                "commit: status as plain git, notes parse, every line the note / git-ai blame credit to a session has a content that session reported, and the "
                "note equals Model/Snapshot.lean's with the fallbacks extracted from the source; non-trivial = every run; distinct = distinct (command, fault) / "
                "(file, corruption) / snapshot scenario")
    res.trusted = ["real git 2.39 (F2 of GitKernel is an assumption)", "extract/wrapper_tables.py", "extract/snapshot_reads.py", "extract/journal_store.py", "vlib/props/c06_util.py observation of U",
                   "the fault hook of repository.rs (GIT_AI_VERIF_FAULT) injects at exec_git* only", "Lean 4.33 kernel"]
    res.assumptions = [
        "PARTIAL (DESIGN §10): fault points are git-ai's internal steps — end to end only the internal git subprocess calls (k:fail makes the call return an error "
        "without running git, k:abort kills the wrapper there); a single fs::write is assumed atomic; faults inside the real git are out of scope",
        "F2 (an invocation with confined footprint and no runnable user hook leaves U unchanged) is a hypothesis of `GitKernel`, validated by the twin runs, not proved",
        "`panic` faults are covered by the model and the extracted catch_unwind skeleton only (the fault hook can make a call fail or abort the process, not panic); "
        "one real panic path (post-clone status line on a full stdout) was found by reading, fixed (5b890727) and is replayed from the corpus",
        "node stream: as root `mode 000` blocks nothing (tagged noop-as-root); `immutable` (chattr +i, needs file-system support, tagged when unsupported) is "
        "what makes a node readable but unwritable there; FIFOs / device nodes / a full disk are not generated. Model/JournalStore.lean has ONE node per path and "
        "three storage operations of the pre-commit checkpoint (read checkpoints, store snapshots, append); `working_log_for_base_commit`'s "
        "`create_dir_all(..).unwrap()` panics inside catch_unwind when working_logs/<HEAD> cannot be created — git runs (dichotomy branch (a)), covered by the stream only",
        "snapshots (§6): one file, line-granular (content ids; the checkpoint's diff is Sys.checkpointAttr — tracker behaviour at line level is C16's); `Damaged` = a blob "
        "reads as written / truncated at a line boundary / not at all — a blob altered but still readable (mid-line truncation, a bit flip that stays UTF-8, forged content) "
        "is outside the theorem and covered by the oracles only; the theorem is about the commit path (human checkpoint + note). With the agent protocol (a human checkpoint before the agent edits, as in C03's `aiEdit`) "
        "a loss is absorbed by that human checkpoint exactly as by the pre-commit one (same function); an AGENT checkpoint that comes WITHOUT it after a loss diffs against the "
        "empty content and credits every line of the file that is not in HEAD to that agent (observed on the binary: lines a person had typed and checkpointed go to the agent) "
        "— outside the protocol C03 quantifies over, not modelled, not searched",
        "a wrapper killed after git finished necessarily reports the signal's status; the theorem and the oracle classify this case separately (killed-after-git)",
    ]
    inv = U.phase_extract(res)
    snap_params = SNAP.extract(res)
    store_params = extract_journal_store(res)
    C.phase_proofs(res, PROP, [t for t in THEOREMS if t.startswith("GitAi.C07.")])
    # the two C06 table theorems the dichotomy's hypotheses rest on
    ok6, per6, _ = C.audit_theorems("GitAiModel/Props/C06.lean", [t for t in THEOREMS if t.startswith("GitAi.C06.")])
    for t in [t for t in THEOREMS if t.startswith("GitAi.C06.")]:
        good = isinstance(per6[t], list) and set(per6[t]) <= C.ALLOWED_AXIOMS
        res.obligation(t, good)
        if not good:
            res.broken_tie(f"theorem {t}", f"axioms/elaboration: {per6[t]}")
    ok, out = C.build_git_ai()
    res.obligation("build git-ai from the working tree (test-support, verif-hooks)", ok, "build")
    if not ok:
        res.broken_tie("build", out[-3000:])
        return res.finish()
    phase_journal_model(res, seed, 300 if tier == "quick" else 3000)
    phase_corpus(res)

    by_label = {c[0]: c for c in COMMANDS}
    if tier == "quick":
        cmds = [by_label[l] for l in QUICK]
        parts = 3
    else:
        cmds = COMMANDS
        parts = 2
    jobs = []
    for (label, state, argv) in cmds:
        for ofs in range(parts):
            jobs.append((label, state, argv, ("fail", "abort"), parts, ofs))
    t0 = time.time()
    with concurrent.futures.ThreadPoolExecutor(16) as ex:
        outs = list(ex.map(run_experiment, jobs))
    nfail = collect(res, outs, "fault enumeration")
    ns, runs = {}, 0
    traces = []
    for o in outs:
        ns[o["label"]] = max(ns.get(o["label"], 0), o["n"])
        runs += o["runs"]
        traces += o["trace"]
        for k in range(o["runs"]):
            res.count_case(f"{o['label']}:{o['argv']}:{k}:{jobs[outs.index(o)][5]}")
    res.extra.setdefault("e2e", {})["fault_enumeration"] = {"commands": len(cmds), "internal_calls_per_command": ns, "fault_runs": runs,
                                                            "wall_s": round(time.time() - t0, 1)}
    res.obligation(f"fault enumeration: dichotomy, notes readable, next commands, no invented attribution on {runs} fault runs of {len(cmds)} commands", nfail == 0, "oracle")
    # correspondence with the model's phase structure (prologue → pre hooks → git → post hooks): a kill at call k is before
    # git exactly for the k up to some boundary (commands with a background notes-sync thread interleave, they are skipped)
    nonmono = []
    for (label, state, argv) in cmds:
        if label in ("push", "fetch", "pull"):
            continue
        cl = {}
        for o in outs:
            if o["label"] == label:
                cl.update(o["classes"])
        seq = [cl.get(f"{k}:abort") for k in range(1, ns.get(label, 0) + 1)]
        seq = [c for c in seq if c in ("killed-before-git", "killed-after-git")]
        if "killed-after-git" in seq and "killed-before-git" in seq[seq.index("killed-after-git"):]:
            nonmono.append({"command": label, "abort_outcomes_by_k": seq})
    res.obligation("correspondence: kill outcomes follow the model's phase order (before-git for k ≤ b, after-git for k > b)", not nonmono, "correspondence")
    if nonmono:
        res.broken_tie("correspondence:phase-order", nonmono[:3])
    for l, n in ns.items():
        if n < 3:
            res.broken_tie("fault-enumeration:vacuous", f"command {l}: only {n} internal git calls traced")

    # corruption stream
    t0 = time.time()
    cparts = 8 if tier == "quick" else 16
    cjobs = [(st, seed * 977 + i, tier != "quick", part, cparts) for i, st in enumerate(["A"] if tier == "quick" else ["A", "B", "C"]) for part in range(cparts)]
    with concurrent.futures.ThreadPoolExecutor(16) as ex:
        couts = list(ex.map(run_corruption, cjobs))
    cfail = collect(res, couts, "corruption stream")
    cruns = sum(o["runs"] for o in couts)
    for i in range(cruns):
        res.count_case(f"corruption:{i}:{seed}")
    res.extra["e2e"]["corruption_stream"] = {"corruptions": cruns, "wall_s": round(time.time() - t0, 1)}
    res.obligation(f"corruption stream: status/commit/checkout equal plain git after {cruns} corruptions of files under .git/ai", cfail == 0, "oracle")
    if cruns < 20:
        res.broken_tie("corruption-stream:vacuous", f"only {cruns} corruptions executed")
    U.validate_trace(res, inv, traces, "trace")

    # node stream: every file and directory under .git/ai, damages that make it unreadable / unwritable included
    nfail_n, nruns, nkinds = phase_nodes(res, tier, seed)
    res.obligation(f"node stream: status, stdout, repository state equal plain git and the content oracle holds after {nruns} damages of files and "
                   f"directories under .git/ai ({len(nkinds)} distinct node kind × damage pairs)", nfail_n == 0, "oracle")
    if nruns < 50 or not any(":immutable" in k or ":replaced-by-directory" in k for k in nkinds) or not any(":dangling-symlink" in k for k in nkinds):
        res.broken_tie("node-stream:vacuous", f"only {nruns} runs / blocking damages missing: {nkinds[:10]}")
    if store_params is not None and (store_params["read"], store_params["snapshot"], store_params["append"]) != ("tolerate",) * 3 and not nfail_n:
        # the source refuses on a storage failure (later_commands_work_nodes no longer checks) and this seed's plan missed it: more seeds
        for extra_seed in (seed + 101, seed + 202):
            f2, _, _ = phase_nodes(res, tier, extra_seed, label="node stream (search after a broken tie)")
            if f2:
                break
        res.extra["search_nodes"] = ("the pre-commit path refuses on a storage failure; the node stream was re-run with two more seeds: "
                                     + ("a failing input was found" if res.violations else "no failing input found"))

    # snapshot stream: damaged / missing checkpoint snapshots never invent attribution
    snap_fail, snap_bad = SNAP.phase(res, tier, seed, snap_params)

    if res.broken and not res.violations and tier == "quick" and any("snapshot" in str(b.get("obligation")) or "lost_snapshot" in str(b.get("obligation"))
                                                                    or "lake build" in str(b.get("obligation")) for b in res.broken):
        # the snapshot model / its extracted parameters no longer hold: search the snapshot scenarios with other seeds
        for extra_seed in (seed + 101, seed + 202):
            f2, _ = SNAP.phase(res, "quick", extra_seed, snap_params)
            if f2:
                break
        res.extra["search"] = ("a tie broke; the snapshot stream was re-run with two more seeds: "
                               + ("a failing input was found" if res.violations else "no failing input found"))
    if res.broken and not res.violations:
        # a tie broke and no oracle failed yet: widen the search (all commands, every k)
        more = [c for c in COMMANDS if c[0] not in QUICK] if tier == "quick" else []
        jobs2 = [(l, s, a, ("fail", "abort"), 2, o) for (l, s, a) in more[:8] for o in range(2)]
        if jobs2:
            with concurrent.futures.ThreadPoolExecutor(16) as ex:
                outs2 = list(ex.map(run_experiment, jobs2))
            n2 = collect(res, outs2, "fault enumeration (search after a broken tie)")
            res.extra["search"] = (f"a tie broke; {sum(o['runs'] for o in outs2)} additional fault runs over {len(more[:8])} more commands: "
                                   + ("a failing input was found" if n2 else "no failing input found"))
    return res.finish()
