"""C07 node stream — git-ai's private directory as FILE-SYSTEM NODES (Model/JournalStore.lean).

Every file AND every directory under `.git/ai` (the directory itself included) × damages
  file: deleted · truncated at line boundaries (quick: first / middle / last; thorough: every one) · bit flips · emptied · garbage ·
        replaced by a directory · replaced by a dangling symbolic link · mode 000 · immutable (chattr +i: readable, cannot be written)
  dir:  deleted · replaced by a file · replaced by a dangling symbolic link · mode 000 · immutable
× command sequences (commit · commit --amend · agent + human checkpoint then commit · stash push / pop / commit · rebase), each run from an
identical snapshot in the proxy twin and compared step by step with the plain-git twin: exit status, stdout, repository state `U`.
git-ai's OWN commands (`git-ai checkpoint …`) may fail — they are not git operations — but must leave `U` alone. Afterwards every note
parses and the content oracle of C03 holds on notes and `git-ai blame`: a line credited to a session carries a text that session wrote.

As root `mode 000` blocks nothing (tagged `…:noop-as-root`); `immutable` is what makes a node unwritable there. It needs a file system with
chattr support; the flag is cleared before a twin directory is restored or removed."""
import os, random, shutil, stat, subprocess, traceback, zlib

from vlib import common as C, e2e

SESSIONS = ("s1", "s2", "s3")
HASH2S = {e2e.short_hash(s, "mock_agent"): s for s in SESSIONS}

# name → (state, steps). A step: ("git", argv) · ("edit", rel, line) a person appends a line · ("agent", session, rel) an agent appends two
# lines between a human and an agent checkpoint (proxy twin: the git-ai commands; plain twin: the file change only)
SEQS = {
    "commit": ("A", [("git", ["commit", "-q", "-m", "after damage"]), ("git", ["status", "--porcelain"])]),
    "amend": ("A", [("git", ["commit", "-q", "--amend", "-m", "amended after damage"])]),
    # the person's line in f1.txt (a file with AI lines in the working log) makes the pre-commit checkpoint APPEND an entry
    "checkpoint": ("A", [("agent", "s3", "f2.txt"), ("edit", "g.txt", "hum-after-damage typed by a person"),
                         ("edit", "f1.txt", "hum-after-damage in an AI file typed by a person"),
                         ("git", ["commit", "-q", "-a", "-m", "after checkpoints"])]),
    "stash": ("A", [("git", ["stash", "push", "-q"]), ("git", ["stash", "pop", "-q"]), ("git", ["commit", "-q", "-a", "-m", "after stash"])]),
    "rebase": ("B", [("git", ["rebase", "-q", "feat"]), ("edit", "g.txt", "hum-after-rebase typed by a person"),
                     ("git", ["commit", "-q", "-a", "-m", "after rebase"])]),
}
QUICK_SEQS = ["commit", "amend", "checkpoint", "stash", "rebase"]
DANGLING = "/nonexistent-verif-dir/nowhere"
# damages after which the node cannot be read and / or written at all
BLOCKING = ("delete", "replaced-by-directory", "replaced-by-file", "dangling-symlink", "mode-000", "immutable")


def chattr(flag, path):
    return subprocess.run(["chattr", flag, path], stdout=subprocess.DEVNULL, stderr=subprocess.DEVNULL).returncode == 0


def chattr_works(root):
    p = os.path.join(root, "chattr-probe")
    open(p, "w").close()
    ok = chattr("+i", p)
    if ok:
        chattr("-i", p)
    os.unlink(p)
    return ok


def kind_of(rel):
    b = os.path.basename(rel)
    if rel == ".":
        return "ai-dir"
    if rel.startswith("working_logs/old-"):
        return "old-working-log"
    if b == "checkpoints.jsonl":
        return "checkpoints"
    if b == "INITIAL":
        return "INITIAL"
    if rel == "rewrite_log":
        return "rewrite_log"
    if b.endswith(".lock"):
        return "lock"
    if "/blobs/" in rel:
        return "blob"
    if b == "blobs":
        return "blobs-dir"
    if rel == "working_logs":
        return "working_logs-dir"
    if rel.startswith("working_logs/") and rel.count("/") == 1:
        return "working-log-dir"
    if rel == "logs" or rel.startswith("logs/"):
        return "logs"
    return "other"


def damages(is_dir, data, rng, thorough):
    """[(name, fn(path) -> undo-or-None)]"""
    out = []

    def setbytes(b):
        def f(p):
            with open(p, "wb") as fh:
                fh.write(b)
        return f

    def rm(p):
        if os.path.isdir(p) and not os.path.islink(p):
            shutil.rmtree(p)
        else:
            os.unlink(p)

    def to_dir(p):
        rm(p)
        os.makedirs(p)

    def to_file(p):
        rm(p)
        with open(p, "w") as fh:
            fh.write("not a directory\n")

    def to_link(p):
        rm(p)
        os.symlink(DANGLING, p)

    def mode0(p):
        os.chmod(p, 0)

    def immutable(p):
        if chattr("+i", p):
            return lambda: chattr("-i", p)
        return None

    if not is_dir:
        cuts = [i + 1 for i, c in enumerate(data) if c == 0x0A and i + 1 < len(data)]
        if not thorough and len(cuts) > 3:
            cuts = [cuts[0], cuts[len(cuts) // 2], cuts[-1]]
        for c in cuts:
            out.append(("truncate-at-line-boundary", setbytes(data[:c])))
        for _ in range(3 if thorough else 1):
            if len(data) > 2:
                b = bytearray(data)
                b[rng.randrange(len(data))] ^= 1 << rng.randrange(8)
                out.append(("bit-flip", setbytes(bytes(b))))
                out.append(("truncate-at-byte", setbytes(data[:rng.randrange(1, len(data))])))
        out.append(("empty", setbytes(b"")))
        out.append(("garbage", setbytes(b"\x00\xff{{{ not json \n\n}\n")))
        out.append(("delete", rm))
        out.append(("replaced-by-directory", to_dir))
    else:
        out.append(("delete", rm))
        out.append(("replaced-by-file", to_file))
    out.append(("dangling-symlink", to_link))
    out.append(("mode-000", mode0))
    out.append(("immutable", immutable))
    return out


def nodes_of(ai, thorough):
    """relative paths of the nodes under the ai dir ('.' = the directory itself), files and directories"""
    out = ["."]
    for root, dirs, fns in os.walk(ai):
        dirs.sort()
        for n in sorted(dirs) + sorted(fns):
            rel = os.path.relpath(os.path.join(root, n), ai)
            k = kind_of(rel)
            if k == "old-working-log" and rel.count("/") > 1:
                continue                      # debug-mode leftovers: the directory itself only
            if k == "logs" and rel != "logs" and not thorough:
                continue
            out.append(rel)
    return out


def content_oracle(lab, M):
    """notes parse; every line a note or git-ai blame credits to a session has a text that session wrote"""
    r = lab.tw.p
    out = list(M.notes_ok(lab))
    for sha in r.notes_list():
        t = r.note_text(sha)
        n = e2e.parse_note(t) if t is not None else None
        if not n or n["errors"] or n["meta"] is None:
            continue
        for path in n["files"]:
            content = r.file_at(sha, path)
            lines = content.split("\n") if content is not None else []
            for ln, h in e2e.note_line_authors(n, path).items():
                s = HASH2S.get(h)
                text = lines[ln - 1] if 0 < ln <= len(lines) else None
                if s is not None and text is not None and text.strip() and not text.startswith(f"ai-{s}-"):
                    out.append(("attribution-invented:note", {"commit": sha, "path": path, "line": ln, "text": text, "session": s}))
    rc, st, _ = r.plain_git("status", "--porcelain")
    dirty = {ln[3:] for ln in st.split("\n") if ln}
    for path in ("f1.txt", "f2.txt", "g.txt"):
        if path in dirty or not os.path.isfile(os.path.join(r.path, path)):
            continue
        try:
            bj = r.blame(path)
        except Exception:
            bj = None
        if bj is None:
            continue
        lines = open(os.path.join(r.path, path), encoding="utf-8", errors="replace").read().split("\n")
        for ln, h in e2e.blame_line_hashes(bj).items():
            s = HASH2S.get(h) if isinstance(h, str) else None
            text = lines[ln - 1] if 0 < ln <= len(lines) else None
            if s is not None and text is not None and text.strip() and not text.startswith(f"ai-{s}-"):
                out.append(("attribution-invented:blame", {"path": path, "line": ln, "text": text, "session": s}))
    return out


class Runner:
    def __init__(self, lab, M):
        self.lab, self.M = lab, M
        self.undo = []
        self.mode0 = []

    def clear_flags(self):
        if self.undo:
            # git-ai may have MOVED the flagged node (post-commit renames the working log to old-<sha>): clear the whole twin
            subprocess.run(
                ["chattr", "-R", "-i", self.lab.tw.side["proxy"]["tw"]], stdout=subprocess.DEVNULL, stderr=subprocess.DEVNULL)
        self.undo = []
        # chmod back so that rmtree / copytree work (root does not need it, other users do)
        for p in self.mode0:
            try:
                if os.path.lexists(p) and not os.path.islink(p):
                    os.chmod(p, 0o755 if os.path.isdir(p) else 0o644)
            except OSError:
                pass
        self.mode0 = []

    def step(self, x, st, t):
        """→ (rc, stdout) — rc None for steps whose status is git-ai's own business"""
        tw = self.lab.tw
        repo = tw.side[x]["repo"]
        if st[0] == "git":
            rc, out, err = tw.git_one(x, st[1], t)
            return rc, out, err
        if st[0] == "edit":
            with open(os.path.join(repo.path, st[1]), "a") as f:
                f.write(st[2] + "\n")
            return None, "", ""
        if st[0] == "agent":
            _, session, rel = st
            err = ""
            if x == "proxy":
                r1 = repo.human_checkpoint([rel])
                err += r1[2][-300:]
            with open(os.path.join(repo.path, rel), "a") as f:
                f.write(f"ai-{session}-90-0 generated();\nai-{session}-90-1 generated();\n")
            if x == "proxy":
                r2 = repo.ai_checkpoint(session, [rel])
                err += r2[2][-300:]
            return None, "", err
        raise ValueError(st)

    def reference(self, steps, t0):
        lab = self.lab
        lab.restore("plain")
        ref = []
        for i, st in enumerate(steps):
            rc, out, _ = self.step("plain", st, t0 + 60 * i)
            ref.append((rc, out, lab.observe("plain")))
        return ref


def run_part(job):
    """job = (state, seed, thorough, part, parts, seq names)"""
    from vlib.props import c07 as M
    state, seed, thorough, part, parts, seqs = job
    fails, tags, runs = [], [], 0
    rn = None
    try:
        with e2e.Env() as env:
            lab = M.Lab(env)
            M.STATES[state](lab)
            lab.snapshot()
            rn = Runner(lab, M)
            try:
                can_chattr = chattr_works(env.root)
                ai = lab.tw.p.ai_dir()
                t0 = lab.t + 9000
                refs = {name: rn.reference(SEQS[name][1], t0) for name in seqs}
                lab.restore("proxy")
                plan = []
                for rel in nodes_of(ai, thorough):
                    p = ai if rel == "." else os.path.join(ai, rel)
                    is_dir = os.path.isdir(p)
                    data = b"" if is_dir else open(p, "rb").read()
                    names = [n for n, _ in damages(is_dir, data, random.Random(f"{seed}:{rel}"), thorough)]
                    for j, n in enumerate(names):
                        for name in seqs:
                            plan.append((rel, is_dir, j, n, name))
                if not thorough:
                    # quick: the nodes of HEAD's working log × the damages that block reading / writing × every sequence; one sequence
                    # (rotating with the seed) for everything else
                    slim = []
                    for i, (rel, is_dir, j, n, name) in enumerate(plan):
                        k = kind_of(rel)
                        core = k in ("checkpoints", "INITIAL", "blobs-dir", "working-log-dir") and n in BLOCKING and n not in ("delete", "mode-000")
                        if k == "old-working-log" and n in ("replaced-by-file", "mode-000"):
                            continue
                        if state != "A" and k in ("blob", "lock", "old-working-log"):
                            continue
                        if k in ("blob", "lock") and n not in BLOCKING:
                            continue          # blob CONTENTS are the snapshot stream's; a lock file's content is never read
                        if core or seqs[(zlib.crc32(f"{rel}|{n}".encode()) + seed) % len(seqs)] == name:
                            slim.append((rel, is_dir, j, n, name))
                    plan = slim
                for idx, (rel, is_dir, j, dname, name) in enumerate(plan):
                    if idx % parts != part:
                        continue
                    if dname == "immutable" and not can_chattr:
                        tags.append("node:immutable:unsupported-here")
                        continue
                    rn.clear_flags()
                    lab.restore("proxy")
                    p = ai if rel == "." else os.path.join(ai, rel)
                    if not os.path.lexists(p):
                        continue
                    data = b"" if is_dir else open(p, "rb").read()
                    dfn = damages(is_dir, data, random.Random(f"{seed}:{rel}"), thorough)[j][1]
                    u = dfn(p)
                    if callable(u):
                        rn.undo.append(u)
                    if dname == "mode-000":
                        rn.mode0.append(p)
                    k = kind_of(rel)
                    tag = f"node:{k}:{'dir' if is_dir else 'file'}:{dname}"
                    if dname == "mode-000" and os.geteuid() == 0:
                        tag += ":noop-as-root"
                    tags.append(tag)
                    tags.append(f"seq:{name}")
                    runs += 1
                    w = {"state": state, "node": rel, "node_kind": k, "is_dir": is_dir, "damage": dname, "sequence": name, "seed": seed}
                    bad = False
                    nsteps = len(SEQS[name][1])
                    for i, st in enumerate(SEQS[name][1]):
                        rc, out, err = rn.step("proxy", st, t0 + 60 * i)
                        rrc, rout, robs = refs[name][i]
                        # quick: the repository state is compared after the last step only (a difference in between shows there too)
                        o = lab.observe("proxy") if (thorough or i == nsteps - 1) else robs
                        lab_ = st[1][0] if st[0] == "git" else st[0]
                        ww = dict(w, step=i, command=st[1] if st[0] == "git" else list(st), rc=rc, plain_rc=rrc, stderr_tail=err[-600:])
                        if st[0] == "git" and rc != rrc:
                            fails.append((f"corruption-changes-status:{lab_}:{k}:{dname}", ww))
                            bad = True
                        elif M.diff_obs(o, robs):
                            dd = M.diff_obs(o, robs)
                            fails.append((f"corruption-changes-repository:{lab_}:{k}:{dname}", dict(ww, components=dd,
                                          detail={c: {"proxy": C.trunc(o[c], 400), "plain": C.trunc(robs[c], 400)} for c in dd[:2]})))
                            bad = True
                        elif st[0] == "git" and out != rout:
                            fails.append((f"corruption-changes-stdout:{lab_}:{k}:{dname}", dict(ww, proxy_stdout=out[:300], plain_stdout=rout[:300])))
                            bad = True
                        if bad:
                            break
                    rn.clear_flags()
                    if not bad:
                        for sig, d in content_oracle(lab, M):
                            fails.append((f"{sig}:after-damage:{k}:{dname}", dict(w, **d)))
                    if len(fails) > 8:
                        break
            finally:
                rn.clear_flags()
    except Exception as e:
        fails.append(("runner-exception", {"job": [str(x) for x in job], "error": repr(e), "trace": traceback.format_exc()[-1500:]}))
    return {"state": state, "runs": runs, "failures": fails, "tags": tags}


def jobs_for(tier, seed):
    thorough = tier != "quick"
    jobs = []
    by_state = {}
    for name in (QUICK_SEQS if not thorough else list(SEQS)):
        by_state.setdefault(SEQS[name][0], []).append(name)
    for st, names in sorted(by_state.items()):
        parts = (12 if st == "A" else 4) if not thorough else 16
        for part in range(parts):
            jobs.append((st, seed * 1009 + 17, thorough, part, parts, names))
    return jobs
