"""C07 — snapshot stream: corrupted / missing checkpoint snapshots must never invent attribution.

A working-log entry and an INITIAL record name the content their line numbers describe by a blob
`.git/ai/working_logs/<HEAD>/blobs/<sha256>`. Scenarios: an agent reports lines (one or two sessions; optionally a
partial commit so that the lines are pending in INITIAL; optionally another agent checkpoint on top of INITIAL), then
the blobs are damaged (deleted / emptied / truncated at a line boundary or mid-line / one byte → 0xFF / one bit
flipped / replaced by a directory / the whole `blobs` directory removed / `checkpoints.jsonl` and INITIAL made to
point to a sha that does not exist), then a PERSON retypes lines at the agent's positions and/or inserts lines above
them (…), then `git commit` through the wrapper.

Oracles on the real binary: the commit succeeds like plain git's; every note parses; C03's content oracle on the new
note and on `git-ai blame`: a line is credited to session S only if S reported that very content.
Correspondence: Model/Snapshot.lean (`snapshot_commit` driver op) is given the working log as it is on disk after the
damage, the blobs as a reader sees them, HEAD's and the file's content, and the two fallbacks EXTRACTED from the
source; its note must equal the real note. Checked by the oracles only: cases where a damaged blob is still readable
but is not a line-boundary truncation of the original (outside `Damaged`), and a truncated snapshot of INITIAL (the code
drops a line RANGE that reaches beyond the content as a whole, the model keeps the lines inside: model ⊇ code there)."""
import concurrent.futures, hashlib, json, os, random, shutil, traceback

from vlib import common as C, e2e

F = "f.txt"
MODES = ["ckpt", "ckpt2", "initial", "initial+ckpt"]
CORRUPTIONS = ["none", "delete", "empty", "truncate-line", "truncate-mid", "byte-ff", "bit-flip", "directory",
               "blobs-dir-removed", "dangling-sha"]
EDITS = ["retype", "insert-above", "retype+insert", "append-human", "rewrite-all", "keep"]
TARGETS = ["all", "latest"]


def rust_lines(text):
    pieces = text.split("\n")
    out = []
    for i, p in enumerate(pieces):
        if i == len(pieces) - 1:
            if p != "":
                out.append(p)
        else:
            out.append(p[:-1] if p.endswith("\r") else p)
    return out


def text_of(lines):
    return "".join(l + "\n" for l in lines)


class Ids:
    def __init__(self):
        self.m = {}

    def of(self, line):
        return self.m.setdefault(line, len(self.m) + 1)

    def many(self, lines):
        return [self.of(l) for l in lines]


def attr_of(line_attrs, sess):
    """per-line authors (session number or None) from `line_attributions`"""
    n = max([a["end_line"] for a in line_attrs], default=0)
    out = [None] * n
    for a in line_attrs:
        if a["author_id"] == "human":
            continue
        s = sess.setdefault(a["author_id"], len(sess) + 1)
        for l in range(a["start_line"], a["end_line"] + 1):
            out[l - 1] = s
    return out


def scenario(job):
    """job = (mode, corruption, edit, target, seed) → dict(failures=[(sig, detail)], tags=[..], req=model request or None, real=[[line, sess]...])"""
    mode, corruption, edit, target, seed = job
    rng = random.Random(seed)
    fails, tags = [], [f"snap:mode:{mode}", f"snap:corruption:{corruption}", f"snap:edit:{edit}", f"snap:target:{target}"]
    out = {"job": list(job), "failures": fails, "tags": tags, "req": None, "real": None}
    try:
        with e2e.Env(binary=os.environ.get("VERIF_C07_BIN") or None) as env:
            r = env.repo("r")
            nb = rng.randrange(4, 10)
            base = [f"hum-base-{seed}-{i}" for i in range(nb)]
            r.write(F, text_of(base))
            r.write("g.txt", "hum-g-0\n")
            r.git("add", "-A")
            r.commit("base")
            reported = {}           # session hash → set of line texts that session wrote
            cur = list(base)
            n_ai = [0]

            def agent(session, pos=None):
                k = rng.randrange(2, 5)
                new = [f"ai-{session}-{seed}-{n_ai[0] + i} generated();" for i in range(k)]
                n_ai[0] += k
                p = rng.choice([len(cur), len(cur), rng.randrange(0, len(cur) + 1)]) if pos is None else pos
                r.human_checkpoint([F])
                cur[p:p] = new
                r.write(F, text_of(cur))
                rc, _, err = r.ai_checkpoint(session, [F])
                if rc != 0:
                    raise RuntimeError("agent checkpoint failed: " + err[-300:])
                reported.setdefault(e2e.short_hash(session, "mock_agent"), set()).update(new)
                return p, new

            p1, ai1 = agent("s1")
            blocks = [ai1]
            if mode == "ckpt2":
                _, ai2 = agent("s2")
                blocks.append(ai2)
            if mode in ("initial", "initial+ckpt"):
                r.write("g.txt", "hum-g-0\nhum-g-1\n")
                r.git("add", "g.txt")
                rc, _, err = r.git("commit", "-q", "-m", "partial: g only")
                if rc != 0:
                    raise RuntimeError("partial commit failed: " + err[-300:])
                if mode == "initial+ckpt":
                    _, ai2 = agent("s2")
                    blocks.append(ai2)
            head = r.head()
            wl = os.path.join(r.ai_dir(), "working_logs", head)
            bdir = os.path.join(wl, "blobs")
            cp_path, ini_path = os.path.join(wl, "checkpoints.jsonl"), os.path.join(wl, "INITIAL")
            head_lines = rust_lines(r.file_at("HEAD", F) or "")

            # ---- which blobs matter, and their original contents
            def read_log():
                entries, pend = [], None
                for c in r.checkpoints(head):
                    for e in c.get("entries", []):
                        if e.get("file") == F:
                            entries.append((e.get("blob_sha"), e.get("line_attributions") or []))
                ini = r.initial(head)
                if ini and ini.get("files", {}).get(F):
                    pend = ((ini.get("file_blobs") or {}).get(F), ini["files"][F])
                return entries, pend
            entries0, pend0 = read_log()
            refs = [e[0] for e in entries0] + ([pend0[0]] if pend0 and pend0[0] else [])
            if mode.startswith("initial") and not (pend0 and pend0[0]) and mode == "initial":
                fails.append(("snapshot-stream:setup:no-initial-snapshot", {"initial": r.initial(head)}))
            originals = {}
            for sha in set(refs):
                try:
                    originals[sha] = open(os.path.join(bdir, sha), "rb").read()
                except OSError:
                    pass
            if not originals:
                fails.append(("snapshot-stream:setup:no-blobs", {"dir": os.listdir(wl)}))
                return out
            latest = entries0[-1][0] if entries0 else pend0[0]
            victims = sorted(originals) if target == "all" else [latest]

            # ---- damage
            def damage(sha):
                p = os.path.join(bdir, sha)
                data = originals.get(sha, b"")
                if corruption == "delete":
                    os.unlink(p)
                elif corruption == "empty":
                    open(p, "wb").write(b"")
                elif corruption == "truncate-line":
                    cuts = [i + 1 for i, c in enumerate(data) if c == 0x0A and i + 1 < len(data)]
                    open(p, "wb").write(data[:rng.choice(cuts)] if cuts else b"")
                elif corruption == "truncate-mid":
                    open(p, "wb").write(data[:rng.randrange(1, max(2, len(data)))])
                elif corruption == "byte-ff":
                    b = bytearray(data)
                    b[rng.randrange(len(b))] = 0xFF
                    open(p, "wb").write(bytes(b))
                elif corruption == "bit-flip":
                    b = bytearray(data)
                    b[rng.randrange(len(b))] ^= 1 << rng.randrange(8)
                    open(p, "wb").write(bytes(b))
                elif corruption == "directory":
                    os.unlink(p)
                    os.makedirs(p)
            if corruption == "blobs-dir-removed":
                shutil.rmtree(bdir)
            elif corruption == "dangling-sha":
                def fake(sha):
                    return hashlib.sha256(("gone:" + sha).encode()).hexdigest()
                if os.path.exists(cp_path):
                    lines = []
                    for ln in open(cp_path, encoding="utf-8").read().split("\n"):
                        if ln.strip():
                            j = json.loads(ln)
                            for e in j.get("entries", []):
                                if e.get("blob_sha") in victims:
                                    e["blob_sha"] = fake(e["blob_sha"])
                            ln = json.dumps(j, separators=(",", ":"))
                        lines.append(ln)
                    open(cp_path, "w", encoding="utf-8").write("\n".join(lines))
                if os.path.exists(ini_path):
                    j = json.load(open(ini_path))
                    fb = j.get("file_blobs") or {}
                    for k in list(fb):
                        if fb[k] in victims:
                            fb[k] = fake(fb[k])
                    json.dump(j, open(ini_path, "w"))
            elif corruption != "none":
                for sha in victims:
                    damage(sha)

            # ---- a person edits
            hum_n = [0]

            def hum(k):
                o = [f"hum-typed-{seed}-{hum_n[0] + i} by a person" for i in range(k)]
                hum_n[0] += k
                return o
            blk = blocks[-1]
            at = cur.index(blk[0])
            if edit == "retype":
                cur[at:at + len(blk)] = hum(len(blk))
            elif edit == "insert-above":
                cur[at:at] = hum(rng.randrange(1, 4))
            elif edit == "retype+insert":
                cur[at:at + len(blk)] = hum(len(blk))
                cur[0:0] = hum(rng.randrange(1, 3))
            elif edit == "append-human":
                del cur[at:at + len(blk)]
                cur.extend(hum(len(blk) + 1))
            elif edit == "rewrite-all":
                cur[:] = hum(len(cur))
            r.write(F, text_of(cur))

            # ---- the model's inputs: the log and the blobs as they are on disk now
            ids, sess = Ids(), {}
            entries1, pend1 = read_log()
            shas = {}

            def ref(sha):
                return shas.setdefault(sha, len(shas) + 1)
            store, in_damaged = [], True
            orig_by_ref = {}
            for sha in {e[0] for e in entries1} | ({pend1[0]} if pend1 and pend1[0] else set()):
                p = os.path.join(bdir, sha)
                try:
                    if not os.path.isfile(p):
                        raise OSError("not a file")
                    txt = open(p, "rb").read().decode("utf-8")
                except (OSError, UnicodeDecodeError):
                    continue
                o = originals.get(sha)
                if o is None or not (o.startswith(txt.encode()) and (txt == "" or txt.endswith("\n") or txt.encode() == o)):
                    in_damaged = False
                store.append([ref(sha), ids.many(rust_lines(txt))])
            legacy = bool(pend1) and not pend1[0]
            # the checkpoint stores the current content under its own name first — unless a directory sits there
            cur_sha = hashlib.sha256(text_of(cur).encode()).hexdigest()
            cur_ref = 0 if os.path.isdir(os.path.join(bdir, cur_sha)) else ref(cur_sha)
            # INITIAL's line RANGES are converted on the recorded content: a range that reaches beyond a truncated
            # snapshot is dropped as a whole (line_attributions_to_attributions) — finer than the model's per-line view
            pend_truncated = bool(pend1 and pend1[0] and not entries1 and originals.get(pend1[0]) is not None
                                  and os.path.isfile(os.path.join(bdir, pend1[0]))
                                  and open(os.path.join(bdir, pend1[0]), "rb").read() != originals[pend1[0]])
            req = {"op": "snapshot_commit",
                   "entries": [{"ref": ref(s), "attr": attr_of(la, sess)} for s, la in entries1],
                   "pending": ({"ref": ref(pend1[0] or "none"), "attr": attr_of(pend1[1], sess)} if pend1 else None),
                   "store": store, "head": ids.many(head_lines), "cur": ids.many(cur),
                   "cur_ref": cur_ref}
            # ---- commit
            r.git("add", "-A")
            rc, _, err = r.git("commit", "-q", "-m", "after damage")
            new_head = r.head()
            w = {"mode": mode, "corruption": corruption, "target": target, "edit": edit, "seed": seed, "rc": rc, "stderr_tail": err[-500:],
                 "file_after": cur, "head_before": head_lines,
                 "replay": "vlib/props/c07_snapshots.py scenario((mode, corruption, edit, target, seed))"}
            changed = cur != head_lines
            if changed and (rc != 0 or new_head == head):
                fails.append((f"corruption-changes-status:commit:blobs:{corruption}", w))
                return out
            if not changed:
                tags.append("snap:nothing-to-commit")
                return out
            rc2, _, err2 = r.git("status", "--porcelain")
            if rc2 != 0:
                fails.append((f"next-command-status-differs:blobs:{corruption}", dict(w, status_rc=rc2, status_err=err2[-300:])))
            # ---- oracles: notes parse; content oracle on note and blame
            real = []
            for sha in r.notes_list():
                t = r.note_text(sha)
                n = e2e.parse_note(t) if t is not None else None
                if n is None or n["errors"] or n["meta"] is None:
                    fails.append((f"note-does-not-parse:after-snapshot-damage", dict(w, commit=sha, errors=(n or {}).get("errors"))))
            note = r.note(new_head)
            committed = rust_lines(r.file_at(new_head, F) or "")
            kind = "initial" if mode == "initial" else "entry"
            credited = {}
            for ln, h in (e2e.note_line_authors(note, F) if note else {}).items():
                credited[("note", ln)] = h
                real.append([ln, sess.setdefault(h, len(sess) + 1)])
            for ln, h in e2e.blame_line_hashes(r.blame(F)).items():
                if isinstance(h, str):
                    credited[("blame", ln)] = h
            for (src, ln), h in sorted(credited.items()):
                text = committed[ln - 1] if 0 < ln <= len(committed) else None
                if text is None:
                    if src == "note":
                        fails.append((f"attribution-out-of-range:lost-snapshot:{kind}", dict(w, source=src, line=ln, hash=h)))
                    continue
                if text not in reported.get(h, set()):
                    fails.append((f"attribution-invented:lost-snapshot:{kind}", dict(w, source=src, line=ln, text=text, credited_to=h,
                                                                                 sessions={k: sorted(v) for k, v in reported.items()})))
            tags.append("snap:credited-lines:" + ("some" if real else "none"))
            if in_damaged and not legacy and not pend_truncated:
                out["req"], out["real"] = req, sorted(real)
            else:
                tags.append("snap:model-skipped:" + ("legacy-initial" if legacy else "initial-snapshot-truncated" if pend_truncated
                                                     else "blob-readable-but-altered"))
    except Exception as e:
        fails.append(("runner-exception", {"job": list(job), "error": repr(e), "trace": traceback.format_exc()[-1500:]}))
    return out


def jobs_for(tier, seed):
    rng = random.Random(seed * 7919 + 13)
    jobs = []
    reps = 1 if tier == "quick" else 4
    for rep in range(reps):
        for mode in MODES:
            for corruption in CORRUPTIONS:
                for edit in EDITS:
                    if tier == "quick" and corruption == "none" and edit not in ("retype", "insert-above"):
                        continue
                    target = "all" if corruption in ("none", "blobs-dir-removed") else rng.choice(TARGETS)
                    jobs.append((mode, corruption, edit, target, rng.randrange(1, 1 << 30)))
    return jobs


def extract(res):
    """regenerate Extracted/SnapshotReads.lean; returns the extractor's dict or None"""
    import importlib.util
    spec = importlib.util.spec_from_file_location("extract_snapshot_reads", os.path.join(C.VERIF, "extract", "snapshot_reads.py"))
    mod = importlib.util.module_from_spec(spec)
    try:
        spec.loader.exec_module(mod)
        r = mod.main()
    except Exception as e:
        res.obligation("extract:snapshot_reads", False, "extraction")
        res.broken_tie("extract:snapshot_reads", f"{type(e).__name__}: {e}"[:2000])
        return None
    res.obligation("extract:snapshot_reads", True, "extraction")
    res.extra["snapshot_reads"] = {"sites": [f"{s['file']}:{s['line']} {s['fn']} {s['callee']} → {s['handler']} ({s['role']})" for s in r["sites"]],
                                   "ckptLost": r["ckptLost"], "initialLost": r["initialLost"], "skipsWhenUnchanged": r["skipsWhenUnchanged"],
                                   "effectiveReadsNoBlob": r["effectiveReadsNoBlob"]}
    return r


def phase(res, tier, seed, params):
    """run the stream; `params` = the extractor's dict (None → the parameters the theorem needs)"""
    import time
    t0 = time.time()
    jobs = jobs_for(tier, seed)
    with concurrent.futures.ThreadPoolExecutor(16) as ex:
        outs = list(ex.map(scenario, jobs))
    nfail = 0
    seen = set()
    reqs, idx = [], []
    for o in outs:
        res.tag(o["tags"])
        res.count_case("snapshot:" + json.dumps(o["job"]))
        for sig, d in o["failures"]:
            if (sig, tuple(o["job"][:3])) in seen:
                continue
            seen.add((sig, tuple(o["job"][:3])))
            if res.oracle_failure(sig, {"source": "snapshot stream", "scenario": o["job"], "detail": d}, what=f"snapshot stream: {sig}"):
                nfail += 1
        if o["req"] is not None:
            rq = dict(o["req"], ckpt_lost=(params or {}).get("ckptLost", "empty"), initial_lost=(params or {}).get("initialLost", "drop"))
            reqs.append(rq)
            idx.append(o)
    res.obligation(f"snapshot stream: commit succeeds, notes parse, no line credited to a session that did not report it, on {len(outs)} "
                   f"(mode × damage × person's edit) scenarios", nfail == 0, "oracle")
    bad = []
    if reqs:
        try:
            resp = C.run_driver(reqs)
        except Exception as e:
            resp = None
            res.broken_tie("correspondence:snapshot-model", f"driver failed: {e!r}"[:600])
        if resp is not None:
            for rq, rp, o in zip(reqs, resp, idx):
                model = sorted(rp.get("note", [])) if isinstance(rp, dict) else None
                if model != o["real"]:
                    bad.append({"scenario": o["job"], "request": rq, "model_note": model, "real_note": o["real"], "model": rp})
            res.tag(["snap:model-compared"] * len(reqs))
    res.obligation(f"correspondence: Model/Snapshot.lean commitNote (extracted fallbacks) = the real note on {len(reqs)} scenarios", bool(reqs) and not bad,
                   "correspondence")
    if bad:
        res.broken_tie("correspondence:snapshot-model", {"count": len(bad), "first": bad[:2]})
    if len(reqs) < 40:
        res.broken_tie("snapshot-stream:vacuous", f"only {len(reqs)} scenarios compared with the model")
    res.extra.setdefault("e2e", {})["snapshot_stream"] = {"scenarios": len(outs), "compared_with_model": len(reqs), "disagreements": len(bad),
                                                          "oracle_failures": nfail, "wall_s": round(time.time() - t0, 1)}
    return nfail, bad
