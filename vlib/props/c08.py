"""C08 — transcripts and secrets never enter the shared notes unless the user opted in
(DESIGN §8 C08).

Phases: extract StorageModeTable → Lean proofs + axiom audit → in-process correspondence and
oracles (suite c08) → end-to-end: every note-writing path × prompt-storage configuration ×
agent kind on the real binary, walking every blob reachable from refs/notes/ai; and, beside it, the
default mode WITH CAS upload (custom API base URL): 2-4 sessions per commit / amend while single
INSERTs into the sqlite upload queue are made to fail (trigger on cas_sync_queue per session, a second
connection holding BEGIN IMMEDIATE, an unopenable database) — same blob walk, plus the Lean `Default`
arm on the same prompt map and outcome vector.
The test-suite's forced `prompt_storage=notes` is NOT used: each scenario sets its own mode.
"""
import concurrent.futures, json, os, random, re, shutil, sqlite3, subprocess, sys, tempfile, time, traceback

from vlib import common as C
from vlib import e2e

PROP = "C08"
THEOREMS = [
    "GitAi.Redact.exclude_overrides_include",
    "GitAi.Redact.exclude_star_is_local",
    "GitAi.Redact.exclude_match_beats_include",
    "GitAi.Redact.effectiveMode_eq_notes_iff",
    "GitAi.Redact.notes_requires_explicit_setting",
    "GitAi.Redact.no_include_list_uses_global",
    "GitAi.Redact.not_included_falls_back",
    "GitAi.Redact.invalid_mode_string_never_notes",
    "GitAi.Redact.policy_tie",
    "GitAi.Redact.redacted_kinds_tie",
    "GitAi.Redact.enqueue_shape_tie",
    "GitAi.Redact.current_shape_safe",
    "GitAi.Redact.default_mode_no_messages",
    "GitAi.Redact.safe_shape_no_messages",
    "GitAi.Redact.default_mode_no_messages_current",
    "GitAi.Redact.unsafe_shape_leaks",
    "GitAi.Redact.seed1_shape_rejected",
    "GitAi.Redact.seed1_shape_leaks",
    "GitAi.Redact.no_transcript_unless_notes",
    "GitAi.Redact.current_table_ok",
    "GitAi.Redact.no_transcript_unless_notes_current",
    "GitAi.Redact.step_total",
    "GitAi.Redact.unfiltered_reader_leaks",
    "GitAi.Redact.o7_table_rejected",
    "GitAi.Redact.o7_witness",
    "GitAi.Redact.constants_tie",
    "GitAi.Redact.secret_charset_tie",
    "GitAi.Redact.window_boundaries",
    "GitAi.Redact.redactText_spec",
    "GitAi.Redact.redactText_no_panic",
    "GitAi.Redact.redaction_complete",
    "GitAi.Redact.redaction_run_cases",
    "GitAi.Redact.no_flagged_token_survives",
    "GitAi.Redact.redaction_idempotent",
    "GitAi.Redact.runsOf_exact",
    "GitAi.Redact.json_traversal_tie",
    "GitAi.Redact.redactJson_spec",
    "GitAi.Redact.redactJson_no_panic",
    "GitAi.Redact.redactJson_masks_every_string",
    "GitAi.Redact.redactJson_preserves_shape",
    "GitAi.Redact.json_key_collision_witness",
    "GitAi.Redact.notes_mode_masks_all_messages",
    "GitAi.Redact.notes_mode_masks_all_text_messages",
    "GitAi.Redact.tool_use_input_redacted",
    "GitAi.Redact.all_notes_masked",
    "GitAi.Redact.all_notes_masked_current",
]

SECRET_CHARS = set("ABCDEFGHIJKLMNOPQRSTUVWXYZabcdefghijklmnopqrstuvwxyz0123456789+/_-.~")
ALNUM = "ABCDEFGHIJKLMNOPQRSTUVWXYZabcdefghijklmnopqrstuvwxyz0123456789"


# ---------------------------------------------------------------- extraction phase

def phase_extract(res):
    sys.path.insert(0, os.path.join(C.VERIF, "extract"))
    import importlib
    import storage_mode_table as X
    importlib.reload(X)
    try:
        x, _ = X.main()
    except X.ExtractError as e:
        res.obligation("extract StorageModeTable", False, "extraction")
        res.broken_tie("extract StorageModeTable", str(e))
        return None
    except Exception as e:  # unexpected shape of the sources
        res.obligation("extract StorageModeTable", False, "extraction")
        res.broken_tie("extract StorageModeTable", f"{type(e).__name__}: {e}")
        return None
    res.obligation("extract StorageModeTable", True, "extraction")
    res.extra["storage_mode_table"] = {
        "writers": [{k: r[k] for k in ("name", "file", "target", "reads_wl", "filters")} for r in x["rows"]],
        "policy": x["policy"], "enqueue_shape": x["shape"], "constants": x["consts"], "redacted_kinds": x["kinds"], "skipped_kinds": x["skipped"],
        "json_kinds": x["json_kinds"], "json_shape": x["json_shape"]}
    return x


# ---------------------------------------------------------------- classifier access

def classify(tokens):
    """real `is_random` verdict (inside the 15..=90 window) for each token, via the harness"""
    tokens = sorted(set(tokens))
    if not tokens:
        return {}
    fd, path = tempfile.mkstemp(prefix="c08-classify-", suffix=".jsonl", dir=C.BUILD)
    with os.fdopen(fd, "w") as f:
        for t in tokens:
            f.write(json.dumps({"tok": t}) + "\n")
    try:
        rc, cases, se = C.run_suite("c08classify", 0, 0, path)
    finally:
        os.unlink(path)
    return {c["impl"]["tok"]: c["impl"]["secret"] for c in cases}


def runs_of(text):
    out, cur = [], ""
    for ch in text:
        if ch in SECRET_CHARS:
            cur += ch
        else:
            if cur: out.append(cur)
            cur = ""
    if cur: out.append(cur)
    return out


def tagged(v):
    """a JSON value in the transport form of the Lean driver (Driver/Redact.lean: jvOf); object entries in
    serde_json's map order (keys sorted by their UTF-8 bytes)"""
    if v is None: return ["z"]
    if isinstance(v, bool): return ["b", v]
    if isinstance(v, (int, float)): return ["n", json.dumps(v)]
    if isinstance(v, str): return ["s", v]
    if isinstance(v, list): return ["a", [tagged(x) for x in v]]
    return ["o", [[k, tagged(x)] for k, x in sorted(v.items(), key=lambda kv: kv[0].encode("utf-8"))]]


def json_strings(v):
    if isinstance(v, str): return [v]
    if isinstance(v, list): return [t for x in v for t in json_strings(x)]
    if isinstance(v, dict): return [t for k, x in v.items() for t in [k] + json_strings(x)]
    return []


# ---------------------------------------------------------------- scenario material

class Material:
    """canaries and credentials of one scenario (all different, so a hit says where it came from)"""

    def __init__(self, rng, sid, creds):
        self.sid = sid
        tag = "".join(rng.choice("abcdefghjkmnpqrstuvwxyz") for _ in range(5))
        self.canaries = {k: f"CN{tag}{k}" for k in ("User", "Asst", "Thnk", "Plan", "Tool", "Name")}
        # credentials the real classifier accepts (pre-classified pool)
        self.cred_text = [creds.pop(), creds.pop(), creds.pop()]
        # tool input: one in a string value (a shell command), one as an object KEY, one in a nested array of objects
        self.cred_tool = [creds.pop(), creds.pop(), creds.pop()]
        self.texts = []          # every text message handed to git-ai (for the model prediction)
        self.tool_inputs = []    # every tool input handed to git-ai

    def tool_input(self):
        c = self.canaries
        v = {"command": f"export KEY={self.cred_tool[0]}; echo {c['Tool']}",
             "env": {self.cred_tool[1]: "ключ", "timeout": 120000, "dry_run": False, "none": None},
             "files": [{"path": "é.env", "content": f"TOKEN={self.cred_tool[2]}==\nPORT=3000\n"}, ["deep", [f"{self.cred_tool[2]}"]]]}
        self.tool_inputs.append(v)
        return v

    def transcript(self, k):
        c = self.canaries
        msgs = [
            {"type": "user", "text": f"{c['User']} step {k}: put the key {self.cred_text[0]} into the config, token={self.cred_text[1]}=="},
            {"type": "assistant", "text": f"{c['Asst']} done, é wrote it"},
            {"type": "thinking", "text": f"{c['Thnk']} the user pasted {self.cred_text[2]}"},
            {"type": "plan", "text": f"{c['Plan']} 1. edit 2. test"},
            {"type": "tool_use", "name": c["Name"], "input": self.tool_input()},
        ]
        for extra in range(k - 1):   # later checkpoints carry longer transcripts
            msgs.append({"type": "assistant", "text": f"{c['Asst']} follow-up {extra} for step {k}"})
        for m in msgs:
            if "text" in m:
                self.texts.append(m["text"])
        return {"messages": msgs}

    def claude_jsonl(self, k):
        c = self.canaries
        lines = [
            {"type": "user", "message": {"role": "user", "content": f"{c['User']} step {k}: key {self.cred_text[0]} token={self.cred_text[1]}=="},
             "timestamp": "2025-01-01T00:00:00Z"},
            {"type": "assistant", "message": {"role": "assistant", "model": "claude-test", "content": [
                {"type": "thinking", "thinking": f"{c['Thnk']} the user pasted {self.cred_text[2]}"},
                {"type": "text", "text": f"{c['Asst']} done"},
                {"type": "tool_use", "id": "t1", "name": c["Name"], "input": self.tool_input()}]},
             "timestamp": "2025-01-01T00:00:01Z"},
        ]
        for extra in range(k - 1):
            lines.append({"type": "assistant", "message": {"role": "assistant", "model": "claude-test", "content": [
                {"type": "text", "text": f"{c['Asst']} follow-up {extra} for step {k}"}]}, "timestamp": "2025-01-01T00:00:02Z"})
        self.texts += [f"{c['User']} step {k}: key {self.cred_text[0]} token={self.cred_text[1]}==",
                       f"{c['Thnk']} the user pasted {self.cred_text[2]}", f"{c['Asst']} done"] + \
                      [f"{c['Asst']} follow-up {e} for step {k}" for e in range(k - 1)]
        return "".join(json.dumps(l) + "\n" for l in lines)


class Ctx:
    def __init__(self, env, repo, mat, agent):
        self.env, self.r, self.m, self.agent, self.k = env, repo, mat, agent, 0
        self.trace = os.path.join(env.root, "trace.jsonl")

    def ai_edit(self, path, content):
        """an AI session writes `content` to `path` and reports it with its transcript so far"""
        self.k += 1
        self.r.write(path, content)
        if self.agent == "agent-v1":
            rc, out, err = self.r.ai_checkpoint(self.m.sid, [path], transcript=self.m.transcript(self.k))
        else:
            tdir = os.path.join(self.env.home, ".claude", "projects", "p")
            os.makedirs(tdir, exist_ok=True)
            tp = os.path.join(tdir, f"{self.m.sid}.jsonl")
            with open(tp, "w") as f:
                f.write(self.m.claude_jsonl(self.k))
            hook = {"cwd": self.r.path, "hook_event_name": "PostToolUse", "session_id": self.m.sid,
                    "tool_name": "Edit", "tool_input": {"file_path": os.path.join(self.r.path, path)},
                    "transcript_path": tp}
            rc, out, err = self.r.ai("checkpoint", "claude", "--hook-input", json.dumps(hook))
        if rc != 0:
            raise RuntimeError(f"checkpoint failed rc={rc}: {err[-300:]}")

    def markers(self):
        out = []
        try:
            for line in open(self.trace):
                try:
                    j = json.loads(line)
                except Exception:
                    continue
                if "marker" in j:
                    out.append(j["marker"])
        except FileNotFoundError:
            pass
        return out


def base(ctx):
    r = ctx.r
    r.write("f.txt", "l1\nl2\nl3\nl4\nl5\n")
    r.write("g.txt", "g1\ng2\n")
    r.git("add", "-A")
    if not r.commit("base"):
        raise RuntimeError("base commit failed")


# ---- the note-writing paths -------------------------------------------------------------

def p_commit(ctx):
    base(ctx)
    ctx.ai_edit("f.txt", "l1\nl2\nAI-1\nl3\nl4\nl5\n")
    ctx.ai_edit("f.txt", "l1\nl2\nAI-1\nAI-2\nl3\nl4\nl5\n")
    assert ctx.r.commit("c1")


def p_partial_commit_initial(ctx):
    """AI edits two files, only one is committed: the other's prompts travel through INITIAL"""
    base(ctx)
    ctx.ai_edit("f.txt", "l1\nAI-f\nl2\nl3\nl4\nl5\n")
    ctx.ai_edit("g.txt", "g1\nAI-g\ng2\n")
    ctx.r.git("add", "f.txt")
    assert ctx.r.commit("only f", all=False)
    ctx.r.git("add", "g.txt")
    assert ctx.r.commit("then g", all=False)


def p_amend(ctx):
    base(ctx)
    ctx.ai_edit("f.txt", "l1\nl2\nAI-1\nl3\nl4\nl5\n")
    assert ctx.r.commit("c1")
    ctx.ai_edit("f.txt", "l1\nl2\nAI-1\nAI-2\nl3\nl4\nl5\n")
    ctx.r.git("add", "-A")
    rc, _, err = ctx.r.git("commit", "--amend", "-q", "--no-edit")
    assert rc == 0, err


def p_amend_message_only(ctx):
    base(ctx)
    ctx.ai_edit("f.txt", "l1\nl2\nAI-1\nl3\nl4\nl5\n")
    assert ctx.r.commit("c1")
    rc, _, err = ctx.r.git("commit", "--amend", "-q", "-m", "reworded")
    assert rc == 0, err


def _feature_two_commits(ctx):
    r = ctx.r
    base(ctx)
    r.git("checkout", "-q", "-b", "feat")
    ctx.ai_edit("f.txt", "l1\nl2\nl3\nl4\nl5\nAI-1\n")
    assert r.commit("feat 1")
    ctx.ai_edit("f.txt", "l1\nl2\nl3\nl4\nl5\nAI-1\nAI-2\n")
    assert r.commit("feat 2")
    r.git("checkout", "-q", "main")


def p_rebase_fast(ctx):
    r = ctx.r
    _feature_two_commits(ctx)
    r.write("g.txt", "g1\ng2\nmain-change\n")
    assert r.commit("main moves another file")
    r.git("checkout", "-q", "feat")
    rc, _, err = r.git("rebase", "main")
    assert rc == 0, err
    ctx.expect_marker = "fast-path-rebase-note-remap"


def p_rebase_slow(ctx):
    r = ctx.r
    _feature_two_commits(ctx)
    r.write("f.txt", "TOP\nl1\nl2\nl3\nl4\nl5\n")
    assert r.commit("main moves the same file")
    r.git("checkout", "-q", "feat")
    rc, _, err = r.git("rebase", "main")
    assert rc == 0, err
    ctx.forbid_marker = "fast-path-rebase-note-remap"


def p_cherry_pick_fast(ctx):
    r = ctx.r
    _feature_two_commits(ctx)
    r.write("g.txt", "g1\ng2\nmain-change\n")
    assert r.commit("main moves another file")
    rc, out, _ = r.plain_git("rev-parse", "feat~1")
    rc, _, err = r.git("cherry-pick", out.strip())
    assert rc == 0, err


def p_cherry_pick_slow(ctx):
    r = ctx.r
    _feature_two_commits(ctx)
    r.write("f.txt", "TOP\nl1\nl2\nl3\nl4\nl5\n")
    assert r.commit("main moves the same file")
    rc, out, _ = r.plain_git("rev-parse", "feat~1")
    rc, _, err = r.git("cherry-pick", out.strip())
    assert rc == 0, err
    ctx.forbid_marker = "fast-path-cherry-pick-note-remap"


def p_merge_squash(ctx):
    r = ctx.r
    _feature_two_commits(ctx)
    rc, _, err = r.git("merge", "--squash", "feat")
    assert rc == 0, err
    assert r.commit("squashed", all=False)


def p_reset_soft_recommit(ctx):
    r = ctx.r
    base(ctx)
    ctx.ai_edit("f.txt", "l1\nl2\nAI-1\nl3\nl4\nl5\n")
    assert r.commit("c1")
    ctx.ai_edit("f.txt", "l1\nl2\nAI-1\nl3\nAI-2\nl4\nl5\n")
    assert r.commit("c2")
    rc, _, err = r.git("reset", "--soft", "HEAD~1")
    assert rc == 0, err
    assert r.commit("c2 again", all=False)


def p_reset_mixed_recommit(ctx):
    r = ctx.r
    base(ctx)
    ctx.ai_edit("f.txt", "l1\nl2\nAI-1\nl3\nl4\nl5\n")
    assert r.commit("c1")
    ctx.ai_edit("f.txt", "l1\nl2\nAI-1\nl3\nAI-2\nl4\nl5\n")
    assert r.commit("c2")
    rc, _, err = r.git("reset", "HEAD~2")
    assert rc == 0, err
    assert r.commit("all again")


def p_stash_pop_commit(ctx):
    r = ctx.r
    base(ctx)
    ctx.ai_edit("f.txt", "l1\nl2\nAI-1\nl3\nl4\nl5\n")
    rc, _, err = r.git("stash")
    assert rc == 0, err
    r.write("g.txt", "g1\ng2\nhuman\n")
    assert r.commit("human work in between")
    rc, _, err = r.git("stash", "pop")
    assert rc == 0, err
    assert r.commit("after pop")


def p_ci_squash_rewrite(ctx):
    """squash merge done by the forge (no hooks), authorship rewritten afterwards by
    `git-ai squash-authorship` (the CI path: rewrite_authorship_after_squash_or_rebase)"""
    r = ctx.r
    _feature_two_commits(ctx)
    rc, out, _ = r.plain_git("rev-parse", "feat")
    old = out.strip()
    rc, _, err = r.plain_git("merge", "--squash", "feat")
    assert rc == 0, err
    rc, _, err = r.plain_git("commit", "-q", "-m", "squash by forge")
    assert rc == 0, err
    new = r.head()
    rc, out, err = r.ai("squash-authorship", "main", new, old)
    assert rc == 0, err


PATHS = {
    "commit": p_commit,
    "partial-commit-initial": p_partial_commit_initial,
    "amend": p_amend,
    "amend-message-only": p_amend_message_only,
    "rebase-fast": p_rebase_fast,
    "rebase-slow": p_rebase_slow,
    "cherry-pick-fast": p_cherry_pick_fast,
    "cherry-pick-slow": p_cherry_pick_slow,
    "merge-squash": p_merge_squash,
    "reset-soft-recommit": p_reset_soft_recommit,
    "reset-mixed-recommit": p_reset_mixed_recommit,
    "stash-pop-commit": p_stash_pop_commit,
    "ci-squash-rewrite": p_ci_squash_rewrite,
}

# ---- prompt-storage configurations ------------------------------------------------------
# name -> (patch for GIT_AI_TEST_CONFIG_PATCH, ~/.git-ai/config.json or None, remote url or None,
#          expected effective mode by the documented resolution order)
ACME = "https://github.com/acme/repo.git"
CONFIGS = {
    "default": ({"prompt_storage": "default"}, None, None, "default"),
    "local": ({"prompt_storage": "local"}, None, None, "local"),
    "notes": ({"prompt_storage": "notes"}, None, None, "notes"),
}
CONFIGS_THOROUGH = {
    "notes+exclude-match": ({"prompt_storage": "notes", "exclude_prompts_in_repositories": ["*acme*"]}, None, ACME, "local"),
    "notes+exclude-star-no-remote": ({"prompt_storage": "notes", "exclude_prompts_in_repositories": ["*"]}, None, None, "local"),
    "notes+exclude-nomatch": ({"prompt_storage": "notes", "exclude_prompts_in_repositories": ["*other*"]}, None, ACME, "notes"),
    "notes+exclude-no-remote": ({"prompt_storage": "notes", "exclude_prompts_in_repositories": ["*acme*"]}, None, None, "notes"),
    "file:notes+include-match": ({}, {"prompt_storage": "notes", "include_prompts_in_repositories": ["*acme*"]}, ACME, "notes"),
    "file:notes+include-nomatch": ({}, {"prompt_storage": "notes", "include_prompts_in_repositories": ["*other*"]}, ACME, "local"),
    "file:notes+include-nomatch+fallback-default": ({}, {"prompt_storage": "notes", "include_prompts_in_repositories": ["*other*"],
                                                        "default_prompt_storage": "default"}, ACME, "default"),
    "file:default+include-nomatch+fallback-notes": ({}, {"prompt_storage": "default", "include_prompts_in_repositories": ["*other*"],
                                                        "default_prompt_storage": "notes"}, ACME, "notes"),
    "file:notes+include-match+exclude-match": ({"exclude_prompts_in_repositories": ["*acme*"]},
                                               {"prompt_storage": "notes", "include_prompts_in_repositories": ["*acme*"]}, ACME, "local"),
    "file:notes+include-star-no-remote": ({}, {"prompt_storage": "notes", "include_prompts_in_repositories": ["*"]}, None, "notes"),
    "file:notes+include-no-remote": ({}, {"prompt_storage": "notes", "include_prompts_in_repositories": ["*acme*"]}, None, "local"),
}


def model_mode(cfgname, cfg):
    """the Lean model's effective mode for a configuration (patterns are literal-free globs of the
    shape `*x*` / `*` here, matched in python)"""
    patch, filecfg, remote, _ = cfg
    ps = patch.get("prompt_storage") or (filecfg or {}).get("prompt_storage", "default")
    dps = (filecfg or {}).get("default_prompt_storage")
    excl = patch.get("exclude_prompts_in_repositories", [])
    incl = (filecfg or {}).get("include_prompts_in_repositories", [])

    def hit(p, url):
        import fnmatch
        return fnmatch.fnmatchcase(url, p)
    remotes = [] if remote is None else [{"excl": [hit(p, remote) for p in excl], "incl": [hit(p, remote) for p in incl]}]
    req = {"op": "rd_effective_mode", "prompt_storage": ps, "default_prompt_storage": dps,
           "excl_star": [p == "*" for p in excl], "incl_star": [p == "*" for p in incl], "remotes": remotes}
    return C.run_driver([req])[0].get("mode")


# ---------------------------------------------------------------- observation + oracle

def notes_blobs(r, ref="refs/notes/ai"):
    """every blob of every commit reachable from the notes ref: {oid: text}"""
    rc, out, _ = r.plain_git("rev-list", ref)
    blobs = {}
    if rc != 0:
        return blobs, 0
    commits = out.split()
    for c in commits:
        rc, ls, _ = r.plain_git("ls-tree", "-r", c)
        for line in ls.splitlines():
            meta, _path = line.split("\t", 1)
            parts = meta.split()
            if parts[1] == "blob" and parts[2] not in blobs:
                rc, body, _ = r.plain_git("cat-file", "blob", parts[2])
                blobs[parts[2]] = body
    return blobs, len(commits)


def run_scenario(path, cfgname, cfg, agent, seed, creds):
    patch, filecfg, remote, expected = cfg
    rng = random.Random(f"{seed}/{path}/{cfgname}/{agent}")
    mat = Material(rng, "s" + "".join(rng.choice("0123456789abcdef") for _ in range(8)), creds)
    obs = {"path": path, "config": cfgname, "agent": agent, "expected_mode": expected, "errors": []}
    with e2e.Env(prompt_storage=patch.get("prompt_storage"), config_patch={k: v for k, v in patch.items() if k != "prompt_storage"},
                 extra_env={"GIT_AI_VERIF_TRACE": "PLACEHOLDER"}) as env:
        env.env["GIT_AI_VERIF_TRACE"] = os.path.join(env.root, "trace.jsonl")
        if filecfg is not None:
            os.makedirs(os.path.join(env.home, ".git-ai"), exist_ok=True)
            with open(os.path.join(env.home, ".git-ai", "config.json"), "w") as f:
                json.dump(filecfg, f)
        r = env.repo("r")
        if remote:
            r.plain_git("remote", "add", "origin", remote)
        ctx = Ctx(env, r, mat, agent)
        ctx.expect_marker = ctx.forbid_marker = None
        try:
            PATHS[path](ctx)
        except AssertionError as e:
            obs["errors"].append(f"scenario step failed: {e!r} {traceback.format_exc()[-400:]}")
        except Exception as e:
            obs["errors"].append(f"scenario error: {e!r}")
        markers = ctx.markers()
        obs["markers"] = sorted(set(markers))
        if ctx.expect_marker and ctx.expect_marker not in markers:
            obs["errors"].append(f"expected shortcut {ctx.expect_marker} was not taken")
        if ctx.forbid_marker and ctx.forbid_marker in markers:
            obs["errors"].append(f"shortcut {ctx.forbid_marker} was taken in a slow-path scenario")
        blobs, ncommits = notes_blobs(r)
        stash_blobs, _ = notes_blobs(r, "refs/notes/ai-stash")
        head = r.head()
        obs["notes_commits"], obs["blobs"] = ncommits, len(blobs)
        obs["head_has_note"] = head in r.notes_list()
        obs["ncmd"] = env.ncmd
        # ---- property oracle on every blob
        hits = []
        cans = mat.canaries
        for oid, body in blobs.items():
            for k, c in cans.items():
                if c in body:
                    hits.append({"blob": oid, "what": "canary", "where": k, "value": c})
            for c in mat.cred_text:
                if c in body:
                    hits.append({"blob": oid, "what": "credential", "where": "text", "value": c})
            for c in mat.cred_tool:
                if c in body:
                    hits.append({"blob": oid, "what": "credential", "where": "tool_input", "value": c})
        obs["hits"] = hits
        obs["stash_ref_has_transcript"] = any(c in b for b in stash_blobs.values() for c in cans.values())
        # ---- structural view (independent note parser): messages per prompt
        msgs = []
        for oid, body in blobs.items():
            n = e2e.parse_note(body)
            if n["meta"] and isinstance(n["meta"].get("prompts"), dict):
                for pid, p in n["meta"]["prompts"].items():
                    for m in p.get("messages", []) or []:
                        msgs.append({"blob": oid, "type": m.get("type"), "text": m.get("text"), "input": m.get("input")})
        obs["note_messages"] = msgs
        obs["texts"] = mat.texts
        obs["tool_inputs"] = mat.tool_inputs
        obs["cred_text"], obs["cred_tool"] = mat.cred_text, mat.cred_tool
        obs["witness"] = {"path": path, "config": cfgname, "agent": agent, "patch": patch, "file_config": filecfg, "remote": remote}
    return obs


def gen_credentials(seed, n):
    rng = random.Random(f"creds/{seed}")
    out = []
    for i in range(n):
        pre = rng.choice(["sk_live_", "ghp_", "xoxb-", "pk_test_", "", ""])
        ln = rng.choice([15, 16, 24, 32, 40, 64, 90, 89])
        body = "".join(rng.choice(ALNUM) for _ in range(max(ln - len(pre), 8)))
        out.append((pre + body)[:max(ln, 15)])
    return out


def model_redactions(texts, verdicts):
    reqs = [{"op": "rd_redact_text", "text": t, "verdicts": [{"tok": k, "secret": v} for k, v in verdicts.items()]} for t in texts]
    out = {}
    for t, r in zip(texts, C.run_driver(reqs)):
        out[t] = r.get("ok", {}).get("text") if isinstance(r, dict) else None
    return out


def model_json_redactions(values, verdicts):
    """tagged input (as JSON text) -> the model's tagged redaction"""
    vs = [{"tok": k, "secret": v} for k, v in verdicts.items()]
    reqs = [{"op": "rd_redact_json", "value": tagged(v), "verdicts": vs} for v in values]
    out = {}
    for v, r in zip(values, C.run_driver(reqs)):
        out[json.dumps(tagged(v), sort_keys=True)] = r.get("ok", {}).get("value") if isinstance(r, dict) else None
    return out


def phase_e2e(res, tier, seed, name="e2e"):
    ok, out = C.build_git_ai()
    if not ok:
        res.obligation("build git-ai binary from the working tree", False, "build")
        res.broken_tie("git-ai build", out[-3000:])
        return
    configs = dict(CONFIGS)
    paths = list(PATHS)
    agents_for = lambda p: ["agent-v1", "claude"] if p in ("commit", "amend", "rebase-slow", "merge-squash") else ["agent-v1"]
    plan = [(p, c, a) for p in paths for c in configs for a in agents_for(p)]
    if tier == "thorough":
        for c in CONFIGS_THOROUGH:
            configs[c] = CONFIGS_THOROUGH[c]
            for p in paths:
                plan.append((p, c, "agent-v1"))
        plan += [(p, c, "claude") for p in paths for c in CONFIGS if (p, c, "claude") not in plan]
    # credentials: generate, keep those the real classifier flags
    pool = gen_credentials(seed, 18 * len(plan) + 60)
    verd = classify(pool)
    accepted = [t for t in pool if verd.get(t)]
    res.extra.setdefault("e2e", {})["credential_pool"] = {"generated": len(pool), "accepted_by_classifier": len(accepted)}
    if len(accepted) < 6 * len(plan):
        res.broken_tie(f"{name}: credential generator", f"only {len(accepted)} of {len(pool)} generated credentials are flagged by is_random")
        return
    # model tie for the configuration table
    for cname, cfg in configs.items():
        mm = model_mode(cname, cfg)
        res.obligation(f"{name}: model effective mode for config {cname} = documented ({cfg[3]})", mm == cfg[3], "correspondence")
        if mm != cfg[3]:
            res.broken_tie(f"{name}: effectiveMode on config {cname}", {"model": mm, "documented": cfg[3]})
    creds_for = {}
    for k, item in enumerate(plan):
        creds_for[item] = accepted[6 * k:6 * k + 6]
    results = []
    with concurrent.futures.ThreadPoolExecutor(16) as ex:
        futs = {ex.submit(run_scenario, p, c, configs[c], a, seed, list(creds_for[(p, c, a)])): (p, c, a) for (p, c, a) in plan}
        for f in concurrent.futures.as_completed(futs):
            try:
                results.append(f.result())
            except Exception as e:
                p, c, a = futs[f]
                results.append({"path": p, "config": c, "agent": a, "errors": [f"runner: {e!r}"], "hits": [], "note_messages": [],
                                "expected_mode": configs[c][3], "blobs": 0, "head_has_note": False, "texts": [], "tool_inputs": [], "cred_text": [], "cred_tool": [],
                                "witness": {"path": p, "config": c, "agent": a}})
    # a scenario that did not reach its writer (timeout under load, ...) is retried once, alone
    for k, o in enumerate(results):
        if o["errors"] or not o.get("blobs") or not o.get("head_has_note"):
            item = (o["path"], o["config"], o["agent"])
            try:
                o2 = run_scenario(item[0], item[1], configs[item[1]], item[2], seed, list(creds_for[item]))
                o2["retried_after"] = o["errors"][:2]
                results[k] = o2
            except Exception as e:
                o["errors"].append(f"retry: {e!r}")
    results.sort(key=lambda o: (o["path"], o["config"], o["agent"]))
    # model prediction of the masked texts (notes mode)
    all_texts = sorted({t for o in results for t in o.get("texts", [])})
    all_inputs = list({json.dumps(v, sort_keys=True): v for o in results for v in o.get("tool_inputs", [])}.values())
    tokens = sorted({r for t in all_texts + [x for v in all_inputs for x in json_strings(v)] for r in runs_of(t) if 13 <= len(r) <= 92})
    v2 = classify(tokens)
    pred = model_redactions(all_texts, v2)
    pred_json = model_json_redactions(all_inputs, v2)
    invalid, stash_tr = 0, 0
    for o in results:
        key = f"{o['path']}|{o['config']}|{o['agent']}"
        res.count_case(key)
        res.tag([f"path={o['path']}", f"config={o['config']}", f"agent={o['agent']}", f"mode={o['expected_mode']}"]
                + [f"marker={m}" for m in o.get("markers", [])])
        if o.get("stash_ref_has_transcript"):
            stash_tr += 1
        if o["errors"] or not o.get("blobs") or not o.get("head_has_note"):
            invalid += 1
            res.broken_tie(f"{name}: scenario {key} did not exercise its note writer",
                           {"errors": o["errors"], "blobs": o.get("blobs"), "head_has_note": o.get("head_has_note")})
            continue
        w = dict(o["witness"], hits=o["hits"][:6], recipe="vlib/props/c08.py: run_scenario(path, config, CONFIGS[config], agent, seed, creds)")
        if o["expected_mode"] != "notes":
            if o["hits"]:
                res.oracle_failure(f"transcript-in-notes:{o['path']}", w,
                                   what=f"mode {o['expected_mode']}: conversation text reachable from refs/notes/ai after {o['path']}")
            with_msgs = [m for m in o["note_messages"]]
            if with_msgs and not o["hits"]:
                res.oracle_failure(f"transcript-in-notes:{o['path']}", dict(w, messages=with_msgs[:3]),
                                   what=f"mode {o['expected_mode']}: a note carries messages after {o['path']}")
        else:
            for h in o["hits"]:
                if h["what"] == "credential" and h["where"] == "text":
                    res.oracle_failure("notes-mode:credential-in-text-message-unmasked", dict(w, credential=h["value"]),
                                       what=f"notes mode: a credential accepted by is_random is unmasked in a note after {o['path']}")
                if h["what"] == "credential" and h["where"] == "tool_input":
                    res.oracle_failure("notes-mode:credential-in-tool-input-unmasked", dict(w, credential=h["value"]),
                                       what=f"notes mode: a credential inside a tool_use input (string value, object key or nested value) is written "
                                            f"unmasked to a note after {o['path']}")
            # model tie: every text message in a note is the model's redaction of a text handed in
            allowed = {pred.get(t) for t in o["texts"]}
            for m in o["note_messages"]:
                if m.get("text") is not None and m["text"] not in allowed:
                    res.broken_tie(f"{name}: notes-mode message text vs model redaction ({key})",
                                   {"note_text": m["text"], "model_redactions": sorted(x for x in allowed if x)[:4]})
                    break
            # model tie: every tool input in a note is the model's traversal of a tool input handed in
            allowed_json = [pred_json.get(json.dumps(tagged(v), sort_keys=True)) for v in o.get("tool_inputs", [])]
            tools_seen = 0
            for m in o["note_messages"]:
                if m.get("type") == "tool_use":
                    tools_seen += 1
                    if tagged(m.get("input")) not in allowed_json:
                        res.broken_tie(f"{name}: notes-mode tool input vs model traversal ({key})",
                                       {"note_input": m.get("input"), "model": allowed_json[:2]})
                        break
            if o.get("tool_inputs") and not tools_seen:
                res.broken_tie(f"{name}: notes-mode scenario without a tool_use message in its notes ({key})", {"messages": len(o["note_messages"])})
            res.tag([f"notes-tool-inputs={'yes' if tools_seen else 'no'}"])
            if not any(h["what"] == "canary" for h in o["hits"]):
                res.tag(["notes-mode-without-transcript"])
    res.obligation(f"{name}: every scenario reached its note writer ({len(results) - invalid}/{len(results)})", invalid == 0, "correspondence")
    res.extra["e2e"].update({"scenarios": len(results), "invalid": invalid, "stash_ref_holds_transcript_local_only": stash_tr,
                             "commands": sum(o.get("ncmd", 0) for o in results)})
    for o in results[:: max(1, len(results) // 3)][:3]:
        res.sample({"e2e": {k: o.get(k) for k in ("path", "config", "agent", "expected_mode", "blobs", "notes_commits", "hits", "markers")}})
    return results


# ---------------------------------------------------------------- default mode with CAS upload: per-session faults

CAS_WRITERS = {"commit": "post_commit", "amend": "rewrite_authorship_after_commit_amend",
               "rebase-stop": "credit_lines_recorded_while_stopped"}   # scenario path -> writer it reaches
CAS_API = "http://127.0.0.1:9"     # nothing listens; the upload itself is asynchronous and never reached


def cas_plan(tier, seed):
    """(path, n_sessions, index of the session WITHOUT transcript or None, fault) per scenario.
    fault: ("trigger", [failing session indices]) — a BEFORE INSERT trigger on cas_sync_queue raises for
    exactly the rows carrying one of these sessions' transcripts (any sqlite error at the INSERT: full disk,
    damaged table, constraint); ("lock",) — a second connection holds BEGIN IMMEDIATE during the commit
    (SQLITE_BUSY after the 5 s busy timeout: every INSERT fails); ("nodb",) — the database file is replaced
    by a directory before the commit (every statement fails); ("none",)."""
    rng = random.Random(f"cas/{seed}")
    plan = []
    for mask in range(4):                                  # two sessions, every outcome vector
        plan.append(("commit", 2, None, ("trigger", [i for i in range(2) if mask >> i & 1])))
    masks3 = list(range(1, 8)); rng.shuffle(masks3)
    for mask in masks3[: 3 if tier == "quick" else 7]:     # three sessions, one of them possibly silent
        failing = [i for i in range(3) if mask >> i & 1]
        plan.append(("commit", 3, rng.choice([None] + [i for i in range(3) if i not in failing]), ("trigger", failing)))
    plan.append(("commit", 2, None, ("lock",)))
    plan.append(("commit", 2, None, ("nodb",)))
    plan.append(("amend", 2, None, ("trigger", [1])))      # session 0 already in the note (url, no messages)
    plan.append(("amend", 3, None, ("trigger", [rng.choice([1, 2])])))
    plan.append(("amend", 2, None, ("nodb",)))
    # agents report edits while a rebase is stopped on a conflict; `rebase --continue` writes the note
    plan.append(("rebase-stop", 2, None, ("trigger", [0])))
    plan.append(("rebase-stop", 2, None, ("trigger", [1])))
    plan.append(("rebase-stop", 3, None, ("none",)))
    if tier == "thorough":
        plan.append(("amend", 2, None, ("lock",)))
        for _ in range(6):
            n = rng.choice([3, 4])
            pth = rng.choice(["commit", "amend"])
            failing = sorted(rng.sample(range(1 if pth == "amend" else 0, n), rng.randint(1, n - 1)))
            plan.append((pth, n, rng.choice([None] + [i for i in range(1 if pth == "amend" else 0, n) if i not in failing]),
                         ("trigger", failing)))
    return plan


def run_cas_scenario(spec, seed, binary=None):
    """spec = [path, n, silent, fault]. Returns the observation (note of HEAD per prompt, blob walk, queue)."""
    path, n, silent, fault = spec[0], spec[1], spec[2], tuple(spec[3])
    rng = random.Random(f"cas/{seed}/{json.dumps(spec)}")
    tag = "".join(rng.choice("abcdefghjkmnpqrstuvwxyz") for _ in range(5))
    sess = []
    for i in range(n):
        sid = f"cs{tag}{i}"
        can = {"User": f"CN{tag}{i}Usr", "Asst": f"CN{tag}{i}Ast"}
        msgs = [] if i == silent else [{"type": "user", "text": f"{can['User']} please refactor step {i}"},
                                       {"type": "assistant", "text": f"{can['Asst']} done é"}]
        sess.append({"i": i, "sid": sid, "hash": e2e.short_hash(sid, "mock_agent"), "canaries": can, "messages": msgs,
                     "file": f"s{i}.txt"})
    obs = {"spec": [path, n, silent, list(fault)], "errors": [], "sessions": [{k: x[k] for k in ("i", "sid", "hash", "messages")} for x in sess]}
    kw = {"binary": binary} if binary else {}
    with e2e.Env(prompt_storage="default", extra_env={"GIT_AI_API_BASE_URL": CAS_API}, **kw) as env:
        r = env.repo("r")
        db = env.env["GIT_AI_TEST_DB_PATH"]
        try:
            r.write("base.txt", "b\n")
            for x in sess:
                r.write(x["file"], "l1\nl2\n")
            r.git("add", "-A")
            assert r.commit("base"), "base commit"
            first = sess[:1] if path == "amend" else []
            rest = sess[1:] if path == "amend" else sess
            if path == "rebase-stop":
                # feature and main both rewrite base.txt: `git rebase main` stops on the conflict
                r.git("checkout", "-q", "-b", "feature")
                r.write("base.txt", "feature\n"); r.git("add", "-A"); assert r.commit("feature change"), "feature commit"
                r.git("checkout", "-q", "main")
                r.write("base.txt", "main\n"); r.git("add", "-A"); assert r.commit("main change"), "main commit"
                r.git("checkout", "-q", "feature")
                rc, _, err = r.git("rebase", "main")
                assert rc != 0, "the rebase was expected to stop on a conflict"
                r.write("base.txt", "resolved\n")
                r.git("add", "base.txt")

            def edit(x, k):
                r.write(x["file"], f"l1\nAI-{x['i']}-{k}\nl2\n")
                rc, _, err = r.ai_checkpoint(x["sid"], [x["file"]], transcript={"messages": x["messages"]})
                assert rc == 0, f"checkpoint: {err[-200:]}"
            for x in first:                       # amend: session 0 is committed (and uploaded) normally first
                edit(x, 0)
                assert r.commit("c1"), "first commit"
            for x in rest:
                edit(x, 1)
            r.git("add", "-A")
            assert os.path.isfile(db), "internal database was not created"
            con = None
            if fault[0] == "trigger":
                con = sqlite3.connect(db, timeout=30, isolation_level=None)
                conds = " OR ".join("NEW.data LIKE '%" + sess[i]["canaries"]["User"] + "%'" for i in fault[1]) or "0"
                con.execute(f"CREATE TRIGGER verif_fault BEFORE INSERT ON cas_sync_queue WHEN {conds} "
                            "BEGIN SELECT RAISE(ABORT, 'verif: injected INSERT failure'); END")
                con.close(); con = None
            elif fault[0] == "lock":
                con = sqlite3.connect(db, timeout=30, isolation_level=None)
                con.execute("BEGIN IMMEDIATE")
            elif fault[0] == "nodb":
                os.rename(db, db + ".away")
                os.makedirs(db)
            t0 = time.time()
            try:
                if path == "amend":
                    rc, _, err = r.git("commit", "--amend", "-q", "--no-edit")
                elif path == "rebase-stop":
                    rc, _, err = r.git("rebase", "--continue")
                else:
                    rc, _, err = r.git("commit", "-q", "-m", "c-cas")
            finally:
                if con is not None:
                    con.execute("ROLLBACK"); con.close()
            obs["commit_seconds"] = round(time.time() - t0, 2)
            assert rc == 0, f"commit failed: {err[-300:]}"
            if fault[0] == "nodb":
                shutil.rmtree(db, ignore_errors=True)
                os.rename(db + ".away", db)
        except AssertionError as e:
            obs["errors"].append(f"scenario step failed: {e}")
        except Exception as e:
            obs["errors"].append(f"scenario error: {e!r}")
        head = r.head()
        blobs, ncommits = notes_blobs(r)
        obs["blobs"], obs["notes_commits"] = len(blobs), ncommits
        note = r.note(head) if head else None
        obs["head_has_note"] = note is not None
        prompts = {}
        if note and note["meta"] and isinstance(note["meta"].get("prompts"), dict):
            for pid, p in note["meta"]["prompts"].items():
                prompts[pid] = {"messages": p.get("messages") or [], "url": p.get("messages_url")}
        obs["note_prompts"] = prompts
        hits = []
        for oid, body in blobs.items():
            for x in sess:
                for k, c in x["canaries"].items():
                    if c in body:
                        hits.append({"blob": oid, "session": x["i"], "where": k, "value": c})
        obs["hits"] = hits
        queued = []
        try:
            con = sqlite3.connect(db, timeout=30)
            rows = con.execute("SELECT hash, data FROM cas_sync_queue").fetchall()
            con.close()
            for h, data in rows:
                for x in sess:
                    if x["canaries"]["User"] in (data or ""):
                        queued.append({"session": x["i"], "hash": h})
        except Exception as e:
            obs["errors"].append(f"queue read: {e!r}")
        obs["queued"] = queued
        obs["ncmd"] = env.ncmd
    return obs


def cas_model(obs):
    """the Lean model's `Default` arm on the prompt map this scenario hands to the filter (map order = key order),
    with the injected outcome vector; returns (request, {hash: {"messages": n, "url": bool}}, predicted queued set)"""
    path, n, silent, fault = obs["spec"]
    sess = sorted(obs["sessions"], key=lambda x: x["hash"])          # BTreeMap<String, PromptRecord> order
    committed_first = {0} if path == "amend" else set()
    prompts, outs, queued = [], [], set()
    failing = set(fault[1]) if fault[0] == "trigger" else (set(range(n)) if fault[0] in ("lock", "nodb") else set())
    failed = False
    for x in sess:
        first = x["i"] in committed_first
        msgs = [] if first else [{"k": m["type"], "text": m["text"]} for m in x["messages"]]
        # a session committed before carries its url from the existing note and no messages
        prompts.append({"id": x["hash"], "messages": msgs, "url": "PREV" if (first and x["messages"]) else None})
        if first and x["messages"]:
            queued.add(x["i"])
        if msgs:
            if x["i"] in failing:
                outs.append({"k": "enqueue_err"}); failed = True
            else:
                outs.append({"k": "ok", "url": f"U{x['i']}"})
                if not failed:
                    queued.add(x["i"])
    req = {"op": "rd_default_arm", "prompts": prompts, "verdicts": [], "should_enqueue": True, "db_opens": True, "outs": outs}
    resp = C.run_driver([req])[0]
    pred = None
    if isinstance(resp, dict) and "ok" in resp:
        pred = {p["id"]: {"messages": len(p["messages"]), "url": p["url"] is not None} for p in resp["ok"]["prompts"]}
    return req, pred, queued, resp


def cas_judge(res, obs, name="e2e-cas"):
    """oracles + model tie for one CAS scenario; returns True when the scenario was valid"""
    path, n, silent, fault = obs["spec"]
    key = f"cas|{path}|n={n}|silent={silent}|{fault[0]}:{','.join(map(str, fault[1])) if len(fault) > 1 else ''}"
    res.count_case(key)
    res.tag([f"cas-path={path}", f"cas-sessions={n}", f"cas-fault={fault[0]}", f"cas-failing={len(fault[1]) if len(fault) > 1 else 'all' if fault[0] != 'none' else 0}",
             f"cas-silent={'yes' if silent is not None else 'no'}"])
    if obs["errors"] or not obs.get("blobs") or not obs.get("head_has_note"):
        res.broken_tie(f"{name}: scenario {key} did not exercise its note writer",
                       {"errors": obs["errors"], "blobs": obs.get("blobs"), "head_has_note": obs.get("head_has_note")})
        return False
    w = {"cas": obs["spec"], "hits": obs["hits"][:6], "note_prompts": {k: {"messages": len(v["messages"]), "url": v["url"]} for k, v in obs["note_prompts"].items()},
         "recipe": "vlib/props/c08.py: run_cas_scenario(spec=witness['cas'], seed) — prompt_storage=default, GIT_AI_API_BASE_URL set, "
                   "sqlite fault on cas_sync_queue during the commit; ./check C08 --replay <this file> re-runs it"}
    # ---- property oracle (no model involved)
    if obs["hits"]:
        res.oracle_failure(f"transcript-in-notes:cas-{path}", w,
                           what=f"mode default with CAS upload, fault {fault}: conversation text reachable from refs/notes/ai after {path}")
    elif any(v["messages"] for v in obs["note_prompts"].values()):
        res.oracle_failure(f"transcript-in-notes:cas-{path}", w,
                           what=f"mode default with CAS upload, fault {fault}: a note carries messages after {path}")
    # ---- model tie: which records have messages / a messages_url; which sessions reached the queue
    req, pred, queued, resp = cas_model(obs)
    seen = {pid: {"messages": len(v["messages"]), "url": v["url"] is not None} for pid, v in obs["note_prompts"].items()}
    if pred is not None:
        res.tag([f"cas-model-urls={sum(1 for v in pred.values() if v['url'])}/{len(pred)}"])
    if pred is None or pred != seen:
        res.broken_tie(f"{name}: Default arm of apply_prompt_storage_mode vs model ({key})", {"req": req, "model": pred if pred is not None else resp, "note": seen})
    got_q = {q["session"] for q in obs["queued"]}
    if got_q != queued:
        res.broken_tie(f"{name}: injected enqueue outcomes vs cas_sync_queue ({key})", {"expected_sessions_in_queue": sorted(queued), "found": sorted(got_q)})
    if fault[0] == "lock" and obs.get("commit_seconds", 0) < 4.0:
        res.broken_tie(f"{name}: the BEGIN IMMEDIATE lock did not delay the commit ({key})", {"seconds": obs.get("commit_seconds")})
    for pid, v in obs["note_prompts"].items():
        if v["url"] and not v["url"].startswith(CAS_API + "/cas/"):
            res.broken_tie(f"{name}: messages_url shape ({key})", v["url"])
    return True


def phase_cas_collect(res, futs, tier, seed, name="e2e-cas"):
    results = []
    for spec, f in futs:
        try:
            results.append(f.result())
        except Exception as e:
            results.append({"spec": list(spec[:3]) + [list(spec[3])], "errors": [f"runner: {e!r}"], "sessions": [], "hits": [], "note_prompts": {}, "queued": []})
    for k, o in enumerate(results):      # a scenario that did not reach its writer is retried once, alone
        if o["errors"] or not o.get("blobs") or not o.get("head_has_note"):
            try:
                o2 = run_cas_scenario(o["spec"], seed)
                o2["retried_after"] = o["errors"][:2]
                results[k] = o2
            except Exception as e:
                o["errors"].append(f"retry: {e!r}")
    valid = sum(1 for o in results if cas_judge(res, o, name))
    res.obligation(f"{name}: every CAS-upload scenario reached its note writer ({valid}/{len(results)})", valid == len(results), "correspondence")
    res.extra.setdefault("e2e_cas", {}).update({
        "scenarios": len(results), "valid": valid, "commands": sum(o.get("ncmd", 0) for o in results),
        "faults": sorted({o["spec"][3][0] for o in results}),
        "what": "prompt_storage=default + GIT_AI_API_BASE_URL: 2-4 sessions per commit / amend; per-session INSERT failures injected by a "
                "sqlite trigger on cas_sync_queue, a BEGIN IMMEDIATE lock held by a second connection, or an unopenable database; "
                "oracle = blob walk of refs/notes/ai + messages per prompt; tie = Lean Default arm on the same prompt map and outcome vector"})
    for o in results[:2]:
        res.sample({"e2e_cas": {k: o.get(k) for k in ("spec", "hits", "queued", "commit_seconds")},
                    "note": {k: {"messages": len(v["messages"]), "url": bool(v["url"])} for k, v in o.get("note_prompts", {}).items()}})
    return results


def phase_cas_start(ex, tier, seed):
    """submit the CAS scenarios (the lock scenario waits out rusqlite's 5 s busy timeout twice: it runs beside the others)"""
    return [(spec, ex.submit(run_cas_scenario, [spec[0], spec[1], spec[2], list(spec[3])], seed)) for spec in cas_plan(tier, seed)]


def replay_cli(path, spec):
    """./check C08 --replay <file>: a CAS witness is re-executed exactly; anything else re-runs the recorded tier/seed"""
    m = re.search(r"-(\d+)-(quick|thorough)\.json$", path)
    seed = int(spec.get("seed") or (m.group(1) if m else 1))
    tier = spec.get("tier") or (m.group(2) if m else "quick")
    w = spec.get("witness") or {}
    if isinstance(w, dict) and "cas" in w:
        ok, out = C.build_git_ai()
        if not ok:
            print("build of git-ai failed"); return 2
        obs = run_cas_scenario(w["cas"], seed)
        res = C.Result(PROP, "replay", seed)
        cas_judge(res, obs, "replay")
        print(json.dumps({"spec": obs["spec"], "hits": obs["hits"], "errors": obs["errors"],
                          "note_prompts": {k: {"messages": len(v["messages"]), "url": v["url"]} for k, v in obs["note_prompts"].items()}}, indent=1))
        if res.violations:
            print(f"VIOLATION property={PROP} replay={path}"); return 1
        print("replay: the recorded input no longer fails"); return 0
    return run(tier, seed)


# ---------------------------------------------------------------- entry

def run(tier, seed):
    res = C.Result(PROP, tier, seed)
    res.rule = ("in-process: one case = one request sent to both the real function and the Lean model "
                "(effective_prompt_storage on Config values x scratch repositories with 0-3 remotes; PromptStorageMode::from_str; "
                "extract_tokens / redact_secret / redact_secrets_in_text / redact_secrets_from_prompts / strip_prompt_messages on "
                "generated texts with tokens at lengths 14/15/16/89/90/91, adjacent tokens, multi-byte neighbours, '=' padding; "
                "redact_secrets_in_json (through redact_secrets_from_prompts on one ToolUse message) on generated JSON values: depth 0-6 "
                "and chains of 30-70 levels, unicode / empty / credential-like keys, keys and leaves at the window boundaries, numbers "
                "with 18 digits, booleans, null, keys whose masked forms collide; values travel in a tagged exact form; the "
                "real classifier's verdict per token travels in the request); end-to-end: one case = one (note-writing path, "
                "prompt-storage configuration, agent kind) scenario on the real binary, oracle over every blob reachable from "
                "refs/notes/ai; e2e-cas: one case = one (commit|amend, number of sessions, session without transcript, "
                "sqlite fault = set of sessions whose queue INSERT fails | lock | unopenable db) scenario in mode default with CAS "
                "upload, judged by the blob walk and compared with the Lean Default arm run on the same prompt map and outcome "
                "vector; distinct = distinct request JSON / scenario key")
    res.trusted = ["Lean 4.33 kernel (axioms: propext, Quot.sound, Classical.choice only)",
                   "extract/storage_mode_table.py (call-site inventory, working-log taint by unique function name, filter shape, "
                   "control flow of the upload loop: `?` vs continue, clear after enqueue, single caller, only Ok is the final one)",
                   "harness/src/suites/c08.rs generators, reference redaction and canonicalisation",
                   "vlib/props/c08.py scenarios and blob walk; vlib/e2e.py",
                   "glob::Pattern::matches and is_random are opaque inputs of the model (their real results travel in the requests)"]
    res.assumptions = ["the effective mode is fixed during a history (mode changes mid-history are out of scope)",
                       "inside a tool_use input only strings (leaves and object keys) are masked: a credential stored as a JSON number, the "
                       "tool NAME and message timestamps are never rewritten by the code (identifiers / metadata, outside the theorems)",
                       "to_lowercase modelled on ASCII letters (no other char lower-cases to a letter of default/notes/local)",
                       "the outcome of every enqueue_cas_object call, serde_json::to_value and of opening the database is an input of "
                       "the model (any vector); sqlite itself is not modelled",
                       "refs/notes/ai-stash is local-only (never in a push refspec); its content is not covered by the property"]
    x = phase_extract(res)
    if x is not None:
        # the CAS-upload scenarios drive every writer that runs the filter (commit → post_commit, amend → rewrite_…_commit_amend)
        filtering = sorted(r["name"] for r in x["rows"] if r["filters"])
        covered = sorted(CAS_WRITERS.values())
        res.obligation(f"e2e-cas: scenarios cover every filtering writer of the table ({filtering})", filtering == covered, "extraction")
        if filtering != covered:
            res.broken_tie("e2e-cas: filtering writers vs CAS scenario paths", {"table": filtering, "scenarios": CAS_WRITERS})
    C.phase_proofs(res, PROP, THEOREMS)
    ok, out = C.build_harness()
    if not ok:
        res.obligation("build harness against the working tree", False, "build")
        res.broken_tie("harness build", out[-3000:])
        return res.finish()
    n = 4000 if tier == "quick" else 250000
    corpus = os.path.join(C.VERIF, "corpus", "C08", "cases.jsonl")
    bad, newfail = C.phase_suite(res, "c08", seed, n, corpus)
    cas_ok, _ = C.build_git_ai()
    cas_ex = concurrent.futures.ThreadPoolExecutor(6)
    cas_futs = phase_cas_start(cas_ex, tier, seed) if cas_ok else []
    phase_e2e(res, tier, seed)
    if cas_ok:
        phase_cas_collect(res, cas_futs, tier, seed)
    cas_ex.shutdown(wait=True)
    if res.broken and not res.violations:
        # a tie broke (extractor shape / theorem / model≠code / scenario): search harder for a failing input
        for s in range(seed + 1000, seed + 1003):
            C.phase_suite(res, "c08", s, 20000, None, name=f"search:c08:{s}")
            if res.violations:
                break
        if not res.violations and cas_ok:
            with concurrent.futures.ThreadPoolExecutor(8) as ex:
                phase_cas_collect(res, phase_cas_start(ex, "thorough", seed + 1), "thorough", seed + 1, name="search:e2e-cas")
        if not res.violations:
            phase_e2e(res, "thorough", seed + 1, name="search:e2e")
        res.extra["search"] = ("3 extra seeds x 20000 cases of the c08 generators with all oracles on the implementation, then the thorough "
                               "CAS-upload fault matrix and the thorough end-to-end matrix (every path x every include/exclude configuration x both agent kinds)")
    return res.finish()
