"""C09 — AI blame is git blame plus the notes, in every output format (DESIGN §8 C09).

Phases: proofs (Props/C09.lean) · in-process suite `c09` (real porcelain parser / path un-quoting vs
the Lean model on generated adversarial text, oracles on git's grammar) · end-to-end: generated small
histories on the real binary; the expected overlay is recomputed in Python from plain
`git blame --line-porcelain` + the raw notes (original path, original line), compared with
`git-ai blame` in every output format, with the Lean overlay model and (older revisions, -w,
ignore-revs through the library API) with `Repository::blame_analysis` via the harness."""
import concurrent.futures, json, os, random, re, subprocess, traceback

from vlib import common as C
from vlib import e2e
from vlib.props import c09_util as U

PROP = "C09"
THEOREMS = [
    "GitAi.BlameOverlay.parse_render",
    "GitAi.BlameOverlay.parse_render_text",
    "GitAi.BlameOverlay.filename_roundtrip",
    "GitAi.BlameOverlay.overlay_spec",
    "GitAi.BlameOverlay.rename_invariant",
    "GitAi.BlameOverlay.rename_witness_fixed",
    "GitAi.BlameOverlay.formats_agree",
    "GitAi.BlameOverlay.json_key_roundtrip",
    "GitAi.BlameOverlay.json_ai_lines",
    "GitAi.BlameOverlay.json_lists_exactly_credited",
    "GitAi.BlameOverlay.show_prompt_human_unchanged",
    "GitAi.BlameOverlay.name_clash_fixed",
    "GitAi.BlameRange.l_arg_spec",
    "GitAi.BlameRange.l_arg_witnesses",
]
CORPUS_DIR = os.path.join(C.VERIF, "corpus", "C09")

# 'ta\tb.txt' and 'q"uote.txt' are C-quoted by git under either core.quotePath setting, the CJK names under
# the default one (a name with a backslash is not used: `git-ai checkpoint` does not pick such a file up)
NAMES = ["f.txt", "src/main.rs", "sp ace.txt", "日本.txt", "-dash.txt", "deep/er/x.py", "q'uote.md", "ta\tb.txt", 'q"uote.txt']
RENAMES = ["g.txt", "src/lib.rs", "new name.txt", "本日.txt", "moved/y.py", "-other.txt", 'new"q\tt.txt']
CQUOTED = {"日本.txt", "本日.txt", "ta\tb.txt", 'q"uote.txt', 'new"q\tt.txt'}
TOOLS = ["toolA", "toolB", "mock_agent"]


def ai_path(name):
    return "./" + name if name.startswith("-") else name


# ---------------------------------------------------------------- scenario construction

class Scn:
    def __init__(self, env, rng, sid, script=None):
        self.env, self.rng, self.sid = env, rng, sid
        self.r = env.repo("r")
        self.files = []
        self.counter = 0
        self.log = []            # human readable op log (replay witness)
        self.commits = []        # shas in creation order on main
        self.ws_commits = []     # whitespace-only commits (ignore-rev candidates)
        self.tags = set()
        self.script = script
        self.nren = {}           # file -> how many times it has been renamed

    def fresh(self, k):
        out = []
        for _ in range(k):
            self.counter += 1
            out.append(f"line {self.counter} {self.rng.choice(['alpha', 'beta', 'gamma', 'x = 1;', '{', '}', 'deadbeef 1 2 3', 'author x'])} stuffing{self.counter}")
        return out

    def read_lines(self, name):
        t = self.r.read(name)
        ls = t.split("\n")
        if ls and ls[-1] == "":
            ls.pop()
        return ls

    def write_lines(self, name, ls):
        self.r.write(name, "".join(l + "\n" for l in ls))

    def edit(self, name):
        ls = self.read_lines(name)
        kind = self.rng.choice(["insert", "insert", "replace", "append", "delete+insert"])
        k = self.rng.randint(1, 3)
        if kind == "insert" or not ls:
            p = self.rng.randint(0, len(ls))
            ls[p:p] = self.fresh(k)
        elif kind == "replace":
            p = self.rng.randrange(len(ls))
            ls[p:p + k] = self.fresh(k)
        elif kind == "append":
            ls += self.fresh(k)
        else:
            p = self.rng.randrange(len(ls))
            del ls[p:p + 1]
            q = self.rng.randint(0, len(ls))
            ls[q:q] = self.fresh(k)
        self.write_lines(name, ls)
        return kind

    def commit(self, msg):
        sha = self.r.commit(msg)
        if sha:
            self.commits.append(sha)
        return sha

    # ---- ops
    def op_init(self):
        n = self.rng.randint(1, 3)
        self.files = self.rng.sample(NAMES, n)
        for f in self.files:
            self.write_lines(f, self.fresh(self.rng.randint(2, 6)))
        if self.rng.random() < 0.15:
            self.r.write("empty.txt", "")
            self.files.append("empty.txt")
            self.tags.add("empty-file")
        self.log.append(["init", list(self.files)])
        self.commit("initial import of the files")

    def op_ai(self):
        f = self.rng.choice([x for x in self.files if x != "empty.txt"] or self.files)
        nsess = 1 if self.rng.random() < 0.7 else 2
        used = []
        for _ in range(nsess):
            sess = f"s{self.rng.randint(1, 3)}"
            tool = TOOLS[int(sess[1:]) - 1]
            kind = self.edit(f)
            self.r.ai_checkpoint(sess, [f], tool=tool)
            used.append([sess, tool, kind])
        human_after = self.rng.random() < 0.3
        if human_after:
            self.edit(f)
        self.log.append(["ai", f, used, human_after])
        self.tags.add("ai-edit")
        if nsess > 1:
            self.tags.add("two-sessions-one-commit")
        self.commit(f"ai edit of {f} by {used[0][0]} and more words")

    def op_human(self):
        f = self.rng.choice(self.files)
        self.edit(f)
        self.log.append(["human", f])
        self.commit("human change fix the bug now")

    def op_rename(self):
        f = self.rng.choice(self.files)
        cands = [x for x in RENAMES if x not in self.files]
        if not cands:
            return
        g = self.rng.choice(cands)
        os.makedirs(os.path.dirname(os.path.join(self.r.path, g)) or self.r.path, exist_ok=True)
        rc, _, err = self.r.git("mv", "--", f, g)
        if rc != 0:
            return
        edit = self.rng.random() < 0.3 and f != "empty.txt"
        if edit:
            self.edit(g)
        self.files[self.files.index(f)] = g
        self.nren[g] = self.nren.pop(f, 0) + 1
        if self.nren[g] >= 2:
            self.tags.add("renamed-twice")
        self.log.append(["rename", f, g, edit])
        self.tags.add("rename+edit" if edit else "pure-rename")
        self.commit(f"rename {f}")

    def op_copy(self):
        f = self.rng.choice(self.files)
        cands = [x for x in RENAMES if x not in self.files]
        if not cands:
            return
        g = self.rng.choice(cands)
        self.write_lines(g, self.read_lines(f))
        self.files.append(g)
        self.log.append(["copy", f, g])
        self.tags.add("copy")
        self.commit(f"copy {f}")

    def op_move(self):
        """a human moves a block of lines inside one file (what `git blame -M` detects)"""
        cands = [x for x in self.files if x != "empty.txt" and len(self.read_lines(x)) >= 5]
        if not cands:
            return
        f = self.rng.choice(cands)
        ls = self.read_lines(f)
        k = min(3, len(ls) - 2)
        p = self.rng.randint(0, len(ls) - k)
        blk = ls[p:p + k]
        del ls[p:p + k]
        qs = [q for q in range(len(ls) + 1) if q != p]
        q = self.rng.choice(qs)
        ls[q:q] = blk
        self.write_lines(f, ls)
        self.log.append(["move", f, p, k, q])
        self.tags.add("move-in-file")
        self.commit("move a block around")

    def op_xmove(self):
        """a human moves a block of lines from one file to another in one commit (`git blame -C`)"""
        cands = [x for x in self.files if x != "empty.txt" and len(self.read_lines(x)) >= 4]
        if not cands or len(self.files) < 2:
            return
        f = self.rng.choice(cands)
        g = self.rng.choice([x for x in self.files if x != f])
        ls = self.read_lines(f)
        k = min(3, len(ls) - 1)
        p = self.rng.randint(0, len(ls) - k)
        blk = ls[p:p + k]
        del ls[p:p + k]
        self.write_lines(f, ls)
        gl = self.read_lines(g)
        q = self.rng.randint(0, len(gl))
        gl[q:q] = blk
        self.write_lines(g, gl)
        self.log.append(["xmove", f, p, k, g, q])
        self.tags.add("move-across-files")
        self.commit("move a block to another file")

    def op_ws(self):
        f = self.rng.choice([x for x in self.files if x != "empty.txt"] or self.files)
        ls = self.read_lines(f)
        if not ls:
            return
        for i in range(len(ls)):
            if self.rng.random() < 0.6:
                ls[i] = "    " + ls[i].replace(" ", "  ", 1)
        self.write_lines(f, ls)
        self.log.append(["whitespace", f])
        self.tags.add("whitespace-commit")
        sha = self.commit("reindent")
        if sha:
            self.ws_commits.append(sha)

    def op_merge(self):
        if len(self.commits) < 2:
            return
        base = self.rng.choice(self.commits[:-1])
        r = self.r
        if r.plain_git("checkout", "-q", "-b", f"side{len(self.commits)}", base)[0] != 0:
            return
        rc, out, _ = r.plain_git("ls-files", "-z")
        present = [x for x in out.split("\0") if x]
        if not present:
            r.plain_git("checkout", "-q", "main")
            return
        f = self.rng.choice(present)
        ai = self.rng.random() < 0.6
        ls = self.read_lines(f)
        ls += self.fresh(2)
        self.write_lines(f, ls)
        if ai:
            self.r.ai_checkpoint("s3", [f], tool=TOOLS[2])
        r.commit("side branch work")
        r.plain_git("checkout", "-q", "main")
        rc, out, err = r.git("merge", "--no-ff", "-q", "-m", "merge side branch", f"side{len(self.commits)}")
        if rc != 0:
            r.git("merge", "--abort")
            self.log.append(["merge-aborted", base, f])
            return
        self.log.append(["merge", base, f, ai])
        self.tags.add("merge")
        h = r.head()
        if h:
            self.commits.append(h)
        rc, out, _ = r.plain_git("ls-files", "-z")
        self.files = [x for x in out.split("\0") if x]

    def op_craft(self, variant=None):
        """rewrite the note of a commit that credits some lines, in adversarial but valid ways"""
        r = self.r
        cands = []
        for sha in self.commits:
            t = r.note_text(sha)
            if t and "\n---\n" in "\n" + t and not t.lstrip().startswith("---"):
                cands.append((sha, t))
        if not cands:
            return
        sha, t = self.rng.choice(cands)
        head, _, meta_t = t.partition("\n---\n")
        try:
            meta = json.loads(meta_t)
        except Exception:
            return
        hl = head.split("\n")
        variant = variant or self.rng.choice(["overlap", "unresolved-last", "foreign", "dup-section", "bad-schema", "no-divider", "human-named-like-hash"])
        # first section's first entry
        ent = next((i for i, l in enumerate(hl) if l.startswith("  ")), None)
        if ent is None:
            return
        first_path_line = hl[ent - 1]
        h0, _, rs0 = hl[ent][2:].partition(" ")
        first_line = rs0.split(",")[0].split("-")[0]
        if variant == "overlap":
            h2 = e2e.short_hash("crafted", "toolB")
            hl.insert(ent + 1, f"  {h2} {first_line}")
            rec = json.loads(json.dumps(meta["prompts"].get(h0) or next(iter(meta["prompts"].values()), None)))
            if rec is None:
                return
            rec["agent_id"] = {"tool": "toolB", "id": "crafted", "model": "m"}
            meta["prompts"][h2] = rec
        elif variant == "unresolved-last":
            hl.insert(ent + 1, f"  deadbeefdeadbeef {rs0}")
        elif variant == "foreign":
            others = [s for s in self.commits if s != sha and r.note_text(s)]
            if not others or h0 not in meta["prompts"]:
                return
            # only if no other note already mentions the hash (keeps the grep-based lookup unambiguous)
            if any(f'"{h0}"' in (r.note_text(s) or "") for s in others):
                return
            o = self.rng.choice(others)
            ot = r.note_text(o)
            oh, _, om = ot.partition("\n---\n") if not ot.lstrip().startswith("---") else ("", "", ot.lstrip()[4:])
            try:
                ometa = json.loads(om)
            except Exception:
                return
            ometa.setdefault("prompts", {})[h0] = meta["prompts"].pop(h0)
            self._write_note(o, (oh + "\n---\n" if oh else "---\n") + json.dumps(ometa, indent=2))
        elif variant == "dup-section":
            h2 = h0
            hl += [first_path_line, f"  {h2} 1-400"]
        elif variant == "bad-schema":
            meta["schema_version"] = "authorship/2.0.0"
        elif variant == "no-divider":
            self._write_note(sha, head + "\n" + meta_t.replace("---", "- -"))
            self.log.append(["craft", variant, sha])
            self.tags.add("craft:" + variant)
            return
        elif variant == "human-named-like-hash":
            # a human commit whose author name equals a session hash recorded in this file
            f = first_path_line[1:-1] if first_path_line.startswith('"') else first_path_line
            if f not in self.files:
                return
            self.edit(f)
            rc, _, _ = r.git("add", "-A")
            rc, _, _ = r.git("-c", f"user.name={h0}", "commit", "-q", "-m", "by a person with an odd name",
                             env={"GIT_AUTHOR_NAME": h0, "GIT_COMMITTER_NAME": h0})
            h = r.head()
            if rc == 0 and h:
                self.commits.append(h)
                self.log.append(["craft", variant, h0, f])
                self.tags.add("craft:" + variant)
            return
        self._write_note(sha, "\n".join(hl) + "\n---\n" + json.dumps(meta, indent=2))
        self.log.append(["craft", variant, sha])
        self.tags.add("craft:" + variant)

    def _write_note(self, sha, text):
        p = os.path.join(self.env.root, "note.tmp")
        with open(p, "w") as f:
            f.write(text)
        self.r.plain_git("notes", "--ref=ai", "add", "-f", "-F", p, sha)

    def build(self):
        self.op_init()
        if self.script:
            for op in self.script:
                name, _, arg = op.partition(":")
                if arg:
                    getattr(self, "op_" + name)(arg)
                else:
                    getattr(self, "op_" + name)()
            return
        nops = self.rng.randint(3, 7)
        ops = ["ai", "ai", "ai", "human", "rename", "rename", "copy", "ws", "merge", "craft", "move", "xmove"]
        for _ in range(nops):
            getattr(self, "op_" + self.rng.choice(ops))()
        if not (self.tags & {"ai-edit"}):
            self.op_ai()


# ---------------------------------------------------------------- expected overlay

class Notes:
    """raw notes of a repository, parsed lazily; foreign prompt resolution as the code does it
    (a hash not in the note's own prompts is looked up in the newest other note mentioning it)."""

    def __init__(self, r):
        self.r = r
        self.raw = {}
        self.parsed = {}
        self.all = None

    def get(self, sha):
        if sha not in self.parsed:
            t = self.r.note_text(sha)
            self.raw[sha] = t
            n = U.parse_note_sections(t) if t and t.strip() else None
            if n is not None and (not n["ok"] or n["schema"] != U.SCHEMA):
                n = None
            self.parsed[sha] = n
        return self.parsed[sha]

    def foreign(self, h):
        """→ (record|None, ambiguous)"""
        if self.all is None:
            self.all = {}
            for sha in self.r.notes_list():
                self.all[sha] = self.r.note_text(sha) or ""
        hits = [sha for sha, t in self.all.items() if f'"{h}"' in t]
        recs = []
        for sha in hits:
            n = U.parse_note_sections(self.all[sha])
            recs.append(n["prompts"].get(h) if n["ok"] else None)
        have = [x for x in recs if x]
        if not hits or not have:
            return None, (len(hits) > 0 and False)
        if len(have) != len(recs):
            return have[0], True
        return have[0], False


def expected_overlay(notes, blines):
    """per final line: ("ai", hash, tool) | ("human", author) | ("ambiguous",)"""
    out = {}
    fcache = {}
    for bl in blines:
        n = notes.get(bl["commit"])
        if n is None:
            out[bl["final"]] = ("human", bl["author"])
            continue
        foreign = {}
        amb = False
        for (p, entries) in n["sections"]:
            if p == bl["filename"]:
                for (h, nums) in entries:
                    if h not in n["prompts"] and bl["orig"] in nums:
                        if h not in fcache:
                            fcache[h] = notes.foreign(h)
                        rec, a = fcache[h]
                        amb = amb or a
                        if rec:
                            foreign[h] = rec
                break
        if amb:
            out[bl["final"]] = ("ambiguous",)
            continue
        c = U.credit(n, foreign, bl["filename"], bl["orig"])
        if c:
            out[bl["final"]] = ("ai", c[0], (c[1].get("agent_id") or {}).get("tool", ""))
        else:
            out[bl["final"]] = ("human", bl["author"])
    return out


def model_notes(notes, blines):
    """notes + foreign table in the driver's JSON shape for the commits of `blines`"""
    js, foreign, seen = [], {}, set()
    for bl in blines:
        sha = bl["commit"]
        if sha in seen:
            continue
        seen.add(sha)
        n = notes.get(sha)
        if n is None:
            continue
        files = []
        for (p, entries) in n["sections"]:
            files.append({"path": p, "entries": [{"hash": h, "ranges": [[x] for x in nums]} for (h, nums) in entries]})
            for (h, _) in entries:
                if h not in n["prompts"] and h not in foreign:
                    rec, amb = notes.foreign(h)
                    if rec and not amb:
                        foreign[h] = rec
        prompts = [{"hash": h, "tool": (rec.get("agent_id") or {}).get("tool", ""), "human_author": rec.get("human_author")}
                   for h, rec in n["prompts"].items()]
        js.append({"sha": sha, "files": files, "prompts": prompts})
    fj = [{"hash": h, "tool": (rec.get("agent_id") or {}).get("tool", ""), "human_author": rec.get("human_author")}
          for h, rec in foreign.items()]
    return js, fj


# ---------------------------------------------------------------- one query against the binary

def run_query(scn, notes, fname, opts, rev_label, out, r=None, ai_tail=None, may_refuse=None, ignored_ok=None,
              extra_tags=()):
    """opts: list of CLI options for plain `git blame` (the reference); git-ai blame gets the same options
    followed by the path, or `ai_tail` when given.
    may_refuse=<family>: a form git-ai blame may not support — it must then refuse (non-zero exit, nothing on
    stdout); when it answers, the answer is held to the same comparison as every other query.
    ignored_ok=<plain opts>: move/copy detection family — see the classification below."""
    r = r or scn.r
    q = {"scenario": scn.sid, "file": fname, "opts": opts, "rev": rev_label}
    rc, ptxt, perr = r.plain_git("blame", "--line-porcelain", *opts, "--", fname)
    if rc != 0:
        out["skipped"] += 1
        return
    ap = ai_path(fname)
    if ai_tail is None:
        ai_tail = [*opts, ap]
    else:
        q["ai_args"] = ai_tail

    def ai_blame(*flags):
        return r.ai("blame", *flags, *ai_tail)
    try:
        blines, groups = U.parse_line_porcelain(ptxt)
    except Exception as e:
        out["fail"].append(("harness:git-porcelain-unparsable", q, str(e)))
        return
    exp = expected_overlay(notes, blines)
    by_final = {bl["final"]: bl for bl in blines}
    renamed = any(bl["filename"] != fname for bl in blines)
    ai_n = sum(1 for v in exp.values() if v[0] == "ai")
    tags = [f"opts:{'+'.join(sorted(set(o for o in opts if o.startswith('-')))) or 'none'}",
            f"rev:{'head' if rev_label == 'HEAD' else ('shallow-clone' if str(rev_label).startswith('shallow') else 'older')}"]
    tags += list(extra_tags)
    nL = sum(1 for o in opts if o == "-L")
    if nL > 1:
        tags.append("L:several-ranges")
    if fname in CQUOTED or any(bl["filename"] in CQUOTED for bl in blines):
        tags.append("c-quoted-path")
    if len({bl["filename"] for bl in blines} | {fname}) >= 3:
        tags.append("lines-from-two-older-paths")
    if renamed:
        tags.append("lines-from-other-path")
    if ai_n:
        tags.append("has-ai-lines")
    if any(bl["boundary"] for bl in blines):
        tags.append("boundary-lines")
    if not blines:
        tags.append("no-lines")
    out["tags"] += tags
    out["queries"] += 1
    key = json.dumps([scn.log, fname, opts, rev_label], ensure_ascii=False)
    out["keys"].append(key)
    wit = dict(q, ops=scn.log)

    def fail(sig, what, **kw):
        out["fail"].append((sig, dict(wit, **kw), what))

    if may_refuse:
        rc, jt, jerr = ai_blame("--json")
        if rc != 0:
            out["tags"].append(f"refused:{may_refuse}")
            if jt.strip():
                fail("exit:refusal-with-output", f"git-ai blame refuses {ai_tail} (exit {rc}) but prints an answer", output=jt[:300])
            return
        out["tags"].append(f"answered:{may_refuse}")
    if ignored_ok is not None:
        # `-M` / `-C`: parse_blame_args accepts them, blame_hunks_for_ranges does not pass them to git blame
        # (known finding opts:move-copy-detection-ignored). Classified only when git-ai's commits are exactly
        # those of plain git blame WITHOUT the flag while git blame WITH the flag names other commits.
        rc0, ptxt0, _ = r.plain_git("blame", "--line-porcelain", *ignored_ok, "--", fname)
        if rc0 == 0:
            map0 = {bl["final"]: bl["commit"] for bl in U.parse_line_porcelain(ptxt0)[0]}
            mapf = {bl["final"]: bl["commit"] for bl in blines}
            if map0 != mapf:
                out["tags"].append("move-copy:changes-git-answer")
                rc1, pt1, _ = ai_blame("--line-porcelain")
                if rc1 == 0 and U.porcelain_commits(pt1) == map0:
                    d = sorted(l for l in mapf if mapf[l] != map0.get(l))
                    fail("opts:move-copy-detection-ignored",
                         "git-ai blame accepts -M / -C but answers as if the flag were absent (git blame with the flag names other commits)",
                         lines=d[:10], git_with_flag={str(l): mapf[l][:8] for l in d[:10]}, git_ai={str(l): map0[l][:8] for l in d[:10]})
                    return
            else:
                out["tags"].append("move-copy:no-effect-here")

    # an empty file has no line to attribute: git blame prints nothing; git-ai blame refuses it
    # ("Invalid line range: 1:0", asserted by /repo tests/blame_comprehensive.rs test_blame_edge_empty_file).
    # C09 speaks about lines, so this is recorded as an observation, not as a failure.
    if not blines:
        rc, _, jerr = ai_blame("--json")
        out["tags"].append("observation:empty-file-exit-%d" % rc)
        return
    # ---- JSON
    rc, jt, jerr = ai_blame("--json")
    got_json = None
    if rc != 0:
        fail("exit:git-ai-json-fails", f"git blame succeeds but git-ai blame --json exits {rc}: {jerr.strip()[:200]}")
    else:
        try:
            got_json = U.expand_json_lines(json.loads(jt))
        except Exception as e:
            fail("format:json-unparsable", str(e), output=jt[:400])
    exp_ai = {l: v[1] for l, v in exp.items() if v[0] == "ai"}
    amb = {l for l, v in exp.items() if v[0] == "ambiguous"}
    # a human author whose *name* is a session hash credited in this output (repaired in /repo 05e599f7: the
    # kind of a line is kept apart from the display string) — tagged for the distribution, compared like any line
    clash = {l for l, v in exp.items() if v[0] == "human" and v[1] in set(exp_ai.values())}
    if clash:
        out["tags"].append("name-clash-lines")
    if got_json is not None:
        diff = {l for l in set(exp_ai) | set(got_json) if l not in amb and exp_ai.get(l) != got_json.get(l)}
        if diff:
            lost = [l for l in diff if l in exp_ai and l not in got_json]
            if lost and len(lost) == len(diff) and all(by_final[l]["filename"] != fname for l in lost):
                sig = "overlay:rename-loses-attribution"
            else:
                sig = "overlay:json-differs"
            fail(sig, "git-ai blame --json differs from git blame + notes (original path, original line)",
                 lines=sorted(diff)[:10], expected={str(l): exp_ai.get(l) for l in sorted(diff)[:10]},
                 got={str(l): got_json.get(l) for l in sorted(diff)[:10]},
                 porcelain=[[bl["final"], bl["orig"], bl["commit"][:8], bl["filename"]] for bl in blines if bl["final"] in diff][:10])
    # ---- default + --show-prompt
    got_sp = None
    for flag in ([], ["--show-prompt"]):
        rc, dt, derr = ai_blame(*flag)
        if rc != 0:
            fail("exit:git-ai-default-fails", f"git-ai blame {flag} exits {rc}: {derr.strip()[:200]}")
            continue
        body = dt.split("\n---\n")[0] if flag else dt
        try:
            rows = U.parse_default(body)
        except Exception as e:
            fail("format:default-unparsable", str(e))
            continue
        if sorted(rows) != sorted(by_final):
            fail("format:default-lines", "default format does not list exactly the lines git blame lists",
                 got=sorted(rows)[:20], expected=sorted(by_final)[:20])
            continue
        if flag:
            got_sp = {l: a.strip() for l, (_, a) in rows.items()}
        bad_author, bad_commit = [], []
        for l, (shacol, author) in rows.items():
            v = exp[l]
            bl = by_final[l]
            if v[0] == "ai":
                want = f"{v[2]} [{v[1][:7]}]" if flag else v[2]
            elif v[0] == "human":
                want = v[1]
            else:
                want = None
            if want is not None and author != want.strip():
                bad_author.append([l, author, want])
            marker = shacol.startswith("^")
            sha = shacol.lstrip("^")
            if not bl["commit"].startswith(sha) or len(sha) < 4:
                bad_commit.append([l, shacol, bl["commit"]])
        if bad_author:
            fail("format:default-author", f"default format {flag} shows another author than git blame + notes", rows=bad_author[:8])
        if bad_commit:
            fail("format:default-commit", "default format names another commit than git blame", rows=bad_commit[:8])
        if not flag:
            # boundary marker / abbreviation agree with git's own default output
            rc2, gt, _ = r.plain_git("blame", *opts, "--", fname)
            if rc2 == 0:
                try:
                    grows = U.parse_git_default(gt)
                    bm = [[l, rows[l][0], grows.get(l)] for l in rows
                          if grows.get(l) is None or rows[l][0].startswith("^") != grows[l].startswith("^")]
                    if bm:
                        fail("format:default-boundary-marker", "boundary marker differs from git blame", rows=bm[:8])
                except Exception as e:
                    out["notes"].append(f"git default unparsable: {e}")
            # default vs json agreement (AI-ness per line)
            if got_json is not None:
                dis = []
                for l, (_, author) in rows.items():
                    if exp[l][0] == "ambiguous":
                        continue
                    h = got_json.get(l)
                    if h is not None:
                        n = notes.get(by_final[l]["commit"])
                        rec = (n["prompts"].get(h) if n else None) or notes.foreign(h)[0]
                        tool = ((rec or {}).get("agent_id") or {}).get("tool")
                        if tool is not None and author != tool:
                            dis.append([l, author, h, tool])
                    elif author != by_final[l]["author"]:
                        dis.append([l, author, None, by_final[l]["author"]])
                if dis:
                    fail("format:json-vs-default", "JSON and default outputs disagree on a line's author", rows=dis[:8])
    # ---- porcelain family
    want_c = {l: bl["commit"] for l, bl in by_final.items()}
    for flag, inc in (("--porcelain", False), ("--line-porcelain", False), ("--incremental", True)):
        rc, pt, perr2 = ai_blame(flag)
        if rc != 0:
            fail("exit:git-ai-porcelain-fails", f"git-ai blame {flag} exits {rc}: {perr2.strip()[:200]}")
            continue
        gotc = U.porcelain_commits(pt, incremental=inc)
        if gotc != want_c:
            d = sorted(l for l in set(gotc) | set(want_c) if gotc.get(l) != want_c.get(l))
            fail(f"format:{flag.strip('-')}-commit", f"{flag} names another commit than git's own porcelain",
                 lines=d[:10], got={str(l): gotc.get(l) for l in d[:10]}, expected={str(l): want_c.get(l) for l in d[:10]})
    # ---- model requests (answered in one driver batch later)
    nj, fj = model_notes(notes, blines)
    out["model"].append({"q": q, "key": key,
                         "overlay_req": {"op": "bo_overlay", "text": ptxt, "notes": nj, "foreign": fj, "blamed": fname,
                                         "opts": {"hashes_as_names": True}},
                         "render_req": {"op": "bo_render", "full": True,
                                        "groups": [{k: v for k, v in g.items() if k != "_n"} for g in groups]},
                         "git_lines": (ptxt.split("\n")[:-1] if ptxt.endswith("\n") else ptxt.split("\n")) if ptxt else [],
                         "got_json": got_json, "got_sp": got_sp, "exp_ai": exp_ai, "amb": sorted(amb),
                         "ascii_paths": all(ord(c) < 128 for g in groups for c in g["filename"] + ((g["previous"] or ["", ""])[1]))})


def extra_queries(scn, notes, rng, out, head):
    """query families beyond plain / -L a,b / --ignore-rev, all on main's HEAD (the work tree is there):
    relative and open -L forms, several ranges, regex ranges, ignore-revs files (explicit, blame.ignoreRevsFile,
    auto-detected .git-blame-ignore-revs, --no-ignore-revs-file), -M / -C, forms git-ai may refuse (-w, a
    revision argument), and a real shallow clone (boundary commits)."""
    r = scn.r
    files = [f for f in scn.files if r.exists(f) and len(scn.read_lines(f)) >= 2]
    rng.shuffle(files)
    hot = [f for f in files if f in CQUOTED or scn.nren.get(f, 0) >= 2]
    files = (hot[:1] + [f for f in files if f not in hot[:1]])[:2]
    older = [c for c in scn.commits[:-1] if c != head]
    for f in files:
        ls = scn.read_lines(f)
        n = len(ls)
        a = rng.randint(1, n)
        k = rng.randint(1, n - a + 1)
        b = rng.randint(1, n)
        k2 = rng.randint(1, b + 1)
        # relative ends (repaired in /repo 85d0cf99) and open ends / single number (repaired in /repo 35a174f4)
        forms = [[f"{a},+{k}"], [f"{b},-{k2}"], [f"{a},"], [f",{b}"], [f"{a}"]]
        two = sorted(rng.sample(range(1, n + 1), min(n, 3)))
        if len(two) == 3:
            forms.append([f"{two[0]},{two[0]}", f"{two[1]},+1", f"{two[2]},"])
            forms.append([f"{two[2]},", f",{two[0]}"])
        for form in rng.sample(forms, min(len(forms), 4)):
            run_query(scn, notes, f, [x for part in form for x in ("-L", part)], "HEAD", out,
                      extra_tags=["L:" + "|".join("rel+" if ",+" in p else "rel-" if ",-" in p else "open-end" if p.endswith(",") else
                                                  "open-start" if p.startswith(",") else "single-number" if "," not in p else "a,b" for p in form)])
        # regex ranges: git-ai refuses them today; if it ever answers, the answer is compared
        m = re.search(r"\d+", rng.choice(ls))
        word = m.group(0) if m else "line"
        for form in ([f"/{word}/"], [f"/{word}/,+2"], [f"1,/{word}/"]):
            if rng.random() < 0.5:
                run_query(scn, notes, f, ["-L", form[0]], "HEAD", out, may_refuse="-L-regex", extra_tags=["L:regex"])
        # forms of plain git blame that git-ai's own parser may not know
        if rng.random() < 0.5:
            run_query(scn, notes, f, ["-w"], "HEAD", out, may_refuse="-w-on-cli")
        if older:
            sha = rng.choice(older)
            run_query(scn, notes, f, [sha], sha, out, ai_tail=[sha, "--", ai_path(f)], may_refuse="revision-argument")
        # move / copy detection
        for mc in (["-M"], ["-C"], ["-C", "-C"]):
            if rng.random() < 0.6:
                run_query(scn, notes, f, mc, "HEAD", out, ignored_ok=[])
        # ignore-revs files
        ign = [c for c in (scn.ws_commits + scn.commits[1:]) if c != head]
        if ign:
            picks = rng.sample(ign, min(len(ign), rng.randint(1, 2)))
            body = "# revisions to skip\n" + "".join(c + "\n" for c in picks) + "\n"
            mode = rng.choice(["explicit", "auto", "config", "auto+no"])
            ext = os.path.join(scn.env.root, "ignore-these")
            auto = os.path.join(r.path, ".git-blame-ignore-revs")
            if mode == "explicit":
                with open(ext, "w") as fh:
                    fh.write(body)
                run_query(scn, notes, f, ["--ignore-revs-file", ext], "HEAD", out, extra_tags=["ignore-revs-file:explicit"])
            elif mode == "config":
                with open(ext, "w") as fh:
                    fh.write(body)
                r.plain_git("config", "blame.ignoreRevsFile", ext)
                # plain git reads the setting itself, so the reference needs no option
                run_query(scn, notes, f, [], "HEAD+blame.ignoreRevsFile", out, extra_tags=["ignore-revs-file:config"])
                r.plain_git("config", "--unset", "blame.ignoreRevsFile")
            else:
                with open(auto, "w") as fh:
                    fh.write(body)
                if mode == "auto":
                    # git-ai picks the file up by itself; plain git needs to be told
                    run_query(scn, notes, f, ["--ignore-revs-file", auto], "HEAD+auto", out, ai_tail=[ai_path(f)],
                              extra_tags=["ignore-revs-file:auto-detected"])
                else:
                    run_query(scn, notes, f, [], "HEAD+auto-disabled", out, ai_tail=["--no-ignore-revs-file", ai_path(f)],
                              extra_tags=["ignore-revs-file:auto-detection-disabled"])
                os.unlink(auto)
    # ---- a real shallow clone: its oldest commits are boundary commits with cut-off parents
    if len(scn.commits) >= 3 and files:
        depth = rng.randint(1, 3)
        dst = os.path.join(scn.env.root, "shallow")
        rc, _, err = r.plain_git("clone", "-q", "--depth", str(depth), "--branch", "main", "file://" + r.path, dst)
        if rc == 0:
            r2 = e2e.Repo(scn.env, dst)
            r2.plain_git("fetch", "-q", "origin", "refs/notes/ai:refs/notes/ai")
            n2 = Notes(r2)
            for f in files:
                run_query(scn, n2, f, [], f"shallow-depth-{depth}", out, r=r2, extra_tags=["shallow-clone"])
                nl = len(scn.read_lines(f))
                a = rng.randint(1, nl)
                run_query(scn, n2, f, ["-L", f"{a},"], f"shallow-depth-{depth}", out, r=r2, extra_tags=["shallow-clone"])
        else:
            out["notes"].append("shallow clone failed: " + err.strip()[:200])


def pick_ranges(rng, n):
    if n <= 0:
        return []
    k = rng.choice([1, 1, 2])
    rs = []
    for _ in range(k):
        a = rng.randint(1, n)
        b = rng.randint(a, min(n, a + 3))
        rs.append((a, b))
    return rs


def run_scenario(seed, k, script=None, tier="quick"):
    sid = f"{seed}-{k}"
    rng = random.Random(f"c09-{seed}-{k}")
    out = {"sid": sid, "fail": [], "tags": [], "queries": 0, "keys": [], "model": [], "skipped": 0, "notes": [],
           "api": [], "ncmd": 0, "log": None, "scn_tags": []}
    try:
        with e2e.Env() as env:
            scn = Scn(env, rng, sid, script)
            scn.build()
            out["log"] = scn.log
            out["scn_tags"] = sorted(scn.tags)
            r = scn.r
            notes = Notes(r)
            head = r.head()
            revs = [("HEAD", head)]
            older = [c for c in scn.commits[:-1] if c != head]
            if older:
                revs.append(("older", rng.choice(older)))
                if tier == "thorough" and len(older) > 1:
                    revs.append(("older", rng.choice(older)))
            api_queries = []
            for label, sha in revs:
                if label != "HEAD":
                    if r.plain_git("checkout", "-q", "--detach", sha)[0] != 0:
                        continue
                rc, lst, _ = r.plain_git("ls-files", "-z")
                files = [x for x in lst.split("\0") if x]
                rng.shuffle(files)
                for f in files[:3]:
                    nlines = len(scn.read_lines(f)) if r.exists(f) else 0
                    optsets = [[]]
                    rs = pick_ranges(rng, nlines)
                    if rs:
                        optsets.append([x for (a, b) in rs for x in ("-L", f"{a},{b}")])
                    ign = [c for c in (scn.ws_commits + scn.commits[1:]) if c != sha]
                    if ign and rng.random() < 0.7:
                        o = ["--ignore-rev", rng.choice(ign)]
                        if rs and rng.random() < 0.5:
                            o += ["-L", f"{rs[0][0]},{rs[0][1]}"]
                        optsets.append(o)
                    for opts in optsets:
                        run_query(scn, notes, f, opts, label if label == "HEAD" else sha, out)
                    # library API: -w, explicit revision, ignore-revs, ranges
                    if nlines:
                        aq = {"id": len(api_queries), "repo": r.path, "file": f, "newest_commit": sha,
                              "ignore_whitespace": rng.random() < 0.6, "hashes_as_names": True}
                        if ign and rng.random() < 0.4:
                            aq["ignore_revs"] = [rng.choice(ign)]
                        if rs and rng.random() < 0.4:
                            aq["line_ranges"] = [list(x) for x in rs]
                        api_queries.append(aq)
                if label != "HEAD":
                    r.plain_git("checkout", "-q", "main")
            try:
                extra_queries(scn, notes, rng, out, head)
            except Exception as e:
                out["fail"].append(("harness:extra-queries-crashed", {"scenario": sid, "trace": traceback.format_exc()[-1500:]}, str(e)))
            # ---- API queries through the harness (one process per scenario, isolated env)
            if api_queries and os.path.exists(C.HARNESS_BIN):
                qf = os.path.join(env.root, "queries.jsonl")
                of = os.path.join(env.root, "api-out.jsonl")
                with open(qf, "w") as f:
                    for aq in api_queries:
                        f.write(json.dumps(aq) + "\n")
                e = dict(env.env)
                p = subprocess.run([C.HARNESS_BIN, "c09repo", "--corpus", qf, "--out", of], env=e, capture_output=True, timeout=300)
                res_by_id = {}
                if os.path.exists(of):
                    for line in open(of):
                        try:
                            c = json.loads(line)
                            res_by_id[c["impl"]["id"]] = c["impl"]["result"]
                        except Exception:
                            pass
                for aq in api_queries:
                    gopts = []
                    if aq.get("ignore_whitespace"):
                        gopts.append("-w")
                    for x in aq.get("ignore_revs", []):
                        gopts += ["--ignore-rev", x]
                    for (a, b) in aq.get("line_ranges", []):
                        gopts += ["-L", f"{a},{b}"]
                    rc, ptxt, _ = r.plain_git("blame", "--line-porcelain", *gopts, aq["newest_commit"], "--", aq["file"])
                    if rc != 0:
                        continue
                    blines, _ = U.parse_line_porcelain(ptxt)
                    exp = expected_overlay(notes, blines)
                    got = res_by_id.get(aq["id"])
                    out["queries"] += 1
                    out["tags"] += ["api-query", "api:-w" if aq.get("ignore_whitespace") else "api:no-w"]
                    out["keys"].append(json.dumps([scn.log, aq["file"], gopts, aq["newest_commit"], "api"], ensure_ascii=False))
                    wit = {"scenario": sid, "ops": scn.log, "api_query": {k: v for k, v in aq.items() if k != "repo"}}
                    if got is None or "ok" not in got:
                        out["fail"].append(("api:blame-analysis-fails", wit, f"blame_analysis failed: {got}"))
                        continue
                    la = {l: a for l, a in got["ok"]["line_authors"]}
                    want = {}
                    for l, v in exp.items():
                        if v[0] == "ai":
                            want[l] = v[1]
                        elif v[0] == "human":
                            want[l] = v[1]
                    d = sorted(l for l in set(la) | set(exp) if exp.get(l, ("x",))[0] != "ambiguous" and la.get(l) != want.get(l))
                    if d:
                        out["fail"].append(("overlay:api-differs", dict(wit, lines=d[:10], got={str(l): la.get(l) for l in d[:10]},
                                                                       expected={str(l): want.get(l) for l in d[:10]}),
                                            "Repository::blame_analysis differs from git blame + notes"))
                    # the kind of every line (AI session vs human) as the analysis exposes it
                    lph = {l: h for l, h in got["ok"].get("line_prompt_hashes", [])}
                    want_ai = {l: v[1] for l, v in exp.items() if v[0] == "ai"}
                    ambl = {l for l, v in exp.items() if v[0] == "ambiguous"}
                    d2 = sorted(l for l in set(lph) | set(want_ai) if l not in ambl and lph.get(l) != want_ai.get(l))
                    if d2:
                        out["fail"].append(("overlay:api-line-kinds-differ", dict(wit, lines=d2[:10], got={str(l): lph.get(l) for l in d2[:10]},
                                                                                 expected={str(l): want_ai.get(l) for l in d2[:10]}),
                                            "BlameAnalysisResult.line_prompt_hashes is not exactly the lines the notes credit to a session"))
            out["ncmd"] = env.ncmd
    except Exception as e:
        out["fail"].append(("harness:scenario-crashed", {"scenario": sid, "trace": traceback.format_exc()[-1500:]}, str(e)))
    return out


# ---------------------------------------------------------------- phases

def phase_e2e(res, seed, n, tier, scripts=()):
    jobs = [(seed, k, None) for k in range(n)] + [(seed, 1000 + i, s) for i, s in enumerate(scripts)]
    outs = []
    with concurrent.futures.ThreadPoolExecutor(16) as ex:
        futs = [ex.submit(run_scenario, s, k, sc, tier) for (s, k, sc) in jobs]
        for f in futs:
            outs.append(f.result())
    model_items = []
    nfail = 0
    crashed = 0
    for o in outs:
        res.tag(o["tags"])
        res.tag(["scn:" + t for t in o["scn_tags"]])
        for k in o["keys"]:
            res.count_case(k)
        for (sig, wit, what) in o["fail"]:
            if sig.startswith("harness:"):
                crashed += 1
                res.broken_tie("e2e harness", {"sig": sig, "what": what, "witness": wit})
            elif res.oracle_failure(sig, wit, what):
                nfail += 1
        model_items += o["model"]
    res.extra["e2e"] = {"scenarios": len(outs), "queries": sum(o["queries"] for o in outs),
                        "commands": sum(o["ncmd"] for o in outs), "skipped_queries": sum(o["skipped"] for o in outs)}
    if outs and outs[0]["log"]:
        res.sample({"scenario": outs[0]["sid"], "ops": outs[0]["log"][:6]})
    res.obligation("e2e: git-ai blame (all formats) = git blame + notes recomputed in Python", nfail == 0 and crashed == 0, "oracle")
    # ---- model correspondence on real data
    reqs = []
    for m in model_items:
        reqs.append(m["overlay_req"])
        reqs.append(m["render_req"])
    if not os.path.exists(C.DRIVER_BIN):
        C.lake_build(["driver"])      # another check may be relinking it; wait for the lock and rebuild
    resp = C.run_driver(reqs) if reqs else []
    bad_overlay, bad_render = [], []
    for i, m in enumerate(model_items):
        ro, rr = resp[2 * i], resp[2 * i + 1]
        if "ok" not in ro:
            bad_overlay.append({"q": m["q"], "model": ro})
        else:
            keys = set(ro["ok"]["prompt_keys"])
            mj = {}
            for kk, h in ro["ok"]["json_lines"]:
                if "-" in kk:
                    a, b = kk.split("-")
                    for l in range(int(a), int(b) + 1):
                        mj[l] = h
                else:
                    mj[int(kk)] = h
            amb = set(m["amb"])
            if m["got_json"] is not None:
                gj = {int(l): h for l, h in m["got_json"].items()}
                d = [l for l in set(gj) | set(mj) if l not in amb and gj.get(l) != mj.get(l)]
                if d:
                    bad_overlay.append({"q": m["q"], "lines": sorted(d)[:10], "model": {l: mj.get(l) for l in sorted(d)[:10]},
                                        "binary": {l: gj.get(l) for l in sorted(d)[:10]}})
            if m.get("got_sp") is not None:
                msp = {int(l): a.strip() for l, a in ro["ok"].get("show_prompt", [])}
                gsp = {int(l): a for l, a in m["got_sp"].items()}
                d = [l for l in set(gsp) | set(msp) if l not in amb and gsp.get(l) != msp.get(l)]
                if d:
                    bad_overlay.append({"q": m["q"], "show_prompt_lines": sorted(d)[:10], "model": {l: msp.get(l) for l in sorted(d)[:10]},
                                        "binary": {l: gsp.get(l) for l in sorted(d)[:10]}})
        if "lines" not in rr or rr["lines"] != m["git_lines"]:
            first = None
            if "lines" in rr:
                for a, b in zip(rr["lines"], m["git_lines"]):
                    if a != b:
                        first = [a, b]
                        break
            bad_render.append({"q": m["q"], "first_diff": first, "model_n": len(rr.get("lines", [])), "git_n": len(m["git_lines"])})
    res.obligation("e2e correspondence: Lean overlay (bo_overlay) on git's porcelain + raw notes = git-ai blame --json / --show-prompt author column",
                   not bad_overlay, "correspondence")
    if bad_overlay:
        res.broken_tie("correspondence:bo_overlay-e2e", {"disagreements": len(bad_overlay), "first": bad_overlay[0]})
    res.obligation("git kernel: renderLinePorcelain(entries parsed from git's output) = git's output", not bad_render, "correspondence")
    if bad_render:
        res.broken_tie("git-kernel:renderLinePorcelain", {"disagreements": len(bad_render), "first": bad_render[0]})
    res.extra.setdefault("correspondence", {})["e2e"] = {"compared": len(model_items), "overlay_disagreements": len(bad_overlay),
                                                         "render_disagreements": len(bad_render)}
    return nfail


# scripted witnesses run on every check (corpus/C09/scenarios.json)
def load_scripts():
    p = os.path.join(CORPUS_DIR, "scenarios.json")
    try:
        return [s["ops"] for s in json.load(open(p))]
    except Exception:
        return []


def run(tier, seed):
    res = C.Result(PROP, tier, seed)
    res.rule = ("in-process: one case = one porcelain text (structured from generated blame entries, or mutated), one "
                "quoted path or one -L argument sent to both the Rust function and the Lean model; end-to-end: one case = one "
                "(history, file, revision / clone, option set) query evaluated on the real binary in all six output modes "
                "(+ library API queries with -w / explicit revision); option sets: none, -L a,b / a,+n / a,-n / a, / ,b / a / "
                "several, --ignore-rev, --ignore-revs-file (explicit, blame.ignoreRevsFile, auto-detected, detection disabled), "
                "-M, -C, -C -C, a real shallow clone, and forms git-ai may refuse (-L /re/, -w, <rev> --) which must be refused "
                "without output or answered like git; distinct = distinct request / (ops, file, opts, rev)")
    res.trusted = ["Lean 4.33 kernel (axioms: propext, Quot.sound, Classical.choice only)",
                   "git 2.39 blame itself (the reference; its --line-porcelain grammar is the Lean renderLinePorcelain, "
                   "re-validated on every e2e query against git's real output)",
                   "vlib/props/c09_util.py (independent porcelain / note / output-format readers), harness/src/suites/c09.rs",
                   "foreign prompt lookup (git grep over refs/notes/ai) is an environment parameter of the model"]
    res.assumptions = ["u32 line numbers modelled as Nat with the overflow of start+count as an explicit panic outcome",
                       "metadata fields other than author / boundary / filename are consumed but not modelled",
                       "git prints a filename line for every blame entry (hfn); entries ascend by final line (formats_agree)",
                       "-L: only the numeric forms are modelled (l_arg_spec); regex forms are refused by git-ai (observed, tagged refused:*); "
                       "git's clamping of an end beyond the file and swapping of end<start are refusals in git-ai (pinned by /repo tests)",
                       "-M / -C are accepted and ignored by git-ai blame (known finding opts:move-copy-detection-ignored)"]
    C.phase_proofs(res, PROP, THEOREMS)
    ok, out = C.build_harness()
    if not ok:
        res.obligation("build harness against the repo working tree", False, "build")
        res.broken_tie("harness build", out[-3000:])
        return res.finish()
    ok, out = C.build_git_ai()
    if not ok:
        res.obligation("build git-ai from the repo working tree", False, "build")
        res.broken_tie("git-ai build", out[-3000:])
        return res.finish()
    n_inproc = 6000 if tier == "quick" else 150000
    bad, newfail = C.phase_suite(res, "c09", seed, n_inproc, os.path.join(CORPUS_DIR, "cases.jsonl"))
    n_scn = 28 if tier == "quick" else 600
    phase_e2e(res, seed, n_scn, tier, load_scripts())
    if res.broken and not res.violations:
        # a tie broke without a concrete failing input yet: search harder on the implementation
        for s in range(seed + 1000, seed + 1004):
            C.phase_suite(res, "c09", s, 20000, None, name=f"search:c09:{s}")
            if res.violations:
                break
            phase_e2e(res, s, 32, tier)
            if res.violations:
                break
        res.extra["search"] = ("4 extra seeds x (20000 in-process cases + 32 end-to-end histories), all oracles evaluated on "
                               "the implementation")
    return res.finish()
