"""C09 helpers: independent Python readers for git's blame porcelain, git's C-quoted paths,
authorship notes (section aware) and git-ai's blame output formats. Written from git's
documentation (git-blame(1) THE PORCELAIN FORMAT, quote.c) and specs/git_ai_standard_v3.0.0.md —
not from the Rust code."""
import json, re

HDR = re.compile(r"^([0-9a-f]{40}) (\d+) (\d+)(?: (\d+))?$")
SCHEMA = "authorship/3.0.0"


def c_unquote(s):
    """git quote.c: unquote_c_style (bytes → utf-8, errors replaced)."""
    if not (len(s) >= 2 and s[0] == '"' and s[-1] == '"'):
        return s
    out = bytearray()
    body = s[1:-1]
    i = 0
    simple = {"a": 7, "b": 8, "f": 12, "n": 10, "r": 13, "t": 9, "v": 11, '"': 34, "\\": 92}
    while i < len(body):
        c = body[i]
        if c != "\\":
            out += c.encode("utf-8")
            i += 1
            continue
        i += 1
        if i >= len(body):
            out.append(92)
            break
        c = body[i]
        if c in simple:
            out.append(simple[c])
            i += 1
        elif c in "0123":
            out.append(int(body[i:i + 3], 8))
            i += 3
        else:
            out.append(92)
    return out.decode("utf-8", "replace")


def parse_line_porcelain(text):
    """→ (lines, groups): lines = [{final, orig, commit, filename, author, boundary, content}] in
    output order; groups = [{commit, orig, final, author, mail, time, tz, committer, cmail, ctime, ctz,
    summary, previous, boundary, filename(raw unquoted), contents}] (for the Lean renderer).
    Structure-driven: header, key lines until the TAB-prefixed content line."""
    raw = text.split("\n")
    if raw and raw[-1] == "":
        raw.pop()
    lines, groups = [], []
    i = 0
    while i < len(raw):
        m = HDR.match(raw[i])
        if not m:
            raise ValueError(f"expected header at line {i}: {raw[i]!r}")
        sha, orig, final, cnt = m.group(1), int(m.group(2)), int(m.group(3)), m.group(4)
        i += 1
        info = {"boundary": False, "previous": None}
        while i < len(raw) and not raw[i].startswith("\t"):
            ln = raw[i]
            key, _, val = ln.partition(" ")
            if ln == "boundary":
                info["boundary"] = True
            elif key == "previous":
                psha, _, ppath = val.partition(" ")
                info["previous"] = [psha, c_unquote(ppath)]
            elif key == "filename":
                info["filename"] = c_unquote(val)
            else:
                info[key] = val
            i += 1
        content = raw[i][1:] if i < len(raw) else ""
        i += 1
        rec = {"final": final, "orig": orig, "commit": sha, "filename": info.get("filename", ""),
               "author": info.get("author", ""), "boundary": info["boundary"], "content": content}
        lines.append(rec)
        if cnt is not None:
            groups.append({"commit": sha, "orig": orig, "final": final, "author": info.get("author", ""),
                           "mail": info.get("author-mail", ""), "time": info.get("author-time", ""),
                           "tz": info.get("author-tz", ""), "committer": info.get("committer", ""),
                           "cmail": info.get("committer-mail", ""), "ctime": info.get("committer-time", ""),
                           "ctz": info.get("committer-tz", ""), "summary": info.get("summary", ""),
                           "previous": info["previous"], "boundary": info["boundary"],
                           "filename": info.get("filename", ""), "contents": [content], "_n": int(cnt)})
        else:
            groups[-1]["contents"].append(content)
    return lines, groups


def parse_note_sections(text):
    """Section-aware note reader → {"sections": [(path, [(hash, [lines])...])...], "prompts": {hash: rec},
    "schema": str|None, "ok": bool}. `ok` False when the reader of the standard would reject the note."""
    res = {"sections": [], "prompts": {}, "schema": None, "ok": True}
    t = text.strip()
    ls = t.split("\n")
    try:
        d = ls.index("---")
    except ValueError:
        res["ok"] = False
        return res
    cur = None
    for ln in ls[:d]:
        ln = ln.rstrip()
        if not ln:
            continue
        if ln.startswith("  "):
            body = ln[2:]
            h, sp, rs = body.partition(" ")
            if not sp or cur is None:
                res["ok"] = False
                return res
            nums = []
            try:
                for part in rs.split(","):
                    if not part:
                        continue
                    if "-" in part:
                        a, b = part.split("-", 1)
                        nums.extend(range(int(a), int(b) + 1))
                    else:
                        nums.append(int(part))
            except ValueError:
                res["ok"] = False
                return res
            cur[1].append((h, nums))
        else:
            p = ln[1:-1] if len(ln) >= 2 and ln[0] == '"' and ln[-1] == '"' else ln
            cur = (p, [])
            res["sections"].append(cur)
    # sections without entries are dropped by the reader
    res["sections"] = [s for s in res["sections"] if s[1]]
    try:
        meta = json.loads("\n".join(ls[d + 1:]))
        res["schema"] = meta.get("schema_version")
        res["prompts"] = meta.get("prompts", {}) or {}
    except Exception:
        res["ok"] = False
    return res


def credit(note, foreign, path, line):
    """The session the note credits with `line` of `path`: last entry of the (first) section for
    `path` that lists the line and whose hash resolves to a prompt record. → (hash, record) | None"""
    for (p, entries) in note["sections"]:
        if p == path:
            for (h, nums) in reversed(entries):
                if line in nums:
                    rec = note["prompts"].get(h) or foreign.get(h)
                    if rec:
                        return h, rec
            return None
    return None


def expand_json_lines(j):
    out = {}
    for k, h in (j.get("lines") or {}).items():
        if "-" in k:
            a, b = k.split("-", 1)
            for l in range(int(a), int(b) + 1):
                out[l] = h
        else:
            out[int(k)] = h
    return out


DEFAULT_ROW = re.compile(r"^(\^?[0-9a-f]+|\s+) \((.*?)\s+(\d{4}-\d\d-\d\d \d\d:\d\d:\d\d [+-]\d{4})\s+(\d+)\) (.*)$")


def parse_default(text):
    """git-ai default format → {line: (sha_col, author)}"""
    out = {}
    for ln in text.split("\n"):
        if not ln:
            continue
        m = DEFAULT_ROW.match(ln)
        if not m:
            raise ValueError(f"unparsable default row {ln!r}")
        out[int(m.group(4))] = (m.group(1), m.group(2))
    return out


GIT_ROW = re.compile(r"^(\^?[0-9a-f]+) (?:.*?)\((.*?)\s+(\d{4}-\d\d-\d\d \d\d:\d\d:\d\d [+-]\d{4})\s+(\d+)\) ")


def parse_git_default(text):
    """plain git blame default format → {line: sha_col}"""
    out = {}
    for ln in text.split("\n"):
        if not ln:
            continue
        m = GIT_ROW.match(ln)
        if not m:
            raise ValueError(f"unparsable git row {ln!r}")
        out[int(m.group(4))] = m.group(1)
    return out


PHDR = re.compile(r"^([0-9a-f]{40}) (\d+) (\d+)(?: (\d+))?$")


def porcelain_commits(text, incremental=False):
    """git-ai --porcelain/--line-porcelain/--incremental → {final line: commit}. Content lines are
    TAB-prefixed and every other line starts with a keyword, so a column-0 match is a header."""
    out = {}
    for ln in text.split("\n"):
        m = PHDR.match(ln)
        if not m:
            continue
        sha, final, cnt = m.group(1), int(m.group(3)), m.group(4)
        if incremental:
            for l in range(final, final + int(cnt or 1)):
                out[l] = sha
        else:
            out[final] = sha
    return out
