"""C10 — notes converge across clones and are never lost by sync (DESIGN §8 C10).

Proof: lean/GitAiModel/Props/C10.lean over Model/Sync.lean (protocol model: bare remote + n
clones, notes refs as (reach, map) stored loose | packed | absent, ops commit / fetch / pull / push, the
three steps of push, and repository maintenance (`git gc` / `git pack-refs --all`); the existence probe
`ref_exists` is a parameter of the sync step, the theorems hold for every faithful probe).

Extraction: extract/sync_ref_probes.py regenerates Extracted/SyncRefProbes.lean from refs.rs /
sync_authorship.rs — how `ref_exists` asks (git show-ref/rev-parse --verify vs a file test), that no helper
of the sync touches the file system itself, the merge-or-copy shape — and Props/C10.lean decides
`extracted_ref_probe` on it. The model runs of the tie use the extracted probe.

Tie (end-to-end): a bare remote and 2–3 clones are driven through generated orderings of
commit / push / fetch / pull / raced push / `git gc` / `git pack-refs --all` in any clone or on the
remote (/ foreign `notes add -f`, to validate git's `notes merge -s ours`) with the git-ai binary built from the working tree as the git proxy,
so push_hooks / fetch_hooks / clone_hooks and sync_authorship.rs run for real. After every
step every repository's `refs/notes/ai` (and the tracking ref) is read back — key set, note
texts, number of reachable notes commits, and WHERE the ref is stored (loose file / packed-refs /
absent) — plus which code commits it holds, and compared
with what the Lean model predicts for the same order (oids canonicalised to `c<k>`, note
texts to `n<k>` = k-th `notes add` of the scenario).

Oracles on the implementation alone (each with a sig):
  sync:key-lost            a step removed a key from a repository's refs/notes/ai
  sync:author-lost         a commit's note is no longer keyed in its author's clone
  sync:foreign-note        commit X shows a note text that was written for another commit
  sync:unknown-note        commit X shows a text nobody wrote for it
  sync:push-undelivered    after an uninterrupted `git push` the remote lacks a key of the pusher
  sync:converge-missing    after pushAll+fetchAll a holder of commit X has no note for X
  sync:converge-wrong      … or shows a text different from the one X's author recorded
"""
import concurrent.futures, hashlib, itertools, json, os, random, re, shutil, subprocess, time

from vlib import common as C
from vlib import e2e

PROP = "C10"
THEOREMS = [
    "GitAi.Sync.extracted_ref_probe",
    "GitAi.Sync.faithful_unique",
    "GitAi.Sync.looseOnly_not_faithful",
    "GitAi.Sync.maintenance_values",
    "GitAi.Sync.no_loss_code",
    "GitAi.Sync.storage_irrelevant",
    "GitAi.Sync.storage_irrelevant_refs",
    "GitAi.Sync.convergence_code",
    "GitAi.Sync.loose_only_probe_loses_note",
    "GitAi.Sync.loose_only_probe_violates",
    "GitAi.Sync.faithful_probe_keeps_note",
    "GitAi.Sync.merge_no_loss",
    "GitAi.Sync.merge_deletion_witness",
    "GitAi.Sync.merge_no_loss_reachable",
    "GitAi.Sync.push_after_merge_ff",
    "GitAi.Sync.no_loss",
    "GitAi.Sync.keys_never_shrink",
    "GitAi.Sync.refs_are_objects",
    "GitAi.Sync.no_loss_values",
    "GitAi.Sync.convergence",
    "GitAi.Sync.convergence_held",
    "GitAi.Sync.agreement",
    "GitAi.Sync.convergence_needs_single_writer",
    "GitAi.Sync.race_rejects",
    "GitAi.Sync.race_partial",
]
CORPUS = os.path.join(C.VERIF, "corpus", "C10", "scenarios.jsonl")
TRK = "ai-remote/origin"
WORKERS = 16
EXTRACTED = os.path.join(C.LEAN, "GitAiModel", "Extracted", "SyncRefProbes.lean")
PROBE = "show-ref-verify"      # what refs.rs:ref_exists is (set by phase_probe from the extraction)
MAINT = {"gc": ["gc", "-q"], "packrefs": ["pack-refs", "--all"]}


# ------------------------------------------------------------------ static shape of the source
def source_shape():
    """The model hard-codes four facts of the sources; re-read them from the working tree."""
    bad = []
    try:
        refs = open(os.path.join(C.REPO, "src/git/refs.rs")).read()
        sync = open(os.path.join(C.REPO, "src/git/sync_authorship.rs")).read()
    except OSError as e:
        return [f"cannot read sources: {e}"]
    m = re.search(r'AI_AUTHORSHIP_PUSH_REFSPEC\s*:\s*&str\s*=\s*"([^"]*)"', refs)
    if not m or m.group(1) != "refs/notes/ai:refs/notes/ai":
        bad.append(f"push refspec is {m.group(1) if m else None!r}, model assumes non-forced refs/notes/ai:refs/notes/ai")
    fn = re.search(r"fn build_authorship_push_args.*?\n}\n", sync, re.S)
    if not fn or re.search(r'"(--force|-f|--force-with-lease|--mirror)"', fn.group(0)):
        bad.append("build_authorship_push_args not found or forces the push")
    if len(re.findall(r'format!\("\+refs/notes/ai:\{\}", tracking_ref\)', sync)) < 2:
        bad.append("the fetch into the tracking ref is not the forced refspec +refs/notes/ai:<tracking> in both paths")
    mg = re.search(r"pub fn merge_notes_from_ref.*?\n}\n", refs, re.S)
    if not mg or not re.search(r'"merge".*?"-s".*?"ours"', mg.group(0), re.S):
        bad.append("merge_notes_from_ref is not `notes merge -s ours`")
    return bad


def phase_probe(res):
    """extract/sync_ref_probes.py → Extracted/SyncRefProbes.lean (before the Lean build); sets PROBE"""
    global PROBE
    import importlib, sys
    sys.path.insert(0, os.path.join(C.VERIF, "extract"))
    import sync_ref_probes as X
    importlib.reload(X)
    name = "extract SyncRefProbes (how ref_exists asks; helpers of the sync go through git; merge-or-copy shape)"
    try:
        x, _ = X.main()
    except Exception as e:
        res.obligation(name, False, "extraction")
        res.broken_tie(name, f"{type(e).__name__}: {e}")
        PROBE = "unknown"
        return None
    res.obligation(name, True, "extraction")
    PROBE = x["ref_exists"]["probe"]
    res.extra["ref_probes"] = {"ref_exists": {"line": x["ref_exists"]["line"], "probe": PROBE, "facts": x["ref_exists"]["facts"]},
                               "helpers": [{k: h[k] for k in ("name", "line", "git", "fs")} for h in x["helpers"]],
                               "decisions": [{k: d[k] for k in ("fn", "line", "stmts", "nested")} for d in x["decisions"]]}
    faithful = PROBE in ("show-ref-verify", "rev-parse-verify")
    res.obligation("extraction: refs.rs:ref_exists asks git (show-ref/rev-parse --verify): sees loose and packed refs "
                   "(Lean: extracted_ref_probe (1))", faithful, "extraction")
    if not faithful:
        res.broken_tie("extraction:ref-exists-probe", {"ref_exists": x["ref_exists"],
                       "meaning": "the probe is not a git ref lookup; a ref stored only in packed-refs may be reported missing"})
    fs = [h["name"] for h in x["helpers"] if h["fs"] and h["name"] != "ref_exists"]
    shape = [d for d in x["decisions"] if not (d["stmts"] == ["probeTrk", "probeLoc", "merge", "copy"] and d["nested"] and not d["fs_markers"])]
    res.obligation("extraction: helpers of the notes sync read/write refs through git only; fetch and push decide "
                   "`if ref_exists(tracking) { if ref_exists(local) { merge } else { copy } }` (extracted_ref_probe (2), (3))",
                   not fs and not shape, "extraction")
    if fs or shape:
        res.broken_tie("extraction:sync-ref-helpers", {"helpers with own file-system access": fs, "decisions": shape})
    return x


# ------------------------------------------------------------------ scenario execution
class ForkEnv(e2e.Env):
    """An Env whose tree is a copy of another Env's tree (prefix sharing in the enumeration)."""

    def __init__(self, src):
        super().__init__()
        shutil.rmtree(self.root)
        subprocess.run(["cp", "-a", src.root, self.root], check=True)
        self.clock = src.clock


class Rec:
    """what one executed scenario leaves behind (picklable; no Env)."""

    def __init__(self, w):
        self.spec, self.n, self.lazy, self.pull_mode = w.spec, w.n, w.lazy, w.pull_mode
        self.rewrote, self.labels, self.obs, self.macro = w.rewrote, w.labels, w.obs, w.macro
        self.failures, self.errors, self.nevents = w.failures, w.errors, len(w.events)
        self.diag = w.diag[:6]


class World:
    """One scenario being executed on the real binary."""

    def __init__(self, spec, env=None):
        self.spec = spec
        self.n = spec["n"]
        self.lazy = list(spec.get("lazy") or [False] * self.n)
        self.pull_mode = spec.get("pull_mode", "ff")
        self.relurl = bool(spec.get("relurl"))
        self.env = env or e2e.Env()
        self.clones = [None] * self.n
        self.events = []          # every `notes add`: {sha, who, text, kind}
        self.blob_text = {}       # blob oid -> text
        self.macro = []           # model ops per observed step
        self.labels = []          # human label per observed step
        self.obs = []             # observation per observed step
        self.failures = []        # oracle failures (dicts)
        self.errors = []          # harness-level problems (cannot judge)
        self.ncommit = 0
        self.rewrote = False
        self.remote = None
        self.diag = []            # (label, rc, stderr tail) of the user-level commands that failed

    # -------- setup
    def setup(self):
        env = self.env
        seed = env.repo("seed")
        seed.write("README", "base\n")
        seed.plain_git("add", "-A", check=True)
        seed.plain_git("commit", "-q", "-m", "base", check=True)
        self.remote = env.repo("remote.git", bare=True)
        seed.plain_git("push", "-q", self.remote.path, "main", check=True)
        if any(s[0] in ("race", "raceh") for s in self.spec["steps"]):
            self.install_race()
        for i in range(self.n):
            if not self.lazy[i]:
                self.make_clone(i)

    def reopen(self):
        """attach to an already set-up tree (after ForkEnv)"""
        self.remote = e2e.Repo(self.env, os.path.join(self.env.root, "remote.git"))
        for i in range(self.n):
            p = os.path.join(self.env.root, f"c{i}")
            self.clones[i] = e2e.Repo(self.env, p) if os.path.isdir(p) else None

    def make_clone(self, i):
        cl = self.env.clone(self.remote, f"c{i}")        # through the proxy: post_clone_hook runs
        if not os.path.isdir(os.path.join(cl.path, ".git")):
            self.errors.append(f"clone c{i} failed")
            return
        cl.git("checkout", "-q", "-b", f"b{i}")
        up = i if self.pull_mode == "ff" else (i + 1) % self.n
        cl.plain_git("config", f"branch.b{i}.remote", "origin")
        cl.plain_git("config", f"branch.b{i}.merge", f"refs/heads/b{up}")
        if self.relurl:
            cl.plain_git("config", "remote.origin.url", "../remote.git")
        self.clones[i] = cl

    def install_race(self):
        """shim around the real git used for git-ai's internal calls (~/.git-ai/config.json git_path):
        when a flag file names another clone, that clone's whole `git push` is run right before the
        internal `git push origin refs/notes/ai:refs/notes/ai` — i.e. between push step 2 and 3.
        Variant `raceh`: a pre-receive hook on the bare remote does the same from inside the
        receiving end of step 3 (after the refs were advertised)."""
        env = self.env
        self.flag = os.path.join(env.root, "race.flag")
        self.hflag = os.path.join(env.root, "raceh.flag")
        self.fired = os.path.join(env.root, "race.fired")
        self.mid = os.path.join(env.root, "race.mid")     # the remote's notes right after the interleaved push
        shim = os.path.join(env.root, "gitshim")
        inner = (f'o=$(cat "$f"); rm -f "$f"; : > {self.fired}; '
                 f'(unset GIT_DIR GIT_QUARANTINE_PATH GIT_OBJECT_DIRECTORY GIT_ALTERNATE_OBJECT_DIRECTORIES GIT_PUSH_OPTION_COUNT GIT_PREFIX; '
                 f'cd {env.root}/c$o && GIT_AI=git {env.binary} push origin b$o; '
                 f'{e2e.REAL_GIT} -C {self.remote.path} notes --ref=ai list > {self.mid}) >> {env.root}/inner.log 2>&1')
        with open(shim, "w") as f:
            f.write(f"""#!/bin/sh
f={self.flag}
if [ -f "$f" ]; then
  case " $* " in
    *" push "*"refs/notes/ai:refs/notes/ai "*) {inner} ;;
  esac
fi
exec {e2e.REAL_GIT} "$@"
""")
        os.chmod(shim, 0o755)
        os.makedirs(os.path.join(env.home, ".git-ai"), exist_ok=True)
        with open(os.path.join(env.home, ".git-ai", "config.json"), "w") as f:
            json.dump({"git_path": shim}, f)
        hook = os.path.join(self.remote.path, "hooks", "pre-receive")
        os.makedirs(os.path.dirname(hook), exist_ok=True)
        with open(hook, "w") as f:
            f.write(f"""#!/bin/sh
hit=0
while read old new ref; do [ "$ref" = refs/notes/ai ] && hit=1; done
f={self.hflag}
if [ $hit = 1 ] && [ -f "$f" ]; then {inner}; fi
exit 0
""")
        os.chmod(hook, 0o755)

    # -------- observation
    def text_of(self, repo, blob):
        t = self.blob_text.get(blob)
        if t is None:
            rc, out, _ = repo.plain_git("cat-file", "-p", blob)
            t = out if rc == 0 else None
            self.blob_text[blob] = t
        return t

    def cname(self, sha):
        for k, e in enumerate(self.events):
            if e["sha"] == sha:
                return f"c{k}"
        return "?" + sha[:8]

    def nname(self, text):
        for k, e in enumerate(self.events):
            if e["text"] == text:
                return f"n{k}"
        return "?" + hashlib.sha1((text or "").encode()).hexdigest()[:8]

    def read_ref(self, repo, ref):
        rc, out, _ = repo.plain_git("rev-list", "--count", f"refs/notes/{ref}")
        if rc != 0:
            return None, None
        cnt = int(out.strip() or 0)
        raw = {sha: self.text_of(repo, blob) for sha, blob in repo.notes_list(ref).items()}
        return {"notes": sorted([self.cname(s), self.nname(t)] for s, t in raw.items()), "n": cnt}, raw

    def storage(self, repo, ref, bare=False):
        """where refs/notes/<ref> lives: loose file, packed-refs entry, or nowhere (files backend)."""
        gd = repo.path if bare else os.path.join(repo.path, ".git")
        full = f"refs/notes/{ref}"
        if os.path.isfile(os.path.join(gd, full)):
            return "loose"
        try:
            for line in open(os.path.join(gd, "packed-refs")):
                if line.rstrip("\n").endswith(" " + full):
                    return "packed"
        except OSError:
            pass
        return "absent"

    def holds(self, repo):
        shas = [e["sha"] for e in self.events if e["kind"] == "commit"]
        if not shas:
            return []
        rc, out, _ = repo.plain_git("cat-file", "--batch-check", input=("".join(s + "^{commit}\n" for s in shas)).encode())
        got = []
        for s, line in zip(shas, out.split("\n")):
            if line.endswith("missing") or not line.strip():
                continue
            got.append(self.cname(s))
        return sorted(got)

    def observe(self):
        o = {"clones": []}
        raw = {"clones": []}
        o["remote"], raw["remote"] = self.read_ref(self.remote, "ai")
        o["rst"] = self.storage(self.remote, "ai", bare=True)
        o["rhas"] = self.holds(self.remote)
        for cl in self.clones:
            if cl is None:
                o["clones"].append(None); raw["clones"].append(None)
                continue
            loc, rloc = self.read_ref(cl, "ai")
            trk, _ = self.read_ref(cl, TRK)
            o["clones"].append({"loc": loc, "trk": trk, "locSt": self.storage(cl, "ai"), "trkSt": self.storage(cl, TRK),
                                "has": self.holds(cl)})
            raw["clones"].append(rloc)
        return o, raw

    # -------- oracles (implementation only)
    def fail(self, sig, what, detail):
        self.failures.append({"sig": sig, "what": what, "step": len(self.obs), "label": self.labels[-1] if self.labels else None,
                              "detail": detail})

    def check_step(self, prev_raw, raw, label):
        repos = [("remote", (prev_raw or {}).get("remote"), raw["remote"])]
        for i in range(self.n):
            p = prev_raw["clones"][i] if prev_raw else None
            repos.append((f"c{i}", p, raw["clones"][i]))
        texts_for = {}
        for e in self.events:
            texts_for.setdefault(e["sha"], set()).add(e["text"])
        all_texts = {e["text"]: e["sha"] for e in self.events}
        for name, p, q in repos:
            if p and q is not None:
                lost = sorted(set(p) - set(q))
                if lost:
                    self.fail("sync:key-lost", f"{label} removed note keys from {name}", {"repo": name, "lost": [self.cname(s) for s in lost]})
            if p and q is None:
                self.fail("sync:key-lost", f"{label} removed refs/notes/ai of {name}", {"repo": name})
            for sha, t in (q or {}).items():
                if sha in texts_for and t not in texts_for[sha]:
                    if t in all_texts:
                        self.fail("sync:foreign-note", f"{name} shows for {self.cname(sha)} the note written for {self.cname(all_texts[t])}",
                                  {"repo": name, "commit": self.cname(sha), "note": self.nname(t)})
                    else:
                        self.fail("sync:unknown-note", f"{name} shows for {self.cname(sha)} a text nobody wrote for it",
                                  {"repo": name, "commit": self.cname(sha), "text": (t or "")[:200]})
        for e in self.events:
            if e["kind"] == "commit":
                q = raw["clones"][e["who"]]
                if q is None or e["sha"] not in q:
                    self.fail("sync:author-lost", f"after {label} the note of {self.cname(e['sha'])} is gone from its author's clone c{e['who']}",
                              {"commit": self.cname(e["sha"]), "author": e["who"]})

    def check_push_delivered(self, i, raw):
        mine, rem = raw["clones"][i] or {}, raw["remote"] or {}
        miss = sorted(set(mine) - set(rem))
        if miss:
            self.fail("sync:push-undelivered", f"after `git push` in c{i} the remote lacks notes the clone has",
                      {"clone": i, "missing": [self.cname(s) for s in miss]})

    def check_converged(self, o, raw):
        for e in self.events:
            if e["kind"] != "commit":
                continue
            cn = self.cname(e["sha"])
            holders = [("remote", o["rhas"], raw["remote"])]
            holders += [(f"c{i}", o["clones"][i]["has"], raw["clones"][i]) for i in range(self.n) if o["clones"][i]]
            for name, has, notes in holders:
                if cn not in has:
                    continue
                t = (notes or {}).get(e["sha"])
                if t is None:
                    self.fail("sync:converge-missing", f"after pushAll+fetchAll {name} holds {cn} without its note", {"repo": name, "commit": cn})
                elif not self.rewrote and t != e["text"]:
                    self.fail("sync:converge-wrong", f"after pushAll+fetchAll {name} shows for {cn} a note other than its author's",
                              {"repo": name, "commit": cn, "note": self.nname(t)})

    # -------- steps
    def record(self, label, ops, prev_raw, push_of=None):
        self.labels.append(label)
        self.macro.append(ops)
        o, raw = self.observe()
        self.check_step(prev_raw, raw, label)
        if push_of is not None:
            self.check_push_delivered(push_of, raw)
        self.obs.append(o)
        return raw

    def cmd(self, cl, label, *args):
        rc, out, err = cl.git(*args)
        if rc != 0:
            self.diag.append([label, rc, err[-400:]])
        return rc

    def ensure(self, i, raw):
        if self.clones[i] is None:
            self.make_clone(i)
            raw = self.record(f"clone c{i}", [["fetch", i]], raw)
        return raw

    def do(self, st, raw):
        kind = st[0]
        if kind in ("rgc", "rpackrefs"):      # maintenance on the bare remote (server side: plain git)
            rc, _, err = self.remote.plain_git(*MAINT[kind[1:]])
            if rc != 0:
                self.diag.append([f"{kind} remote", rc, err[-400:]])
            return self.record(f"{kind} remote", [["maintRemote"]], raw)
        i = st[1]
        raw = self.ensure(i, raw)
        cl = self.clones[i]
        if cl is None:
            return raw
        if kind == "commit":
            k = self.ncommit
            self.ncommit += 1
            fn = f"f{i}.txt"
            old = cl.read(fn) if cl.exists(fn) else ""
            cl.write(fn, old + f"line {k} by clone {i}\n")
            cl.ai_checkpoint(f"s{k}", [fn])
            sha = cl.commit(f"c{k}")
            text = cl.note_text(sha) if sha else None
            if not sha or text is None:
                self.errors.append(f"commit {k} in c{i}: sha={sha} note={'present' if text else None}")
                return raw
            self.events.append({"sha": sha, "who": i, "text": text, "kind": "commit"})
            return self.record(f"commit c{i}", [["commit", i]], raw)
        if kind == "rewrite":
            commits = [e for e in self.events if e["kind"] == "commit"]
            if not commits:
                return raw
            tgt = commits[st[2] % len(commits)]
            text = f"rewritten at step {len(self.obs)} by clone {i}\n"
            rc, _, _ = cl.plain_git("notes", "--ref=ai", "add", "-f", "-m", text.strip(), tgt["sha"])
            idx = [k for k, e in enumerate(self.events) if e["sha"] == tgt["sha"]][0]
            if rc == 0:
                self.events.append({"sha": tgt["sha"], "who": i, "text": text, "kind": "rewrite"})
                self.rewrote = True
            return self.record(f"rewrite c{i} c{idx}", [["rewrite", i, idx]], raw)
        if kind in MAINT:                     # `git gc` / `git pack-refs --all` by the user, through the proxy
            self.cmd(cl, f"{kind} c{i}", *MAINT[kind])
            return self.record(f"{kind} c{i}", [["maintenance", i]], raw)
        if kind == "fetch":
            self.cmd(cl, f"fetch c{i}", "fetch", "origin")
            return self.record(f"fetch c{i}", [["fetch", i]], raw)
        if kind == "pull":
            cl.git("pull", "--no-rebase", "--no-edit", "origin")     # may fail: upstream branch not pushed yet
            return self.record(f"pull c{i}", [["pull", i]], raw)
        if kind == "push":
            self.cmd(cl, f"push c{i}", "push", "origin", f"b{i}")
            return self.record(f"push c{i}", [["push", i]], raw, push_of=i)
        if kind in ("race", "raceh"):
            j = st[2]
            raw = self.ensure(j, raw)
            if self.clones[j] is None or i == j:
                return raw
            flag = self.flag if kind == "race" else self.hflag
            if os.path.exists(self.fired):
                os.unlink(self.fired)
            with open(flag, "w") as f:
                f.write(str(j))
            cl.git("push", "origin", f"b{i}")
            if os.path.exists(self.fired):
                mid = {}
                try:
                    for line in open(self.mid):
                        parts = line.split()
                        if len(parts) == 2:
                            mid[parts[1]] = parts[0]
                except OSError:
                    pass
                raw2 = dict(raw or {"clones": [None] * self.n})
                raw2["remote"] = dict(mid, **((raw or {}).get("remote") or {}))   # keys seen on the remote so far
                return self.record(f"{kind} c{i}<c{j}", [["pFetch", i], ["pMerge", i], ["push", j], ["pSend", i]], raw2, push_of=j)
            os.unlink(flag)     # c{i} had nothing to send: the other push was never triggered; run it now
            raw = self.record(f"push c{i}", [["push", i]], raw, push_of=i)
            self.clones[j].git("push", "origin", f"b{j}")
            return self.record(f"push c{j}", [["push", j]], raw, push_of=j)
        self.errors.append(f"unknown step {st}")
        return raw

    def run(self, tail=True):
        raw = None
        for st in self.spec["steps"]:
            raw = self.do(st, raw)
        if tail and self.spec.get("tail", True):
            raw = self.tail(raw, light=bool(self.spec.get("light")))
        return self

    def tail(self, raw, light=False):
        """every clone pushes, then every clone fetches; then the convergence oracle.
        light: observe once at the end (one macro step) instead of after each command."""
        for i in range(self.n):
            raw = self.ensure(i, raw)
        if light:
            if any(c is None for c in self.clones):
                return raw
            for i in range(self.n):
                self.cmd(self.clones[i], f"tail push c{i}", "push", "origin", f"b{i}")
            for i in range(self.n):
                self.cmd(self.clones[i], f"tail fetch c{i}", "fetch", "origin")
            raw = self.record("pushAll+fetchAll", [["push", i] for i in range(self.n)] + [["fetch", i] for i in range(self.n)], raw)
        else:
            for i in range(self.n):
                raw = self.do(["push", i], raw)
            for i in range(self.n):
                raw = self.do(["fetch", i], raw)
        if self.obs:
            self.check_converged(self.obs[-1], raw)
        return raw



def run_model(worlds):
    """the same orders on the Lean model (one driver process for the whole batch).
    `C.run_driver` itself waits for the lake lock and rebuilds a missing driver; never wrap it in
    another `C.Lock("lake")` (flock is not re-entrant)."""
    reqs = [{"op": "sync_run", "n": w.n, "probe": PROBE, "steps": w.macro} for w in worlds]
    if not reqs:
        return []
    try:
        return C.run_driver(reqs)
    except Exception as e:
        return [{"driver_error": f"{type(e).__name__}: {e}"}] * len(reqs)


def canon_model(out):
    """model response → same canonical shape as World.observe()."""
    wr = out["wr"]
    cn, nn = {}, {}
    for k, (_, c, v) in enumerate(wr):
        cn.setdefault(c, f"c{k}")
        nn[v] = f"n{k}"

    def ref(r):
        if r is None:
            return None
        return {"notes": sorted([cn.get(c, f"?{c}"), nn.get(v, f"?{v}")] for c, v in r["notes"]), "n": r["n"]}

    steps = []
    for s in out["steps"]:
        steps.append({"remote": ref(s["remote"]), "rst": s.get("rst"), "rhas": sorted(cn.get(c, f"?{c}") for c in s["rhas"]),
                      "clones": [{"loc": ref(c["loc"]), "trk": ref(c["trk"]), "locSt": c.get("locSt"), "trkSt": c.get("trkSt"),
                                  "has": sorted(cn.get(x, f"?{x}") for x in c["has"])}
                                 for c in s["clones"]],
                      "tags": s.get("tags", [])})
    return steps


def compare(world, out):
    """first disagreement between prediction and observation, or None."""
    if not isinstance(out, dict) or "steps" not in out:
        return {"driver": out}
    steps = canon_model(out)
    if len(steps) != len(world.obs):
        return {"steps": [len(steps), len(world.obs)]}
    if len(out["wr"]) != world.nevents:
        return {"writes": {"model": len(out["wr"]), "impl": world.nevents}}
    for k, (m, o) in enumerate(zip(steps, world.obs)):
        where = None
        if m["remote"] != o["remote"]:
            where = ("remote", m["remote"], o["remote"])
        elif m["rst"] != o["rst"]:
            where = ("remote.storage", m["rst"], o["rst"])
        elif m["rhas"] != o["rhas"]:
            where = ("remote.has", m["rhas"], o["rhas"])
        else:
            for i, (mc, oc) in enumerate(zip(m["clones"], o["clones"])):
                if oc is None:
                    oc = {"loc": None, "trk": None, "locSt": "absent", "trkSt": "absent", "has": []}
                for f in ("loc", "trk", "locSt", "trkSt", "has"):
                    if mc[f] != oc[f]:
                        where = (f"c{i}.{f}", mc[f], oc[f])
                        break
                if where:
                    break
        if where:
            return {"step": k, "label": world.labels[k], "at": where[0], "model": where[1], "impl": where[2]}
    return None


def run_spec(spec):
    """execute one scenario on the implementation; returns its Rec (env removed)."""
    w = World(spec)
    try:
        with w.env:
            w.setup()
            w.run()
    except Exception as e:   # harness problem, not a verdict
        w.errors.append(f"exception: {type(e).__name__}: {e}")
    return Rec(w)


# ------------------------------------------------------------------ generators
def gen_spec(rng, kernel):
    n = rng.choice([2, 2, 3])
    length = rng.randint(6, 10)
    lazy = [False] + [rng.random() < 0.35 for _ in range(n - 1)]
    rng.shuffle(lazy)
    steps = []
    ncommit = 0
    for _ in range(length):
        r = rng.random()
        i = rng.randrange(n)
        if ncommit == 0 and r > 0.25:
            r = 0.0
        if ncommit and rng.random() < 0.16:      # repository maintenance, clone or (less often) the bare remote
            if rng.random() < 0.2:
                steps.append([rng.choice(["rgc", "rpackrefs"]), 0])
            else:
                steps.append([rng.choice(["gc", "gc", "packrefs"]), i])
            continue
        if r < 0.34:
            steps.append(["commit", i]); ncommit += 1
        elif r < 0.56:
            steps.append(["push", i])
        elif r < 0.70:
            steps.append(["fetch", i])
        elif r < 0.80:
            steps.append(["pull", i])
        elif r < 0.90:
            j = rng.choice([x for x in range(n) if x != i])
            steps.append([rng.choice(["race", "race", "raceh"]), i, j])
        elif kernel:
            steps.append(["rewrite", i, rng.randrange(max(1, ncommit))])
        else:
            steps.append(["commit", i]); ncommit += 1
    return {"n": n, "lazy": lazy, "pull_mode": rng.choice(["ff", "merge"]), "steps": steps, "tail": True}


def gen_gc_spec(rng):
    """targeted: a clone with unpushed notes packs its refs, the remote's notes ref moves, the clone syncs —
    the configuration in which `ref_exists(refs/notes/ai)` is asked about a packed ref while the tracking
    ref has just been rewritten (loose)."""
    n = rng.choice([2, 2, 3])
    a = rng.randrange(n)
    b = rng.choice([x for x in range(n) if x != a])
    steps = []
    for _ in range(rng.randint(0, 3)):                     # some history first (synced or not)
        steps.append([rng.choice(["commit", "push", "fetch", "pull"]), rng.randrange(n)])
    steps.append(["commit", a])
    if rng.random() < 0.3:
        steps.append(["commit", a])
    moved = [["commit", b], ["push", b]]
    maint = [[rng.choice(["gc", "gc", "packrefs"]), a]]
    if rng.random() < 0.5:
        mid = maint + moved
    else:                                                  # gc after the remote moved: same configuration
        mid = moved[:1] + maint + moved[1:] if rng.random() < 0.5 else moved + maint
    steps += mid
    if rng.random() < 0.25:
        steps.append([rng.choice(["rgc", "rpackrefs"]), 0])
    steps.append([rng.choice(["fetch", "pull", "push", "push"]), a])
    for _ in range(rng.randint(0, 2)):
        steps.append([rng.choice(["commit", "push", "fetch", "gc"]), rng.randrange(n)])
    lazy = [False] * n
    if n == 3 and rng.random() < 0.4:
        lazy[[x for x in range(n) if x not in (a, b)][0]] = True
    return {"n": n, "lazy": lazy, "pull_mode": rng.choice(["ff", "merge"]), "steps": steps, "tail": True}


def canonical_first_use(seq):
    """clone ids appear in order of first use (symmetry reduction: clones are interchangeable)."""
    seen = []
    for (_, i) in seq:
        if i not in seen:
            if i != len(seen):
                return False
            seen.append(i)
    return True


# ------------------------------------------------------------------ accounting
def account(res, w, out, origin, retry=2):
    """fold one executed scenario into the result; returns True iff prediction == observation.
    A disagreement (or a scenario that could not be executed) without any oracle failure is
    re-executed from scratch: scenarios are deterministic, so only a disagreement that persists
    counts as a broken tie; transient ones (an overloaded machine making a user-level git command
    fail) are counted in the evidence. Oracle failures are never filtered."""
    key = json.dumps({k: w.spec[k] for k in ("n", "lazy", "pull_mode", "steps") if k in w.spec}, sort_keys=True)
    res.count_case(key)
    tags = [f"n={w.n}", f"pull_mode={w.pull_mode}", f"origin={origin}", f"lazy={sum(1 for x in w.lazy if x)}",
            "single-writer" if not w.rewrote else "with-foreign-rewrite"]
    tags += ["step:" + l.split()[0] for l in w.labels]
    if isinstance(out, dict) and "steps" in out:
        for s in out["steps"]:
            tags += ["model:" + t for t in s.get("tags", [])]
    res.tag(tags)
    for f in w.failures:
        res.tags["oracle-failed:" + f["sig"]] = res.tags.get("oracle-failed:" + f["sig"], 0) + 1
        res.oracle_failure(f["sig"], {"scenario": w.spec, "step": f["step"], "label": f["label"], "detail": f["detail"],
                                      "labels": w.labels,
                                      "replay": "python3 -c \"from vlib.props import c10; c10.replay(<this witness' scenario>)\" (cwd /verif)"},
                           what=f["what"])
    d = {"errors": w.errors[:3]} if w.errors else compare(w, out)
    if not d:
        return True
    detail = {"scenario": w.spec, "labels": w.labels, "first_difference": d, "failed_commands": w.diag}
    if not w.failures and retry > 0:
        w2 = run_spec(w.spec)
        out2 = run_model([w2])[0]
        if not w2.errors and not w2.failures and compare(w2, out2) is None:
            res.tag(["transient-disagreement (re-execution agrees with the model)"])
            res.extra.setdefault("transient_disagreements", []).append(C.trunc(detail, 1200))
            return True
        return account(res, w2, out2, origin + ":retry", retry - 1)
    res.broken_tie("e2e scenario could not be executed" if w.errors else "correspondence:sync-e2e", detail)
    return False


def run_batch(res, specs, origin):
    with concurrent.futures.ThreadPoolExecutor(WORKERS) as ex:
        worlds = list(ex.map(run_spec, specs))
    outs = run_model(worlds)
    ok = True
    for w, out in zip(worlds, outs):
        ok = account(res, w, out, origin) and ok
    if worlds:
        w = worlds[0]
        res.sample({"scenario": w.spec, "labels": w.labels, "final": C.trunc(w.obs[-1] if w.obs else None, 600)})
    return ok, worlds


def set_probe_from_source():
    """PROBE := what refs.rs:ref_exists is in the working tree (no file is written)."""
    global PROBE
    import importlib, sys
    sys.path.insert(0, os.path.join(C.VERIF, "extract"))
    try:
        import sync_ref_probes as X
        importlib.reload(X)
        PROBE = X.extract()["ref_exists"]["probe"]
    except Exception:
        PROBE = "unknown"


def replay_cli(path, spec):
    """./check C10 --replay <path>: a failing-input replay re-executes the recorded scenario on the binary built
    from the working tree and re-evaluates the oracles; any other replay re-runs the recorded tier and seed."""
    w = spec.get("witness") if isinstance(spec, dict) else None
    if spec.get("kind") != "failing-input" or not isinstance(w, dict) or "scenario" not in w:
        m = re.search(r"-(\d+)-(quick|thorough)\.json$", path)
        return run(spec.get("tier") or (m.group(2) if m else "quick"), int(spec.get("seed") or (m.group(1) if m else 1)))
    world = replay(w["scenario"])
    same = [f for f in world.failures if f["sig"] == spec.get("sig")]
    if world.failures:
        print(f"VIOLATION property={PROP} replay={path} reproduced={'yes' if same else 'other: ' + world.failures[0]['sig']}")
        return 1
    print(f"[{PROP}] replay {path}: the recorded scenario no longer fails (oracles all hold)")
    return 0


def replay(spec):
    """re-run one scenario and print observations, prediction and oracle verdicts."""
    ok, out = C.build_git_ai()
    set_probe_from_source()
    w = run_spec(spec)
    m = run_model([w])[0]
    print(json.dumps({"labels": w.labels, "failures": w.failures, "errors": w.errors, "first_difference": compare(w, m),
                      "observed": w.obs}, indent=1))
    return w


# ------------------------------------------------------------------ exhaustive small scope (thorough)
def enum_alphabet(n, with_gc=False):
    return [(k, i) for k in (("commit", "push", "fetch", "gc") if with_gc else ("commit", "push", "fetch")) for i in range(n)]


def gc_useful(seq, a):
    """a `gc` of clone i is explored only right after something happened in clone i since its last gc
    (a second gc in a row, or a gc of a clone that did nothing yet, changes nothing)."""
    if a[0] != "gc":
        return True
    for (k, i) in reversed(seq):
        if i == a[1]:
            return k != "gc"
    return False


def enum_subtree(args):
    """worker (own process): execute every ordering extending `prefix` up to `depth` steps with
    shared prefixes — the scratch tree is copied at each branching —, run pushAll+fetchAll at each
    leaf; returns the leaves' Recs and counters."""
    n, depth, prefix, deadline, with_gc = args
    alphabet = enum_alphabet(n, with_gc)
    done, stats = [], {"nodes": 0, "leaves": 0, "complete": True}

    def real(kind, salt):
        if kind == "gc":
            return "packrefs" if salt % 4 == 1 else "gc"
        return "pull" if kind == "fetch" and (salt % 3 == 0) else kind

    def descend(world, raw, seq, steps):
        stats["nodes"] += 1
        late = time.time() > deadline
        if len(seq) == depth or late:
            if late and len(seq) < depth:
                stats["complete"] = False
            stats["leaves"] += 1
            world.tail(raw, light=True)
            done.append(Rec(world))
            return
        kids = [a for a in alphabet if canonical_first_use(seq + [a]) and gc_useful(seq, a)]
        for ci, a in enumerate(kids):
            if ci == len(kids) - 1:
                child = world                      # the last child continues in the parent's tree
            else:
                child = World(dict(world.spec), ForkEnv(world.env))
                child.reopen()
                for f in ("events", "macro", "labels", "obs", "failures", "errors"):
                    setattr(child, f, list(getattr(world, f)))
                child.blob_text = dict(world.blob_text)
                child.ncommit, child.rewrote = world.ncommit, world.rewrote
            st2 = steps + [[real(a[0], len(seq) + a[1]), a[1]]]
            child.spec = dict(world.spec, steps=st2)
            try:
                r2 = child.do(st2[-1], raw)
                descend(child, r2, seq + [a], st2)
            except Exception as e:
                child.errors.append(f"exception: {type(e).__name__}: {e}")
                done.append(Rec(child))
            finally:
                if child is not world:
                    shutil.rmtree(child.env.root, ignore_errors=True)

    w = World({"n": n, "lazy": [False] * n, "pull_mode": "ff", "relurl": True, "light": True, "steps": [], "tail": True})
    try:
        with w.env:
            w.setup()
            raw, seq = None, []
            steps = []
            for a in prefix:
                steps.append([real(a[0], len(seq) + a[1]) if a[0] == "gc" else a[0], a[1]])
                w.spec = dict(w.spec, steps=[list(x) for x in steps])
                raw = w.do(steps[-1], raw)
                seq.append(a)
            descend(w, raw, seq, steps)
    except Exception as e:
        w.errors.append(f"exception: {type(e).__name__}: {e}")
        done.append(Rec(w))
    return done, stats


def enumerate_orderings(res, n, depth, rng, deadline, with_gc=False):
    """all orderings of ≤ depth steps over {commit, push, fetch|pull (, gc|pack-refs)} × n clones, up to renaming
    of clones (ids in order of first use; a gc only where it can change something). Every step of every ordering is compared with the
    model and judged by the step oracles; every maximal ordering is followed by pushAll+fetchAll
    and the convergence oracle (shorter orderings are its prefixes). Search aid only."""
    alphabet = enum_alphabet(n, with_gc)
    roots = [[a] for a in alphabet if canonical_first_use([a]) and gc_useful([], a)]
    for _ in range(min(2, depth) - 1):
        roots = [r + [a] for r in roots for a in alphabet if canonical_first_use(r + [a]) and gc_useful(r, a)]
    rng.shuffle(roots)
    total = {"nodes": 0, "leaves": 0, "complete": True, "subtrees": len(roots)}
    ok = True
    with concurrent.futures.ProcessPoolExecutor(WORKERS) as ex:
        for done, st in ex.map(enum_subtree, [(n, depth, r, deadline, with_gc) for r in roots]):
            total["nodes"] += st["nodes"]; total["leaves"] += st["leaves"]
            total["complete"] = total["complete"] and st["complete"]
            outs = run_model(done)
            for w, out in zip(done, outs):
                ok = account(res, w, out, f"enum{n}{'gc' if with_gc else ''}") and ok
    return ok, total


# ------------------------------------------------------------------ entry point
def run(tier, seed):
    """a run against a scratch copy of the repository (VERIF_REPO, mutation testing) regenerates the shared
    Extracted/SyncRefProbes.lean from that copy; put the table of the real tree back afterwards"""
    global _SAVED
    _SAVED = open(EXTRACTED).read() if C._ALT and os.path.exists(EXTRACTED) else None
    try:
        return run_(tier, seed)
    finally:
        restore_extracted()


_SAVED = None


def restore_extracted():
    """(scratch-copy runs only) the shared table describes the real tree again as soon as the proofs were checked"""
    global _SAVED
    if _SAVED is not None:
        with C.Lock("lake"):
            C.write_if_changed(EXTRACTED, _SAVED)
        _SAVED = None


def run_(tier, seed):
    res = C.Result(PROP, tier, seed)
    res.rule = ("end-to-end: one case = one scenario (number of clones, which clones are created late, pull flavour, "
                "ordered list of commit/push/fetch/pull/raced-push/foreign-rewrite steps and `git gc` / `git pack-refs --all` "
                "in a clone or on the bare remote, followed by pushAll+fetchAll) "
                "executed on the git-ai binary built from the working tree and on the Lean model (with the existence probe "
                "extracted from refs.rs); after every step every "
                "repository's notes (keys, texts, notes-commit count, tracking ref, where each ref is stored: loose / packed / "
                "absent) and held commits are compared; distinct = distinct scenario JSON")
    res.trusted = ["Lean 4.33 kernel (axioms: propext, Quot.sound, Classical.choice only)",
                   "vlib/props/c10.py scenario runner, canonicalisation and oracles; vlib/e2e.py",
                   "git 2.39.5 as the kernel: `notes merge -s ours` (transcribed as mergeVal/notesMerge), update-ref, "
                   "fast-forward rule of a non-forced push, ref CAS on the receiving side; files ref backend: gc / pack-refs move "
                   "loose refs into packed-refs without changing a value, a write of a new value makes the ref loose, a write of "
                   "the same value is skipped; `show-ref --verify` / `rev-parse --verify` resolve loose and packed refs, a file "
                   "test sees loose ones only (probeSem) — validated per step by the runs (storage is observed), not proved",
                   "extract/sync_ref_probes.py (textual: argv literals of the exec_git call in ref_exists, file-system markers "
                   "in the helpers, brace structure of the merge-or-copy decision)"]
    res.assumptions = ["operations are atomic at command granularity (the property's quantifier); the only sub-command "
                       "interleaving considered is another clone's whole push between the steps of a push (race_partial)",
                       "`git notes merge` does not fail (its error is ignored by the code; not modelled)",
                       "repository maintenance = `git gc` / `git pack-refs --all` (refs move to packed-refs; gc prunes only "
                       "unreachable objects older than two weeks); `git notes prune` is a user-level deletion of notes and stays "
                       "outside, like every other deletion",
                       "notes are never deleted by git-ai (NoDeletion is an invariant of the model, merge_no_loss_reachable)",
                       "SingleWriter for `convergence`: only a commit's author writes its note "
                       "(convergence_needs_single_writer shows what happens otherwise)"]
    # how ref_exists asks is read off the source BEFORE the Lean build: Props/C10.lean decides
    # `extracted_ref_probe` on the regenerated table
    phase_probe(res)
    if not C.phase_proofs(res, PROP, THEOREMS):
        C.lake_build(["driver"])      # the model runs below need the driver even when a theorem no longer checks
    restore_extracted()
    shape = source_shape()
    res.obligation("source shape: non-forced push refspec, forced fetch into tracking ref, merge -s ours", not shape, "extraction")
    if shape:
        res.broken_tie("source shape assumed by Model/Sync.lean", shape)
    ok, out = C.build_git_ai()
    if not ok:
        res.obligation("build git-ai from the working tree", False, "build")
        res.broken_tie("git-ai build", out[-3000:])
        return res.finish()
    rng = random.Random(seed)
    # corpus first
    corpus = []
    if os.path.exists(CORPUS):
        for line in open(CORPUS):
            line = line.strip()
            if line and not line.startswith("#"):
                corpus.append(json.loads(line))
    tie_ok, _ = run_batch(res, corpus, "corpus")
    nq = 40 if tier == "quick" else 320
    specs = [gen_spec(rng, kernel=(k % 3 == 2)) for k in range(nq)]
    ok2, _ = run_batch(res, specs, "generated")
    ok2b, _ = run_batch(res, [gen_gc_spec(rng) for _ in range(16 if tier == "quick" else 160)], "generated-gc")
    tie_ok = tie_ok and ok2 and ok2b
    if not res.violations:
        if tier == "thorough":
            budget = float(os.environ.get("VERIF_C10_BUDGET_S", "1500"))
            d2 = int(os.environ.get("VERIF_C10_DEPTH2", "6"))
            d3 = int(os.environ.get("VERIF_C10_DEPTH3", "5"))
        else:
            budget, d2, d3 = 100.0, 3, 0
        t0 = time.time()
        dg = int(os.environ.get("VERIF_C10_DEPTHGC", str(max(3, d2 - 1))))
        okg, stg = enumerate_orderings(res, 2, dg, rng, t0 + budget * 0.35, with_gc=True)
        enum = {"2 clones with gc/pack-refs": dict(stg, depth=dg)}
        ok3 = okg
        if d2 > dg:       # the orderings without maintenance are among those with it up to depth dg
            ok3, st2 = enumerate_orderings(res, 2, d2, rng, t0 + budget * 0.7)
            ok3 = ok3 and okg
            enum["2 clones"] = dict(st2, depth=d2)
        ok4 = True
        if d3:
            ok4, st3 = enumerate_orderings(res, 3, d3, rng, t0 + budget)
            enum["3 clones"] = dict(st3, depth=d3)
        enum["note"] = ("all orderings of <= depth steps up to renaming of clones; bounded enumeration supports the "
                        "correspondence and the failing-input search only; complete=false means the time budget cut it")
        res.extra["enumeration"] = enum
        tie_ok = tie_ok and ok3 and ok4
    res.obligation("correspondence:sync-e2e (model prediction = observation after every step)", tie_ok and not shape, "correspondence")
    need = ["model:fetch-copy", "model:pmerge-merge3", "model:send-rejected", "model:send-create", "model:send-ff", "model:fetch-ff",
            "model:maint-packs", "model:maintremote-packs", "model:probe:loc-packed-trk-loose", "model:probe:trk-packed"]
    missing = [t for t in need if not res.tags.get(t)]
    res.obligation("coverage floor: copy / three-way merge / fast-forward / rejected / first push / gc packing refs / ref_exists "
                   "asked about a packed local ref while the tracking ref is loose — all exercised", not missing, "coverage")
    if missing:
        res.broken_tie("coverage floor", {"model branches never taken": missing})
    if res.broken and not res.violations:
        # a tie broke and no oracle has failed yet: search for a failing input on the implementation
        tried = 0
        for s in range(seed + 1000, seed + 1004):
            r2 = random.Random(s)
            run_batch(res, [gen_spec(r2, kernel=(k % 2 == 1)) for k in range(32)] + [gen_gc_spec(r2) for _ in range(24)], f"search:{s}")
            tried += 56
            if res.violations:
                break
        res.extra["search"] = f"{tried} extra generated scenarios (up to 4 seeds, incl. gc-then-sync patterns), all oracles evaluated on the implementation"
    return res.finish()
