"""C11 — concurrent git-ai activity in one repository loses nothing (DESIGN §8 C11).

Proof:   lean/GitAiModel/Props/C11.lean over Model/Conc.lean (k processes, atomic read/write steps on
         shared cells, locking disciplines none / append / full / tbl; `locked_serializable` for every schedule;
         `mixed_writers_serializable` for batch + single notes writers under the lock order extracted from
         src/git/refs.rs; `read_before_lock_loses_note` for the order read < lock < write).
Tie:     extract/notes_lock_order.py regenerates Extracted/NotesLockOrder.lean (order of the lock / tip-read /
         ref-write statements of every writer of refs/notes/ai; `extracted_lock_order` decides lock < read < write);
         a controller (vlib/props/c11_util.py) drives real `git-ai checkpoint` / `git commit` processes
         through named sync points (feature verif-hooks, GIT_AI_VERIF_SYNC_DIR) along every
         interleaving of their lock / snapshot / read / write points; the trace of points and the final
         journals / rewrite logs / notes are compared with the model run under the same schedule
         (driver op `conc_run`, mode = the lock table computed from the extracted statement order; it equals
         `full` on the unchanged tree). Mixed schedules: a batch writer (cherry-pick / rebase in a linked worktree)
         against single writers (commit in other worktrees) through every interleaving of their notes points.
Oracles (evaluated on the real files, independent of the model): every reported file state is
         recorded, lines only one reporter ever saw are credited to it, the journal equals the result of
         a real serial execution in one of the possible orders, every commit's rewrite event and note
         are present and intact, blame shows the AI lines; plus an uncontrolled stress run.
"""
import concurrent.futures, itertools, json, os, re, subprocess, time, traceback

from vlib import common as C, e2e
from vlib.props import c11_util as U

PROP = "C11"
THEOREMS = [
    "GitAi.Conc.lost_update_witness", "GitAi.Conc.lost_update_witness_rewrite_log",
    "GitAi.Conc.lost_update_witness_notes", "GitAi.Conc.lost_update_witness_notes_cas",
    "GitAi.Conc.narrow_lock_witness",
    "GitAi.Conc.locked_serializable", "GitAi.Conc.locked_journal_intact",
    "GitAi.Conc.locked_rewrite_log_present", "GitAi.Conc.locked_notes_present",
    "GitAi.Conc.journal_paths_injective", "GitAi.Conc.rewrite_log_paths_injective",
    "GitAi.Conc.cell_kinds_disjoint", "GitAi.Conc.worktree_isolation",
    "GitAi.Conc.fallback_collision_witness", "GitAi.Conc.same_file_race_equivalent",
    "GitAi.Conc.extracted_lock_order", "GitAi.Conc.mixed_writers_serializable_of_ok",
    "GitAi.Conc.mixed_writers_serializable", "GitAi.Conc.read_before_lock_order",
    "GitAi.Conc.unheld_lock_order", "GitAi.Conc.read_before_lock_loses_note",
]
MODE = "full"      # the locking discipline of Model/Conc.lean that is tied to the code; run() replaces it by the
                   # table {"add": POS, "batch": POS} computed (driver op conc_table) from the extracted lock order
CORPUS = os.path.join(C.VERIF, "corpus", "C11", "scenarios.jsonl")


# ---------------------------------------------------------------- static tie (extraction)

def extract_lock_sites():
    """Shape of the code the `full` discipline describes; returns (facts, problems)."""
    src = lambda p: open(os.path.join(C.REPO, p), encoding="utf-8").read()
    problems, facts = [], {}
    rl = src("src/git/rewrite_log.rs")
    m = re.search(r"const\s+MAX_EVENTS\s*:\s*usize\s*=\s*(\d+)\s*;", rl)
    facts["MAX_EVENTS"] = int(m.group(1)) if m else None
    if not m:
        problems.append("rewrite_log.rs: const MAX_EVENTS not found")

    def body(text, name):
        i = text.find(f"fn {name}(")
        if i < 0:
            return None
        j = text.find("{", i)
        depth, k = 0, j
        while k < len(text):
            if text[k] == "{":
                depth += 1
            elif text[k] == "}":
                depth -= 1
                if depth == 0:
                    return text[j:k + 1]
            k += 1
        return None

    def ordered(bodytext, *needles):
        pos = -1
        for n in needles:
            pos = bodytext.find(n, pos + 1)
            if pos < 0:
                return False
        return True

    b = body(rl, "append_event_to_file")
    facts["append_event_to_file"] = bool(b) and ordered(b, "lock_for_update(", "read_to_string(", "std::fs::write(")
    rs = src("src/git/repo_storage.rs")
    b = body(rs, "append_checkpoint")
    facts["append_checkpoint"] = bool(b) and ordered(b, "lock_checkpoints()", "append_checkpoint_locked(")
    b = body(rs, "append_checkpoint_locked")
    facts["append_checkpoint_locked"] = bool(b) and ordered(b, "read_all_checkpoints()", "prune_old_char_attributions(", "write_all_checkpoints(")
    ck = src("src/commands/checkpoint.rs")
    b = body(ck, "run")
    facts["checkpoint::run"] = bool(b) and ordered(b, "lock_checkpoints()", "get_all_tracked_files(", "read_all_checkpoints()",
                                                    "get_checkpoint_entries(", "append_checkpoint_locked(")
    rf = src("src/git/refs.rs")
    for fn in ("notes_add", "notes_add_batch", "notes_add_blob_batch", "merge_notes_from_ref"):
        b = body(rf, fn)
        facts[fn] = bool(b) and ordered(b, "lock_notes_ref(", "exec_git")
    ut = src("src/utils.rs")
    b = body(ut, "acquire")
    facts["LockFile::acquire"] = bool(b) and ordered(b, "try_lock()", "WouldBlock")
    for k, v in facts.items():
        if v is False:
            problems.append(f"{k}: the lock is not taken before the read-modify-write (expected shape not found)")
    return facts, problems


def phase_lock_order(res):
    """extract/notes_lock_order.py → Extracted/NotesLockOrder.lean (before the Lean build); returns the rows"""
    import importlib, sys
    sys.path.insert(0, os.path.join(C.VERIF, "extract"))
    import notes_lock_order as X
    importlib.reload(X)
    name = "extract NotesLockOrder (every writer of refs/notes/ai*: order of lock / tip read / ref write)"
    try:
        x, _ = X.main()
    except X.ExtractError as e:
        res.obligation(name, False, "extraction")
        res.broken_tie(name, str(e))
        return None
    except Exception as e:
        res.obligation(name, False, "extraction")
        res.broken_tie(name, f"{type(e).__name__}: {e}")
        return None
    res.obligation(name, True, "extraction")
    res.extra["notes_lock_order"] = {
        "writers": [{k: r[k] for k in ("file", "line", "name", "cls", "events", "held")} for r in x["rows"]],
        "other_refs": [{k: r[k] for k in ("file", "name", "ref", "events", "held")} for r in x["others"]],
        "update_ref_callers": x["unserialised"], "outside_quantifier": x["out_of_quantifier"]}
    return x["rows"]


def lock_table(res, rows):
    """the model's lock table for the extracted rows (driver: tableOf); obligation lock < read < write per writer"""
    global MODE
    MODE = "full"
    if rows is None:
        return
    resp = C.run_driver([{"op": "conc_table", "writers": [{"cls": r["cls"], "events": r["events"], "held": r["held"]} for r in rows]}])[0]
    if not isinstance(resp, dict) or "add" not in resp:
        res.obligation("extraction: lock order table (driver conc_table)", False, "extraction")
        res.broken_tie("extraction:lock-order", {"driver": resp})
        return
    MODE = {"add": resp["add"], "batch": resp["batch"]}
    res.extra["notes_lock_order"]["table"] = dict(MODE)
    bad = [dict(name=r["name"], events=r["events"], held=r["held"], pos=m["pos"]) for r, m in zip(rows, resp["rows"]) if not m["ok"]]
    res.obligation("extraction: every writer of refs/notes/ai takes the notes lock before it reads the tip, reads before it "
                   "writes and holds the guard until it returns (lock < read < write)", not bad, "extraction")
    if bad:
        res.broken_tie("extraction:lock-order", {"writers not lock < read < write": bad, "model table": MODE})


# ---------------------------------------------------------------- scenarios

def ckpt(wt, n, edits):
    return {"type": "ckpt", "wt": wt, "id": n, "edits": edits}


def commit(wt, n, empty=False):
    return {"type": "commit", "wt": wt, "id": n, "empty": empty}


def ncommit(wt, n):
    """a commit of which only the notes update is stepped (lock attempt, `git notes add`)"""
    return {"type": "commit", "wt": wt, "id": n, "empty": False, "notes_only": True}


def pick(wt, n):
    return {"type": "pick", "wt": wt, "id": n}


def rebase(wt, n):
    return {"type": "rebase", "wt": wt, "id": n}


KINDS2 = {
    # two reporters, different files
    "ckpt-distinct": [[ckpt(0, 1, [[0, [100]]])], [ckpt(0, 2, [[1, [101]]])]],
    # two reporters of one file, the second sees one more line
    "ckpt-same": [[ckpt(0, 1, [[0, [100]]])], [ckpt(0, 2, [[0, [100, 101]]])]],
    # two reporters of one file with the same content (the later one has nothing to add)
    "ckpt-same-equal": [[ckpt(0, 1, [[0, [100, 101]]])], [ckpt(0, 2, [[0, [100, 101]]])]],
    # reports of two files each, one file in common
    "ckpt-multi": [[ckpt(0, 1, [[0, [100]], [1, [110]]])], [ckpt(0, 2, [[1, [110, 111]], [2, [120]]])]],
    # two commits whose post-commit work (rewrite log, note) overlaps, same worktree
    "commit-same-wt": [[commit(0, 1, True)], [commit(0, 2, True)]],
    # commits in two linked worktrees (own rewrite logs, shared notes ref)
    "commit-linked": [[commit(1, 1)], [commit(2, 2)]],
    # a report in one worktree while another worktree commits
    "ckpt-vs-commit": [[ckpt(1, 1, [[0, [100]]])], [commit(2, 2)]],
}
STEPS = {"ckpt": 4, "commit": 5, "ncommit": 2, "pick": 3, "rebase": 3}   # sync points of one command under the full discipline

# mixed notes writers: one batch writer (notes_add_batch: lock, rev-parse of the tip, fast-import `from <tip>`) in a
# linked worktree against single writers (notes_add) in other worktrees; all interleavings of the notes points
MIXED2 = {
    "pick-vs-commit": [[pick(1, 1)], [ncommit(0, 2)]],
    "commit-vs-pick": [[ncommit(2, 1)], [pick(1, 2)]],
    "rebase-vs-commit": [[rebase(1, 1)], [ncommit(2, 2)]],
    "pick-vs-pick": [[pick(1, 1)], [pick(2, 2)]],
}
MIXED3 = {
    "pick-commit-commit": [[pick(1, 1)], [ncommit(0, 2)], [ncommit(2, 3)]],
    "pick-rebase-commit": [[pick(1, 1)], [rebase(2, 2)], [ncommit(0, 3)]],
    "pick-then-commit vs commit-then-commit": [[pick(1, 1), ncommit(1, 3)], [ncommit(0, 2), ncommit(0, 4)]],
}

KINDS3 = {
    "3-ckpt": [[ckpt(0, 1, [[0, [100]]])], [ckpt(0, 2, [[0, [100, 101]]])], [ckpt(0, 3, [[1, [110]]])]],
    "3-ckpt-2each": [[ckpt(0, 1, [[0, [100]]]), ckpt(0, 4, [[0, [100, 104]]])],
                     [ckpt(0, 2, [[1, [110]]]), ckpt(0, 5, [[0, [100, 104, 105]]])],
                     [ckpt(0, 3, [[2, [120]]])]],
    "3-commit-linked": [[commit(1, 1)], [commit(2, 2)], [commit(3, 3)]],
    "3-commit-2each": [[commit(1, 1), commit(1, 4)], [commit(2, 2), commit(2, 5)], [commit(0, 3, True)]],
}


QUICK_E2E_BUDGET_S = 100     # quick tier: no new sampled 2-process scenario is started later than this after the first
QUICK_PER_KIND = 14          # quick tier: sampled interleavings per same-kind 2-process scenario kind


def sample_schedules(rng, alls, n):
    """n of the interleavings `alls` of two processes: the four extreme ones (one process after the other, strictly
    alternating from either side) and a seeded sample of the rest"""
    if len(alls) <= n:
        return list(alls)
    c0, c1 = alls[0].count(0), alls[0].count(1)
    alt = lambda a, b, ca, cb: [x for i in range(max(ca, cb)) for x in ([a] if i < ca else []) + ([b] if i < cb else [])]
    fixed = [[0] * c0 + [1] * c1, [1] * c1 + [0] * c0, alt(0, 1, c0, c1), alt(1, 0, c1, c0)]
    fixed = [f for k, f in enumerate(fixed) if f in alls and f not in fixed[:k]]
    rest = [a for a in alls if a not in fixed]
    return fixed + rng.sample(rest, max(0, n - len(fixed)))


def step_counts(procs):
    return [sum(STEPS["ncommit" if c.get("notes_only") else c["type"]] for c in p) for p in procs]


def rng_schedules(rng, counts, n):
    """n distinct schedules with counts[i] entries of process i: half uniform shuffles, half made of
    runs (so that lock hand-overs happen at every phase of the holder)"""
    out, seen = [], set()
    tries = 0
    while len(out) < n and tries < n * 30:
        tries += 1
        if rng.random() < 0.5:
            s = [i for i, c in enumerate(counts) for _ in range(c)]
            rng.shuffle(s)
        else:
            rem = list(counts)
            s = []
            while any(rem):
                i = rng.choice([k for k, r in enumerate(rem) if r])
                run = rng.randint(1, rem[i])
                s += [i] * run
                rem[i] -= run
        t = tuple(s)
        if t not in seen:
            seen.add(t)
            out.append(s)
    return out


# ---------------------------------------------------------------- one controlled scenario

def canon_journal(items):
    return json.dumps(U.strip_private(items), sort_keys=True)


def serial_reference(procs, order):
    """Run the checkpoint commands one after the other on the real binary (no controller), in the
    given order of (process, command index); returns the canonical journal."""
    with e2e.Env() as env:
        w = U.World(env, nwt=1 + max(c["wt"] for p in procs for c in p))
        base = w.base_of(0)
        for (pi, ci) in order:
            cmd = procs[pi][ci]
            repo = w.wts[cmd["wt"]]
            for f, lines in cmd["edits"]:
                repo.write(U.file_name(f), U.content_text(lines))
            payload = {"type": "ai_agent", "repo_working_dir": repo.path,
                       "edited_filepaths": [U.file_name(f) for f, _ in cmd["edits"]],
                       "transcript": {"messages": []}, "agent_name": "mock_agent", "model": "m1",
                       "conversation_id": U.session(cmd["id"])}
            repo.ai("checkpoint", "agent-v1", "--hook-input", json.dumps(payload))
        items, err = w.read_journal(w.ckpt_key(0, base))
        return canon_journal(items) if items is not None else "unparseable"


_serial_cache = {}


def serial_outcomes(procs):
    key = json.dumps(procs, sort_keys=True)
    if key in _serial_cache:
        return _serial_cache[key]
    if not all(c["type"] == "ckpt" and c["wt"] == 0 for p in procs for c in p):
        _serial_cache[key] = None
        return None
    counts = [len(p) for p in procs]
    orders = []
    for seq in U.interleavings(counts):
        nxt = [0] * len(procs)
        o = []
        for pi in seq:
            o.append((pi, nxt[pi])); nxt[pi] += 1
        orders.append(o)
    if len(orders) > 6:
        _serial_cache[key] = None
        return None
    outs = set(serial_reference(procs, o) for o in orders)
    _serial_cache[key] = outs
    return outs


def oracles(run, obs, errors):
    """Property predicates on the real files; returns [(sig, detail)]."""
    fails = list(errors)
    w = run.world
    sc = run.sc
    cmds = [c for p in sc["procs"] for c in p]
    # --- checkpoints
    by_key = {}
    for pi, prog in enumerate(sc["procs"]):
        for c in prog:
            if c["type"] == "ckpt":
                by_key.setdefault(c["wt"], []).append(c)
    line_owner = {}
    for c in cmds:
        if c["type"] == "ckpt":
            for f, lines in c["edits"]:
                for l in lines:
                    line_owner.setdefault((c["wt"], l), set()).add(c["id"])
    for k, v in obs.items():
        if k[-1] != "checkpoints.jsonl" or v is None:
            continue
        wt = run.key_wt.get(k, 0)
        items = v["journal"]
        recorded = {(e["file"], tuple(l for l, _ in e["lines"])) for it in items for e in it["entries"]}
        for c in by_key.get(wt, []):
            for f, lines in c["edits"]:
                if (f, tuple(lines)) not in recorded:
                    fails.append(("lost-update:checkpoints.jsonl",
                                  {"report": c, "file": U.file_name(f), "journal": items}))
        for it in items:
            for e in it["entries"]:
                for l, cr in e["lines"]:
                    own = line_owner.get((wt, l), set())
                    if len(own) == 1 and cr != next(iter(own)):
                        fails.append(("wrong-credit:checkpoints.jsonl",
                                      {"line": l, "credited": cr, "only reporter": next(iter(own)), "journal": items}))
    # --- serial reference (real binary, both orders)
    ref = serial_outcomes(sc["procs"]) if sc.get("serial_ref", True) else None
    if ref is not None:
        for k, v in obs.items():
            if k[-1] == "checkpoints.jsonl" and v is not None and canon_journal(v["journal"]) not in ref:
                fails.append(("not-serializable:checkpoints.jsonl",
                              {"journal": v["journal"], "serial outcomes": sorted(ref)}))
    # --- commits: rewrite event, note, blame
    for c in cmds:
        if c["type"] not in ("commit", "pick", "rebase"):
            continue
        sha = run.commit_sha.get(c["id"])
        if not sha:
            continue
        if c["type"] == "commit":
            rk = tuple(w.rw_key(c["wt"]))
            rl = obs[rk]["rlog"] if obs.get(rk) else w.read_rlog(list(rk))
            # the scenario's events are the newest ones; retention (MAX_EVENTS) only drops the oldest
            if c["id"] not in rl:
                fails.append(("lost-update:rewrite_log", {"commit": c, "sha": sha, "rewrite_log": rl}))
        notes = dict(map(tuple, obs[tuple(w.notes_key())]["notes"]["map"]))
        if notes.get(c["id"]) != c["id"]:
            fails.append(("lost-note:notes-ref", {"commit": c, "sha": sha, "notes": sorted(notes.items())}))
        elif not c.get("empty"):
            repo = w.wts[c["wt"]]
            fn = f"c{c['id']}.txt"
            note = repo.note(sha)
            want = U.author_hash(c["id"])
            got = e2e.note_line_authors(note, fn)
            if got != {1: want}:
                fails.append(("note-not-intact", {"commit": c, "sha": sha, "file": fn, "note lines": got, "want": {1: want}}))
            bl = e2e.blame_line_hashes(repo.blame(fn))
            if bl != {1: want}:
                fails.append(("blame-misses-ai-line", {"commit": c, "sha": sha, "file": fn, "blame": bl, "want": {1: want}}))
    return fails


def run_controlled(sc):
    """→ dict(sc, failures, disagreements, tags, phys)"""
    out = {"sc": sc, "failures": [], "bad": [], "tags": [], "phys": [], "error": None}
    try:
        with e2e.Env() as env:
            run = U.ScenarioRun(sc, env).run()
            obs, errors = U.observe(run)
            out["failures"] = list(run.failures) + oracles(run, obs, errors)
            out["phys"] = [(pid, pt) for (pid, pt, _) in run.phys]
            # what the batched model comparison needs (the scratch repository is gone by then)
            out["request"] = U.model_request(run, MODE)
            out["cmp"] = {"phys": list(run.phys), "keys": sorted(run.keys), "obs": obs}
            out["path_requests"] = run.world.path_requests
    except Exception as ex:
        out["error"] = {"error": repr(ex), "trace": traceback.format_exc()[-1500:]}
    return out


# ---------------------------------------------------------------- stress (no controller)

def popen(repo, argv, proxy=False):
    e = dict(repo.env.env)
    t = repo.env.tick()
    e["GIT_AUTHOR_DATE"] = e["GIT_COMMITTER_DATE"] = f"{t} +0000"
    if proxy:
        e["GIT_AI"] = "git"
    return subprocess.Popen([repo.env.binary] + list(argv), cwd=repo.path, env=e, stdin=subprocess.DEVNULL,
                            stdout=subprocess.PIPE, stderr=subprocess.PIPE)


def wait_all(ps, timeout=180):
    res = []
    for p in ps:
        try:
            o, e = p.communicate(timeout=timeout)
            res.append((p.returncode, e.decode("utf-8", "replace")[-400:]))
        except subprocess.TimeoutExpired:
            p.kill()
            res.append((-9, "timeout"))
    return res


def ckpt_argv(repo, n, files):
    payload = {"type": "ai_agent", "repo_working_dir": repo.path, "edited_filepaths": files,
               "transcript": {"messages": []}, "agent_name": "mock_agent", "model": "m1", "conversation_id": U.session(n)}
    return ["checkpoint", "agent-v1", "--hook-input", json.dumps(payload)]


def stress_round(spec):
    kind, n, rnd = spec["kind"], spec["n"], spec["round"]
    fails = []
    try:
        with e2e.Env() as env:
            if kind in ("distinct", "same"):
                w = U.World(env)
                r = w.main
                base = w.base_of(0)
                if kind == "distinct":
                    for i in range(n):
                        r.write(U.file_name(i), U.content_text([100 + i]))
                    ps = [popen(r, ckpt_argv(r, i + 1, [U.file_name(i)])) for i in range(n)]
                else:
                    r.write(U.file_name(0), U.content_text([100, 101, 102]))
                    ps = [popen(r, ckpt_argv(r, i + 1, [U.file_name(0)])) for i in range(n)]
                rcs = wait_all(ps)
                for i, (rc, err) in enumerate(rcs):
                    if rc != 0:
                        fails.append(("process-failed", {"kind": kind, "n": n, "report": i + 1, "rc": rc, "stderr": err}))
                items, err = w.read_journal(w.ckpt_key(0, base))
                if items is None:
                    fails.append(("unparseable:checkpoints.jsonl", {"kind": kind, "n": n, "error": err}))
                elif kind == "distinct":
                    have = {(e["file"], it["id"]) for it in items for e in it["entries"]}
                    missing = [i + 1 for i in range(n) if (i, i + 1) not in have]
                    if missing or len(items) != n:
                        fails.append(("lost-update:checkpoints.jsonl",
                                      {"parallel reports": n, "checkpoints kept": len(items), "missing reports": missing}))
                    for it in items:
                        for e in it["entries"]:
                            if any(cr != it["id"] for _, cr in e["lines"]):
                                fails.append(("wrong-credit:checkpoints.jsonl", {"item": it}))
                else:
                    # serially: the first report records the file, the others find nothing new
                    if len(items) != 1 or [l for l, _ in items[0]["entries"][0]["lines"]] != [100, 101, 102]:
                        fails.append(("not-serializable:checkpoints.jsonl",
                                      {"parallel reports of one unchanged file": n, "journal": U.strip_private(items)}))
            elif kind == "rebase":
                # a rebase in one linked worktree (notes_add_batch: rev-parse + fast-import) while
                # another linked worktree commits (notes_add)
                w = U.World(env, nwt=3)
                r0, r1, r2 = w.wts
                r1.write("a.txt", "AIa\n"); r1.ai_checkpoint(U.session(1), ["a.txt"])
                old1 = r1.commit("c1")
                r0.write("m.txt", "m\n"); r0.commit("m1")
                r2.write("b.txt", "AIb\n"); r2.ai_checkpoint(U.session(2), ["b.txt"]); r2.git("add", "b.txt")
                ps = [popen(r1, ["rebase", "main"], proxy=True), popen(r2, ["commit", "-q", "-m", "c2"], proxy=True)]
                rcs = wait_all(ps)
                for i, (rc, err) in enumerate(rcs, 1):
                    if rc != 0:
                        fails.append(("process-failed", {"kind": kind, "worktree": i, "rc": rc, "stderr": err}))
                new1, sha2 = r1.head(), r2.head()
                if not old1 or new1 == old1:
                    fails.append(("runner-exception", {"error": "rebase did not rewrite the commit", "old": old1, "new": new1}))
                notes = r0.notes_list()
                for repo, sha, fn, n_ in ((r1, new1, "a.txt", 1), (r2, sha2, "b.txt", 2)):
                    want = {1: U.author_hash(n_)}
                    if sha not in notes:
                        fails.append(("lost-note:notes-ref", {"kind": kind, "file": fn, "sha": sha, "notes": len(notes)}))
                        continue
                    got = e2e.note_line_authors(repo.note(sha), fn)
                    if got != want:
                        fails.append(("note-not-intact", {"kind": kind, "file": fn, "note lines": got, "want": want}))
                    bl = e2e.blame_line_hashes(repo.blame(fn))
                    if bl != want:
                        fails.append(("blame-misses-ai-line", {"kind": kind, "file": fn, "blame": bl, "want": want}))
            else:   # parallel commits in linked worktrees, `n` worktrees, 2 commits each
                w = U.World(env, nwt=n + 1)
                shas = {}
                for k in range(2):
                    for i in range(1, n + 1):
                        repo = w.wts[i]
                        fn = f"c{i}_{k}.txt"
                        repo.write(fn, f"AI{i}_{k}\n")
                        repo.ai_checkpoint(U.session(10 * i + k), [fn])
                        repo.git("add", fn)
                    ps = [popen(w.wts[i], ["commit", "-q", "-m", f"w{i} c{k}"], proxy=True) for i in range(1, n + 1)]
                    rcs = wait_all(ps)
                    for i, (rc, err) in enumerate(rcs, 1):
                        if rc != 0:
                            fails.append(("process-failed", {"kind": kind, "worktree": i, "commit": k, "rc": rc, "stderr": err}))
                        shas[(i, k)] = w.wts[i].head()
                notes = w.main.notes_list()
                for (i, k), sha in shas.items():
                    repo = w.wts[i]
                    fn = f"c{i}_{k}.txt"
                    want = {1: U.author_hash(10 * i + k)}
                    if sha not in notes:
                        fails.append(("lost-note:notes-ref", {"worktrees": n, "worktree": i, "commit": k, "sha": sha,
                                                             "notes": len(notes)}))
                        continue
                    got = e2e.note_line_authors(repo.note(sha), fn)
                    if got != want:
                        fails.append(("note-not-intact", {"worktree": i, "commit": k, "note lines": got, "want": want}))
                    bl = e2e.blame_line_hashes(repo.blame(fn))
                    if bl != want:
                        fails.append(("blame-misses-ai-line", {"worktree": i, "commit": k, "blame": bl, "want": want}))
                for i in range(1, n + 1):
                    rl = open(U.join(w.rw_key(i))).read()
                    for k in range(2):
                        if shas[(i, k)] and shas[(i, k)] not in rl:
                            fails.append(("lost-update:rewrite_log", {"worktree": i, "commit": k}))
    except Exception as ex:
        fails.append(("runner-exception", {"error": repr(ex), "trace": traceback.format_exc()[-1200:]}))
    return spec, fails


# ---------------------------------------------------------------- phases

def n_threads(cap=12):
    """scenarios in flight: every scenario runs 2-3 git-ai processes plus git; more scenarios than cores only
    stretches the waits at the sync points (git-ai gives a point up after 20 s)"""
    return max(3, min(cap, os.cpu_count() or 4))


def mark(res, phase, t0):
    """per-phase wall time, printed and kept in the evidence"""
    dt = round(time.time() - t0, 1)
    res.extra.setdefault("phase_wall_s", {})[phase] = dt
    C.log(f"[C11] phase {phase}: {dt}s")


def phase_controlled(res, scs, name, threads=None, deadline=None):
    """runs the scenarios (in parallel, one scratch repository each); with a `deadline` (quick tier) scenarios
    that have not started by then are skipped and counted as such — never a failure"""
    t0 = time.time()
    threads = threads or n_threads()
    outs, skipped = [], 0
    with concurrent.futures.ThreadPoolExecutor(threads) as ex:
        pending = list(scs)
        while pending:
            if deadline is not None and time.time() > deadline:
                skipped = len(pending)
                break
            chunk, pending = pending[:threads * 2], pending[threads * 2:]
            outs += list(ex.map(run_controlled, chunk))
    # one driver call for all model runs and path-function checks of this phase
    good = [o for o in outs if not o["error"]]
    preqs = [pr for o in good for pr in o["path_requests"]]
    resps = C.run_driver([o["request"] for o in good] + [r for r, _ in preqs])
    for o, resp in zip(good, resps):
        o["bad"] = U.compare_with_model(o["cmp"], resp)
        if isinstance(resp, dict) and "max_events" in resp:
            res.extra["model_max_events"] = resp["max_events"]
        tr = resp.get("trace", []) if isinstance(resp, dict) else []
        o["tags"] = sorted(set("step=" + t for t in tr)) + [f"procs={len(o['sc']['procs'])}"]
        o["model"] = {"trace": tr, "done": resp.get("done"), "acqd": resp.get("acqd")} if isinstance(resp, dict) else None
    pbad = [(r, want, got) for (r, want), got in zip(preqs, resps[len(good):]) if got != want]
    res.obligation(name + " — path function aiDir/rewriteLogFile/notesRef vs the directories git-ai really uses",
                   not pbad, "correspondence")
    if pbad:
        res.broken_tie(name + " path function", {"request": pbad[0][0], "used": pbad[0][1], "model": pbad[0][2]})
    nbad, first = 0, None
    for o in outs:
        sc = o["sc"]
        res.count_case(json.dumps([sc["procs"], sc["schedule"]], sort_keys=True),
                       nontrivial=len(set(sc["schedule"])) > 1)
        res.tag([f"kind={sc['kind']}"] + o["tags"])
        if o["error"]:
            nbad += 1
            first = first or {"scenario": sc, "runner": o["error"]}
            continue
        if o["bad"]:
            nbad += 1
            first = first or {"scenario": sc, "disagreement": o["bad"][:2], "points": o["phys"]}
        for sig, detail in o["failures"]:
            res.oracle_failure(sig, {"scenario": {"kind": sc["kind"], "procs": sc["procs"], "schedule": sc["schedule"]},
                                     "points passed (process, point)": o["phys"], "detail": detail},
                               what=f"{sig}: under this schedule of the processes' sync points the update is not intact")
    if outs:
        o = outs[len(outs) // 2]
        res.sample({"scenario": o["sc"], "points": o["phys"], "model": o.get("model")}, cap=3)
    res.obligation(name, nbad == 0, "correspondence")
    cs = res.extra.setdefault("correspondence", {}).setdefault(name, {"compared": 0, "disagreements": 0})
    cs["compared"] += len(outs); cs["disagreements"] += nbad
    cs["wall_s"] = round(time.time() - t0, 1)
    cs["threads"] = threads
    if skipped:
        cs["not_run_time_budget"] = cs.get("not_run_time_budget", 0) + skipped
    C.log(f"[C11] {name[:70]}…: {len(outs)} scenarios, {skipped} not run (time budget), {cs['wall_s']}s")
    if nbad:
        res.broken_tie(name, {"disagreements": nbad, "of": len(outs), "first": first})
    return nbad


def phase_stress(res, rounds, seed, threads=None):
    threads = threads or max(2, min(4, (os.cpu_count() or 4) // 2))
    import random
    rng = random.Random(seed * 7919 + 11)
    specs = []
    for r in range(rounds):
        kind = ["distinct", "same", "linked", "distinct", "same", "linked", "rebase"][r % 7]
        n = rng.randint(8, 16) if kind in ("distinct", "same") else rng.randint(2, 3)
        specs.append({"kind": kind, "n": n, "round": r})
    t0 = time.time()
    with concurrent.futures.ThreadPoolExecutor(threads) as ex:
        outs = list(ex.map(stress_round, specs))
    nf = 0
    for spec, fails in outs:
        res.count_case(json.dumps(spec), nontrivial=True)
        res.tag([f"stress={spec['kind']}", f"stress-n={spec['n']}"])
        for sig, detail in fails:
            nf += 1
            res.oracle_failure(sig, {"stress": spec, "detail": detail},
                               what=f"{sig}: after {spec['n']} parallel git-ai processes ({spec['kind']})")
    res.extra["stress"] = {"rounds": rounds, "oracle_failures": nf, "wall_s": round(time.time() - t0, 1)}
    return nf


def load_corpus():
    out = []
    if os.path.exists(CORPUS):
        for ln in open(CORPUS):
            ln = ln.strip()
            if ln and not ln.startswith("#"):
                out.append(json.loads(ln))
    return out


def run(tier, seed):
    """a run against a scratch copy of the repository (VERIF_REPO, mutation testing) regenerates the shared
    Extracted/NotesLockOrder.lean from that copy; put the table of the real tree back afterwards"""
    out = os.path.join(C.LEAN, "GitAiModel", "Extracted", "NotesLockOrder.lean")
    saved = open(out).read() if C._ALT and os.path.exists(out) else None
    try:
        return run_(tier, seed)
    finally:
        if saved is not None:
            with C.Lock("lake"):
                C.write_if_changed(out, saved)


def run_(tier, seed):
    import random
    res = C.Result(PROP, tier, seed)
    res.rule = ("controlled: real `git-ai checkpoint agent-v1` / `git commit` processes released one sync point at a time "
                "(lock attempt, snapshot, read, write; notes add) along a schedule = list of process indices, continued "
                "round-robin; 7 same-kind scenario kinds of 2 processes (reports of distinct files / one file / equal content / "
                "several files, commits in one worktree, commits in two linked worktrees, report vs commit) + rewrite log at its "
                "retention limit: thorough = ALL interleavings of their points, quick = the 4 extreme schedules + a seeded sample "
                "per kind inside a wall-time budget (what was not run is recorded); thorough adds 3 processes with up to 2 "
                "commands each (sampled schedules). mixed notes writers: a batch writer (cherry-pick / rebase in a linked worktree: lock, "
                "rev-parse of the notes tip, fast-import) against single writers (commits in other worktrees: lock, git notes "
                "add) and against another batch writer — ALL interleavings of the notes points of 2 processes for the 3 "
                "batch-vs-single kinds (quick and thorough; batch-vs-batch: sampled in quick), sampled schedules of 3 processes / "
                "2 commands each for 3 kinds. distinct = distinct (programs, schedule); non-trivial = the schedule really interleaves "
                "(more than one process index). stress: 8-16 parallel reports / parallel commits in 2-3 linked worktrees "
                "without controller, and a rebase (batch note writer) racing a commit in another worktree")
    res.trusted = ["Lean 4.33 kernel (axioms: propext, Quot.sound, Classical.choice only)",
                   "vlib/props/c11_util.py controller and observation parsers; vlib/e2e.py independent note parser",
                   "extract/notes_lock_order.py (textual: which exec_git* call is the tip read / the ref write, from the string "
                   "literals pushed onto its argv; `let <name> = lock_notes_ref(..)` at the top level of the body)",
                   "atomicity of one read / one write of a file and of one git command at the granularity of the sync points",
                   "OS advisory lock semantics (flock): exclusive, released when the holder exits",
                   "git 2.39: `notes add` sets the ref without compare, fast-import compares (validated by the runs)"]
    res.assumptions = ["a lock wait never exceeds STORAGE_LOCK_TIMEOUT (30 s); after it git-ai proceeds unserialised, as before the repair",
                       "files a reporter does not name are unchanged since their latest snapshot (nobody edits without reporting)",
                       "all writers of the journals / refs/notes/ai are git-ai processes (a plain `git notes` by hand is not serialised)",
                       "fetch / push initialising refs/notes/ai from the tracking ref when no local notes exist (copy_ref: update-ref "
                       "without the notes lock) and refs/notes/ai-stash are outside the quantifier (checkpoint, commit, rewrite operations); "
                       "the extractor lists them and fails on any other writer",
                       "a checkpoint racing with a commit in the SAME worktree is outside the property (the base commit changes under it)"]
    t0 = time.time()
    ok, out = C.build_git_ai()
    mark(res, "build git-ai", t0)
    if not ok:
        res.obligation("build binary from /repo working tree", False, "build")
        res.broken_tie("build", out[-3000:])
        return res.finish()
    res.obligation("build binary from /repo working tree", True, "build")
    # the lock order of the notes writers is read off the source BEFORE the Lean build: Props/C11.lean decides
    # lock < read < write on the regenerated table (`extracted_lock_order`)
    t0 = time.time()
    rows = phase_lock_order(res)
    mark(res, "extract lock order", t0)
    t0 = time.time()
    if not C.phase_proofs(res, PROP, THEOREMS):
        C.lake_build(["driver"])      # the model runs below need the driver even when a theorem no longer checks
    mark(res, "lean build + axiom audit", t0)
    lock_table(res, rows)

    # static tie: the code has the shape the `full` discipline describes; MAX_EVENTS agrees
    facts, problems = extract_lock_sites()
    res.extra["extracted"] = facts
    res.obligation("extraction: lock held from before the first read to after the write at every read-modify-write site",
                   not problems, "extraction")
    if problems:
        res.broken_tie("extraction:lock-sites", problems)

    quick = tier == "quick"
    rng = random.Random(seed)
    e2e_t0 = time.time()
    # quick: the sampled phases stop starting new scenarios at this point (what was not run is in the evidence)
    deadline = e2e_t0 + QUICK_E2E_BUDGET_S if quick else None
    res.extra["quick_e2e_budget_s"] = QUICK_E2E_BUDGET_S if quick else None
    # 1. corpus (witness schedules of the pre-repair defects and of the seeded regressions) first
    corpus = load_corpus()
    if corpus:
        t0 = time.time()
        phase_controlled(res, corpus, "correspondence:conc-e2e corpus (model `full` vs binary, same schedule)")
        mark(res, "e2e corpus", t0)
    # 2. mixed notes writers: a batch writer against single writers (and against another batch writer).
    #    quick: ALL interleavings of batch-vs-single (3 kinds), a sample of batch-vs-batch and of 3 processes
    t0 = time.time()
    mixed = []
    for kind, procs in MIXED2.items():
        allm = list(U.interleavings(step_counts(procs)))
        if quick and kind == "pick-vs-pick":
            allm = sample_schedules(rng, allm, 8)
        for s in allm:
            mixed.append({"kind": "mixed:" + kind, "procs": procs, "schedule": s, "serial_ref": False})
    for kind, procs in MIXED3.items():
        for s in rng_schedules(rng, step_counts(procs), 5 if quick else 150):
            mixed.append({"kind": "mixed:" + kind, "procs": procs, "schedule": s, "serial_ref": False})
    res.extra["exhaustive_mixed_writers"] = {k: len(list(U.interleavings(step_counts(p)))) for k, p in MIXED2.items()
                                             if not (quick and k == "pick-vs-pick")}
    phase_controlled(res, mixed, "correspondence:conc-e2e mixed notes writers, batch (cherry-pick / rebase) vs single (commit): "
                                 "2-process interleavings + sampled 3-process schedules (model lock table vs binary)")
    mark(res, "e2e mixed notes writers", t0)
    # 3. two processes of the same kind: thorough = ALL interleavings; quick = the four extreme schedules
    #    (one after the other, strictly alternating) + a seeded sample per kind, inside the time budget
    t0 = time.time()
    scs = []
    for kind, procs in KINDS2.items():
        alls = list(U.interleavings(step_counts(procs)))
        for s in (sample_schedules(rng, alls, QUICK_PER_KIND) if quick else alls):
            scs.append({"kind": kind, "procs": procs, "schedule": s})
    # rewrite log at its retention limit (MAX_EVENTS): two appends on 199 seeded events
    for s in rng_schedules(rng, [5, 5], 4 if quick else 40):
        scs.append({"kind": "commit-same-wt-maxevents", "procs": KINDS2["commit-same-wt"], "schedule": s,
                    "seed_rewrite": (facts.get("MAX_EVENTS") or 200) - 2})
    if quick:
        rng.shuffle(scs)          # a cut by the time budget is spread over the kinds
    res.extra["two_process_interleavings"] = {k: len(list(U.interleavings(step_counts(p)))) for k, p in KINDS2.items()}
    res.extra["two_process_mode"] = f"sample of {QUICK_PER_KIND} per kind (incl. the 4 extreme schedules)" if quick else "exhaustive"
    phase_controlled(res, scs, "correspondence:conc-e2e 2-process interleavings (model `full` vs binary)" if quick else
                     "correspondence:conc-e2e all 2-process interleavings (model `full` vs binary)", deadline=deadline)
    mark(res, "e2e two processes", t0)
    # 4. three processes (thorough)
    if not quick:
        t0 = time.time()
        scs3 = []
        for kind, procs in KINDS3.items():
            for s in rng_schedules(rng, step_counts(procs), 300):
                scs3.append({"kind": kind, "procs": procs, "schedule": s})
        phase_controlled(res, scs3, "correspondence:conc-e2e 3 processes, up to 2 updates each, sampled schedules")
        mark(res, "e2e three processes", t0)
    mx = res.extra.get("model_max_events")
    res.obligation("extraction: rewrite_log.rs MAX_EVENTS equals the model's maxEvents", facts.get("MAX_EVENTS") == mx, "extraction")
    if facts.get("MAX_EVENTS") != mx:
        res.broken_tie("extraction:MAX_EVENTS", {"code": facts.get("MAX_EVENTS"), "model": mx})
    # 5. stress (quick: 2 rounds of each of the 7 kinds, 1 when the budget is already used up)
    t0 = time.time()
    phase_stress(res, (7 if time.time() > deadline else 14) if quick else 200, seed)
    mark(res, "stress", t0)

    if res.broken and not res.violations:
        # a tie broke and no oracle has failed yet: search the implementation harder (bounded in quick)
        t0 = time.time()
        per = 8 if quick else 30
        extra = []
        for kind, procs in KINDS2.items():
            for s in rng_schedules(rng, step_counts(procs), per):
                extra.append({"kind": kind, "procs": procs, "schedule": s})
        for kind, procs in KINDS3.items():
            for s in rng_schedules(rng, step_counts(procs), per):
                extra.append({"kind": kind, "procs": procs, "schedule": s})
        for kind, procs in MIXED3.items():
            for s in rng_schedules(rng, step_counts(procs), per + 10):
                extra.append({"kind": "mixed:" + kind, "procs": procs, "schedule": s, "serial_ref": False})
        rng.shuffle(extra)
        phase_controlled(res, extra, "search:conc-e2e extra schedules", deadline=time.time() + 90 if quick else None)
        nst = 14 if quick else 60
        phase_stress(res, nst, seed + 1)
        res.extra["search"] = (f"up to {len(extra)} extra controlled schedules (2 and 3 processes, mixed writers) and {nst} extra stress "
                               "rounds, all oracles evaluated on the implementation: no failing input found")
        mark(res, "search after a broken tie", t0)
    mark(res, "e2e total", e2e_t0)
    return res.finish()


def replay(path):
    """Re-run the witness of a replay file on the binary built from C.REPO:
        cd /verif && python3 -c "from vlib.props import c11; c11.replay('replays/C11-1-quick.json')"
    Prints the points passed, the oracle failures and the model disagreements; returns True when the
    witness still fails."""
    w = json.load(open(path))["witness"] if isinstance(path, str) else path
    ok, out = C.build_git_ai()
    if not ok:
        print(out[-2000:]); return None
    if "stress" in w:
        fails = []
        for k in range(20):       # uncontrolled: the race needs a few tries
            _, f = stress_round(dict(w["stress"], round=k))
            fails += f
            if f:
                break
        print(json.dumps(fails[:3], indent=1)[:3000])
        return bool(fails)
    sc = w["scenario"]
    # the model runs under the lock table of the tree that is replayed (nothing is written)
    global MODE
    try:
        import sys
        sys.path.insert(0, os.path.join(C.VERIF, "extract"))
        import notes_lock_order as X
        rows = X.extract()["rows"]
        t = C.run_driver([{"op": "conc_table", "writers": [{"cls": r["cls"], "events": r["events"], "held": r["held"]} for r in rows]}])[0]
        MODE = {"add": t["add"], "batch": t["batch"]}
    except Exception as ex:
        print("lock order not extracted:", ex)
        MODE = "full"
    print("model lock table:", MODE)
    o = run_controlled(sc)
    if o["error"]:
        print(o["error"]); return None
    resp = C.run_driver([o["request"]])[0]
    bad = U.compare_with_model(o["cmp"], resp)
    print("points passed:", o["phys"])
    print("oracle failures:", json.dumps(o["failures"], indent=1)[:3000])
    print("model disagreements:", json.dumps(bad, indent=1)[:2000])
    return bool(o["failures"])
