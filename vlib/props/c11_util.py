"""C11 helpers: a controller that drives real git-ai processes through a chosen interleaving of
their named synchronisation points (/repo feature `verif-hooks`, env GIT_AI_VERIF_SYNC_DIR).

Protocol of a sync point (src/git/repo_storage.rs: verif_hooks::sync_point): the process creates
`<dir>/<tag>.<n>.<point>.waiting` (n = 1, 2, … counts the points the process has reached) and blocks
until `<dir>/<tag>.<n>.<point>.go` exists, then removes the `.go` and the `.waiting` file and goes on.
"""
import glob, json, os, subprocess, time

from vlib import e2e

POLL = 0.002
SCENARIO_TIMEOUT = 120.0      # one controlled scenario (all its processes); a TimeoutError is reported as a broken tie


class Proc:
    def __init__(self, tag, popen, argv):
        self.tag, self.popen, self.argv = tag, popen, argv
        self.at = None            # name of the point it is known to wait at
        self.visit = 0            # number of that visit (sync points are numbered per process)
        self.trace = []           # points visited, in order
        self.rc = None
        self.out = self.err = ""

    def finished(self):
        return self.rc is not None


class Controller:
    """Starts processes with a sync directory and lets them run one sync point at a time."""

    def __init__(self, env, name="sync", step_timeout=40.0):
        self.env = env
        self.dir = os.path.join(env.root, name)
        os.makedirs(self.dir, exist_ok=True)
        self.step_timeout = step_timeout
        self.procs = {}

    def spawn(self, tag, repo, argv, points=None, proxy=False, cwd=None, extra_env=None):
        """argv: git-ai arguments (proxy=False) or git arguments run through the proxy (proxy=True).
        Returns the Proc after it reached its first sync point (or exited)."""
        e = dict(repo.env.env)
        t = repo.env.tick()
        e["GIT_AUTHOR_DATE"] = e["GIT_COMMITTER_DATE"] = f"{t} +0000"
        e["GIT_AI_VERIF_SYNC_DIR"] = self.dir
        e["GIT_AI_VERIF_SYNC_TAG"] = str(tag)
        if points:
            e["GIT_AI_VERIF_SYNC_POINTS"] = ",".join(points)
        if proxy:
            e["GIT_AI"] = "git"
        if extra_env:
            e.update(extra_env)
        repo.env.ncmd += 1
        po = subprocess.Popen([repo.env.binary] + list(argv), cwd=cwd or repo.path, env=e,
                              stdin=subprocess.DEVNULL, stdout=subprocess.PIPE, stderr=subprocess.PIPE)
        p = Proc(str(tag), po, list(argv))
        self.procs[str(tag)] = p
        self.settle(p)
        return p

    def _waiting_point(self, p):
        """(visit number, point) the process waits at, or None"""
        pre = os.path.join(self.dir, p.tag + ".")
        for w in glob.glob(glob.escape(pre) + "*.waiting"):
            n, _, point = w[len(pre):-len(".waiting")].partition(".")
            if n.isdigit() and int(n) > p.visit:
                return int(n), point
        return None

    def settle(self, p):
        """Wait until p waits at a sync point or has exited; returns the point name or None."""
        t0 = time.time()
        while True:
            w = self._waiting_point(p)
            if w is not None:
                p.visit, p.at = w
                p.trace.append(p.at)
                return p.at
            rc = p.popen.poll()
            if rc is not None:
                out, err = p.popen.communicate()
                p.rc, p.out, p.err = rc, out.decode("utf-8", "replace"), err.decode("utf-8", "replace")
                p.at = None
                return None
            if time.time() - t0 > self.step_timeout:
                raise TimeoutError(f"process {p.tag} neither reached a sync point nor exited: {p.argv}")
            time.sleep(POLL)

    def release(self, p):
        """Let p pass the point it waits at and run to its next point (or exit). Returns that point."""
        if p.finished() or p.at is None:
            return None
        base = os.path.join(self.dir, f"{p.tag}.{p.visit}.{p.at}")
        open(base + ".go", "w").close()
        p.at = None
        return self.settle(p)

    def drain(self, order=None):
        """Release every unfinished process to completion, lowest tag first (round robin by steps)."""
        steps = []
        for tag in (order or sorted(self.procs)):
            p = self.procs[tag]
            while not p.finished():
                steps.append((tag, p.at))
                self.release(p)
        return steps

    def kill_all(self):
        for p in self.procs.values():
            if p.popen.poll() is None:
                p.popen.kill()
                try:
                    p.popen.communicate(timeout=5)
                except Exception:
                    pass


# ===================================================================== scenarios
#
# A scenario = logical processes, each a list of commands run one after the other:
#   {"type": "ckpt", "wt": w, "id": n, "edits": [[file index, [line id…]]…]}   git-ai checkpoint agent-v1
#        (session "s<n>" reports the files; the controller writes the contents right before the
#         process takes its snapshot)
#   {"type": "commit", "wt": w, "id": n, "empty": bool}                         git commit through the proxy
#        (single notes writer: notes_add). With "notes_only": true only the sync points of the notes ref are
#        active (notes.before-lock, notes.before-add) and only the notes ref is modelled.
#   {"type": "pick", "wt": w, "id": n}      git cherry-pick <X> in linked worktree w, X = an AI commit with a note
#   {"type": "rebase", "wt": w, "id": n}    git rebase main in linked worktree w, whose branch has one AI commit
#        (batch notes writers: notes_add_batch = lock, rev-parse of the tip, fast-import `from <tip>`; sync points
#         notes.before-lock, notes-batch.before-read, notes-batch.before-write; only the notes ref is modelled)
# plus a schedule (list of process indices; one entry = one sync point of that process's current
# command), continued round-robin until everything has finished.

import hashlib, itertools

from vlib import common as C

POINT_KIND = {"checkpoints": "ckpt", "rewrite_log": "rw", "notes": "note", "notes-batch": "batch"}


def session(n):
    return f"s{n}"


def author_hash(n):
    return e2e.short_hash(session(n), "mock_agent")


def file_name(i):
    return f"f{i}.txt"


def content_text(lines):
    return "".join(f"L{l}\n" for l in lines)


def comps(path):
    return [c for c in path.split("/") if c]


def join(cs):
    return "/" + "/".join(cs)


def py_paths(git_dir, common):
    """Model/Conc.lean: aiDir, rewriteLogFile, notesRef (the driver's conc_aidir answer)"""
    if git_dir == common:
        ai = common + ["ai"]
    else:
        leaf = git_dir[-1] if git_dir and git_dir[-1] else "default"
        fallback = common + ["ai", "worktrees", leaf]
        pre = common + ["worktrees"]
        if git_dir[:len(pre)] == pre and len(git_dir) > len(pre):
            ai = common + ["ai", "worktrees"] + git_dir[len(pre):]
        else:
            ai = fallback
    return {"ai": ai, "rewrite_log": ai + ["rewrite_log"], "notes_ref": common + ["refs", "notes", "ai"],
            "checkpoints": ai + ["working_logs", "S", "checkpoints.jsonl"]}


class World:
    """One scratch repository with linked worktrees, the model's view of its cells, and the commands."""

    def __init__(self, env, nwt=1, seed_rewrite_events=0):
        self.env = env
        self.main = env.repo("main")
        r = self.main
        r.write("base.txt", "base\n")
        r.git("add", "-A", check=True)
        if not r.commit("base"):
            raise RuntimeError("base commit failed")
        self.wts = [r]
        for i in range(1, nwt):
            p = os.path.join(env.root, f"wt{i}")
            r.git("worktree", "add", "-q", "-b", f"b{i}", p, check=True)
            self.wts.append(e2e.Repo(env, p))
        rc, out, _ = r.plain_git("rev-parse", "--git-common-dir")
        self.common = os.path.realpath(os.path.join(r.path, out.strip()))
        self.gitdirs = []
        for w in self.wts:
            rc, out, _ = w.plain_git("rev-parse", "--absolute-git-dir")
            self.gitdirs.append(os.path.realpath(out.strip()))
        # where we look for the cells: a transcription of Model/Conc.lean:aiDir; `path_requests`
        # are replayed on the Lean driver by the check (one batch) and must give these very paths
        self.paths = [py_paths(comps(g), comps(self.common)) for g in self.gitdirs]
        self.path_requests = [({"op": "conc_aidir", "git_dir": comps(g), "common": comps(self.common)}, p)
                              for g, p in zip(self.gitdirs, self.paths)]
        self.commit_ids = {}      # sha -> commit id (ids ≥ 1000 name pre-existing commits)
        self.next_pre = 1000
        self.fake_events = {}     # fake sha -> event id
        if seed_rewrite_events:
            self._seed_rewrite(seed_rewrite_events)

    def _seed_rewrite(self, n):
        path = join(self.paths[0]["rewrite_log"])
        old = open(path).read().split("\n") if os.path.exists(path) else []
        old = [l for l in old if l.strip()]
        lines = []
        for i in range(n):
            sha = hashlib.sha1(f"fake{i}".encode()).hexdigest()
            self.fake_events[sha] = 5000 + i
            lines.append(json.dumps({"commit": {"base_commit": None, "commit_sha": sha}}, separators=(",", ":")))
        open(path, "w").write("\n".join(lines + old) + "\n")

    # ---- cells
    def base_of(self, w):
        return self.wts[w].head()

    def ckpt_key(self, w, base):
        ai = self.paths[w]["ai"]
        return ai + ["working_logs", base, "checkpoints.jsonl"]

    def rw_key(self, w):
        return self.paths[w]["rewrite_log"]

    def notes_key(self):
        return self.paths[0]["notes_ref"]

    def commit_id(self, sha):
        if sha not in self.commit_ids:
            self.commit_ids[sha] = self.next_pre
            self.next_pre += 1
        return self.commit_ids[sha]

    def read_journal(self, key):
        """checkpoints.jsonl → model items (None + error text when a line does not parse)."""
        path = join(key)
        if not os.path.exists(path):
            return [], None
        items = []
        blobs = os.path.join(os.path.dirname(path), "blobs")
        for ln in open(path, encoding="utf-8", errors="replace").read().split("\n"):
            if not ln.strip():
                continue
            try:
                cp = json.loads(ln)
                aid = (cp.get("agent_id") or {}).get("id", "")
                n = int(aid[1:]) if aid.startswith("s") and aid[1:].isdigit() else -1
                entries = []
                for en in cp["entries"]:
                    f = en["file"]
                    fi = int(f[1:-4]) if f.startswith("f") and f.endswith(".txt") and f[1:-4].isdigit() else -1
                    try:
                        text = open(os.path.join(blobs, en["blob_sha"]), encoding="utf-8").read()
                    except OSError:
                        text = None
                    ids = []
                    if text is not None:
                        for t in text.split("\n"):
                            if t:
                                ids.append(int(t[1:]) if t.startswith("L") and t[1:].isdigit() else -1)
                    credit = {}
                    for la in en.get("line_attributions", []):
                        for k in range(la["start_line"], la["end_line"] + 1):
                            credit[k] = la["author_id"]
                    lines = []
                    for k, lid in enumerate(ids, 1):
                        h = credit.get(k)
                        lines.append([lid, None if h is None or h == "human" else self.author_of(h)])
                    entries.append({"file": fi, "lines": lines, "fine": bool(en.get("attributions")),
                                    "_blob_missing": text is None})
                items.append({"id": n, "author": n, "entries": entries})
            except Exception as ex:
                return None, f"unparseable line: {ex!r}: {ln[:200]!r}"
        return items, None

    def author_of(self, h):
        for n in range(1, 400):
            if author_hash(n) == h:
                return n
        return -1

    def read_rlog(self, key):
        path = join(key)
        out = []
        if not os.path.exists(path):
            return out
        for ln in open(path).read().split("\n"):
            if not ln.strip():
                continue
            try:
                ev = json.loads(ln)
            except Exception:
                out.append(-2)
                continue
            c = ev.get("commit")
            if c and c.get("commit_sha"):
                sha = c["commit_sha"]
                out.append(self.fake_events[sha] if sha in self.fake_events else self.commit_id(sha))
            else:
                out.append(-1)
        return out

    def read_notes(self):
        """[(commit id, note id)] sorted; note id = commit id when the note names that commit, else -1"""
        r = self.main
        out = []
        for sha, blob in r.notes_list().items():
            note = r.note(sha)
            ok = bool(note) and not note["errors"] and (note.get("meta") or {}).get("base_commit_sha") == sha
            out.append([self.commit_id(sha), self.commit_id(sha) if ok else -1])
        return sorted(out)


def strip_private(items):
    return [{"id": i["id"], "author": i["author"],
             "entries": [{k: v for k, v in e.items() if not k.startswith("_")} for e in i["entries"]]} for i in items]


class ScenarioRun:
    """Executes one scenario on the real binary under a controller and records what the model needs."""

    def __init__(self, sc, env):
        self.sc = sc
        self.env = env
        nwt = 1 + max(c["wt"] for p in sc["procs"] for c in p)
        self.world = World(env, nwt=nwt, seed_rewrite_events=sc.get("seed_rewrite", 0))
        self.ctl = Controller(env)
        self.cur = [None] * len(sc["procs"])      # current OS process of each logical process
        self.nextcmd = [0] * len(sc["procs"])
        self.ops = [[] for _ in sc["procs"]]       # model programs, filled as commands start
        self.cmd_of_proc = {}
        self.model_sched = []
        self.phys = []                             # (pid, point, next point) per physical step
        self.failures = []
        self.rcs = []
        self.commit_sha = {}                       # commit cmd id -> sha
        self.keys = set()
        self.key_wt = {}
        self.max_events = 200
        self.step_times = []

    # ---- commands
    def start_next(self, pid):
        prog = self.sc["procs"][pid]
        k = self.nextcmd[pid]
        if k >= len(prog):
            self.cur[pid] = None
            return
        cmd = prog[k]
        self.nextcmd[pid] = k + 1
        w = self.world
        repo = w.wts[cmd["wt"]]
        tag = f"p{pid}c{k}"
        if cmd["type"] == "ckpt":
            base = w.base_of(cmd["wt"])
            key = w.ckpt_key(cmd["wt"], base)
            self.keys.add(tuple(key))
            self.key_wt[tuple(key)] = cmd["wt"]
            self.ops[pid].append({"k": "ckpt", "key": key, "id": cmd["id"], "author": cmd["id"], "edits": cmd["edits"]})
            payload = {"type": "ai_agent", "repo_working_dir": repo.path,
                       "edited_filepaths": [file_name(f) for f, _ in cmd["edits"]],
                       "transcript": {"messages": []}, "agent_name": "mock_agent", "model": "m1",
                       "conversation_id": session(cmd["id"])}
            # git-ai decides which files to look at (git status) before it takes its snapshot: a
            # reported file must exist by then; its content is (re)written at the snapshot step
            for f, lines in cmd["edits"]:
                if not repo.exists(file_name(f)):
                    repo.write(file_name(f), content_text(lines))
            p = self.ctl.spawn(tag, repo, ["checkpoint", "agent-v1", "--hook-input", json.dumps(payload)],
                               points=["checkpoints"])
        elif cmd["type"] in ("pick", "rebase"):
            nk = w.notes_key()
            self.keys.add(tuple(nk))
            before = repo.head()
            argv = ["cherry-pick", self.sources[cmd["id"]]] if cmd["type"] == "pick" else ["rebase", "main"]
            p = self.ctl.spawn(tag, repo, argv, points=["notes"], proxy=True)
            sha = repo.head()
            if sha and sha != before and sha != self.sources[cmd["id"]]:
                self.commit_sha[cmd["id"]] = sha
                w.commit_ids[sha] = cmd["id"]
                self.ops[pid].append({"k": "noteBatch", "key": nk, "id": cmd["id"], "entries": [[cmd["id"], cmd["id"]]]})
            else:
                self.failures.append(("commit-not-created", {"cmd": cmd, "rc": p.rc, "stderr": p.err[-400:]}))
            if p.finished() and not any(t.startswith("notes") for t in p.trace):
                self.failures.append(("runner-exception", {"error": "the rewrite never reached the batch notes writer",
                                                           "cmd": cmd, "rc": p.rc, "stderr": p.err[-400:]}))
        else:
            if not cmd.get("empty"):
                fn = f"c{cmd['id']}.txt"
                repo.write(fn, f"AI{cmd['id']}\n")
                repo.ai_checkpoint(session(cmd["id"]), [fn])
                repo.git("add", fn)
            key = w.rw_key(cmd["wt"])
            nk = w.notes_key()
            self.keys.add(tuple(nk))
            if not cmd.get("notes_only"):
                self.keys.add(tuple(key))
                self.ops[pid].append({"k": "rw", "key": key, "ev": cmd["id"]})
            self.ops[pid].append({"k": "noteAdd", "key": nk, "id": cmd["id"], "commit": cmd["id"], "note": cmd["id"]})
            args = ["commit", "-q", "-m", f"commit {cmd['id']}"] + (["--allow-empty"] if cmd.get("empty") else [])
            before = repo.head()
            p = self.ctl.spawn(tag, repo, args, points=["notes"] if cmd.get("notes_only") else ["rewrite_log", "notes"],
                               proxy=True)
            sha = repo.head()
            if sha and sha != before:
                self.commit_sha[cmd["id"]] = sha
                w.commit_ids[sha] = cmd["id"]
            else:
                self.failures.append(("commit-not-created", {"cmd": cmd, "rc": p.rc, "stderr": p.err[-400:]}))
        p.cmd = cmd
        self.cur[pid] = p
        self.after_settle(pid)

    def after_settle(self, pid):
        p = self.cur[pid]
        while p is not None and p.finished():
            self.rcs.append((p.cmd, p.rc))
            if p.rc != 0:
                self.failures.append(("process-failed", {"cmd": p.cmd, "rc": p.rc, "stderr": p.err[-600:]}))
            self.start_next(pid)
            p = self.cur[pid]

    def prepare(self):
        """material of the rewrite commands, made before any controlled process starts (so that no setup command
        ever waits for a lock a paused process holds)"""
        w = self.world
        self.sources = {}
        for prog in self.sc["procs"]:
            for cmd in prog:
                if cmd["type"] not in ("pick", "rebase"):
                    continue
                n, repo = cmd["id"], w.wts[cmd["wt"]]
                if cmd["wt"] == 0:
                    raise ValueError("pick / rebase run in a linked worktree")
                fn = f"c{n}.txt"
                if cmd["type"] == "pick":
                    # X: an AI commit (with a note) on a side branch; the worktree's own branch gets a human commit
                    repo.git("checkout", "-q", "-b", f"src{n}", check=True)
                    repo.write(fn, f"AI{n}\n")
                    repo.ai_checkpoint(session(n), [fn])
                    repo.git("add", fn)
                    x = repo.commit(f"X{n}")
                    repo.git("checkout", "-q", f"b{cmd['wt']}", check=True)
                    repo.write(f"h{n}.txt", f"human{n}\n")
                    repo.git("add", f"h{n}.txt")
                    repo.commit(f"human {n}")
                else:
                    # the worktree's branch gets an AI commit (with a note); main moves on by a human commit
                    repo.write(fn, f"AI{n}\n")
                    repo.ai_checkpoint(session(n), [fn])
                    repo.git("add", fn)
                    x = repo.commit(f"A{n}")
                    if not getattr(self, "_main_moved", False):
                        self._main_moved = True
                        w.main.write("m.txt", "m\n")
                        w.main.git("add", "m.txt")
                        w.main.commit("main moves on")
                if not x or x not in w.main.notes_list():
                    raise RuntimeError(f"setup: source commit of {cmd} has no note")
                self.sources[n] = x

    def snapshot_initial(self):
        """initial contents of the cells the scenario can touch (taken before any process starts)"""
        w = self.world
        self.initial = {}
        for wi in range(len(w.wts)):
            self.initial[tuple(w.rw_key(wi))] = {"rlog": w.read_rlog(w.rw_key(wi))}
        self.initial[tuple(w.notes_key())] = {"notes": {"tip": 0, "map": w.read_notes()}}

    def step(self, pid):
        p = self.cur[pid]
        if p is None:
            return False
        pt = p.at
        if pt == "checkpoints.before-snapshot":
            # the contents this reporter sees
            repo = self.world.wts[p.cmd["wt"]]
            for f, lines in p.cmd["edits"]:
                repo.write(file_name(f), content_text(lines))
        t0 = time.time()
        nxt = self.ctl.release(p)
        self.phys.append((pid, pt, nxt))
        self.step_times.append(round(time.time() - t0, 3))
        # one release = two model steps where git-ai has no point in between: `git notes add` (read, write) and
        # the batch writer's rev-parse followed by the assembly of the fast-import script (read, build)
        self.model_sched += [pid] * (2 if pt in ("notes.before-add", "notes-batch.before-read") else 1)
        self.after_settle(pid)
        return True

    def run(self):
        self.prepare()
        self.snapshot_initial()
        try:
            for pid in range(len(self.sc["procs"])):
                self.start_next(pid)
            sched = list(self.sc["schedule"])
            n = len(self.sc["procs"])
            guard = 0
            t_start = time.time()
            while any(c is not None for c in self.cur):
                pid = sched.pop(0) if sched else (guard % n)
                if not sched:
                    guard += 1
                if guard > 400:
                    raise TimeoutError("schedule does not terminate")
                if time.time() - t_start > SCENARIO_TIMEOUT:
                    raise TimeoutError(f"scenario not finished after {SCENARIO_TIMEOUT} s: processes at "
                                       f"{[(c.tag, c.at) for c in self.cur if c is not None]}")
                self.step(pid)
        finally:
            self.ctl.kill_all()
        return self


def phys_tag(pt, nxt):
    """what a physical step did, in the vocabulary of the model's trace"""
    pre, _, suf = pt.partition(".")
    kind = POINT_KIND.get(pre, pre)
    if suf == "before-lock":
        return [f"{kind}:" + ("blocked" if nxt == pt else "acq")]
    if suf == "before-snapshot":
        return [f"{kind}:snap"]          # snap / snap-noop are told apart by the journal, not the trace
    if suf == "before-read":
        return [f"{kind}:read"] + ([f"{kind}:build"] if kind == "batch" else [])
    if suf == "before-write":
        return [f"{kind}:write"]
    if suf == "before-add":
        return [f"{kind}:read", f"{kind}:write"]
    return [f"{kind}:{suf}"]


def interleavings(counts):
    """all sequences containing pid i exactly counts[i] times"""
    def rec(rem, acc):
        if not any(rem):
            yield list(acc)
            return
        for i, r in enumerate(rem):
            if r:
                rem[i] -= 1
                acc.append(i)
                yield from rec(rem, acc)
                acc.pop()
                rem[i] += 1
    yield from rec(list(counts), [])


# ===================================================================== model comparison

def norm_tag(t):
    # the batch writer takes the same lock file as the single writer: its lock point is `notes.before-lock`
    t = t.replace("batch:acq", "note:acq").replace("batch:blocked", "note:blocked")
    return t.replace("snap-noop", "snap").replace("cas-fail", "write")


def observe(run):
    """final contents of every cell the scenario touched, in the model's vocabulary"""
    w = run.world
    obs, errors = {}, []
    for k in sorted(run.keys):
        last = k[-1]
        if last == "checkpoints.jsonl":
            items, err = w.read_journal(list(k))
            if err:
                errors.append(("unparseable:checkpoints.jsonl", {"key": join(k), "error": err}))
                obs[k] = None
            else:
                obs[k] = {"journal": strip_private(items)}
                for it in items:
                    for e in it["entries"]:
                        if e["_blob_missing"]:
                            errors.append(("blob-missing", {"key": join(k), "item": it["id"], "file": e["file"]}))
        elif last == "rewrite_log":
            obs[k] = {"rlog": w.read_rlog(list(k))}
        else:
            obs[k] = {"notes": {"map": w.read_notes()}}
    return obs, errors


def model_request(run, mode):
    keys = sorted(run.keys)
    cells = [{"key": list(k), "val": run.initial[k]} for k in keys if k in run.initial]
    return {"op": "conc_run", "mode": mode, "cells": cells, "procs": run.ops,
            "schedule": run.model_sched, "query": [list(k) for k in keys]}


def compare_with_model(cmp, resp):
    """cmp = {phys: [(pid, point, next point)…], keys: sorted cell keys, obs: observed cells};
    returns the list of disagreements between the model's prediction and what was observed"""
    bad = []
    if not isinstance(resp, dict) or "driver_error" in resp or "error" in resp:
        return [{"what": "driver", "detail": resp}]
    phys = [t for (_, pt, nxt) in cmp["phys"] for t in phys_tag(pt, nxt)]
    mtrace = [norm_tag(t) for t in resp["trace"]]
    if phys != mtrace:
        bad.append({"what": "trace", "observed": phys, "model": mtrace,
                    "steps": [(pid, pt) for (pid, pt, _) in cmp["phys"]]})
    if not resp.get("finished"):
        bad.append({"what": "model-not-finished"})
    obs = cmp["obs"]
    for k, mv in zip(cmp["keys"], resp["cells"]):
        ov = obs.get(k)
        if ov is None:
            bad.append({"what": "cell-unreadable", "key": join(k)})
        elif "notes" in mv:
            if mv["notes"]["map"] != ov["notes"]["map"]:
                bad.append({"what": "notes", "key": join(k), "observed": ov["notes"]["map"], "model": mv["notes"]["map"]})
        elif mv != ov:
            bad.append({"what": "cell", "key": join(k), "observed": ov, "model": mv})
    return bad
