"""C12 — results do not depend on the user's git configuration or invocation context (DESIGN §8 C12).

Phases: extract (profile tables + call inventory) → prove (Props/C12.lean) → in-process correspondence and oracles
(args_with_internal_git_profile, unescape_git_path) → git-kernel validation on the installed git (knob effects,
neutralising flags, C-style quoting) → end-to-end metamorphic runs (same history under sampled configurations /
invocation contexts must give identical notes, blame --json, stats --json) → inventory validation against the
trace of real internal git invocations → search when a tie broke.

`./check C12 --replay <file>` re-runs the scenario/knobs/context (or the in-process case) named by a replay file."""
import importlib.util, itertools, json, os, random, sys, time
from concurrent.futures import ThreadPoolExecutor

from vlib import common as C
from vlib import e2e
from vlib.props import c12_util as U

PROP = "C12"
THEOREMS = [
    "GitAi.Profile.profile_rewrite_spec",
    "GitAi.Profile.profile_option_present",
    "GitAi.Profile.options_ok",
    "GitAi.Profile.drops_cover_options",
    "GitAi.Profile.all_calls_reviewed",
    "GitAi.Profile.parsed_calls_pinned",
    "GitAi.Profile.call_profiles_known",
    "GitAi.Profile.unescape_quote_roundtrip",
    "GitAi.Profile.quotePath_independent",
    "GitAi.Profile.utf8_roundtrip",
    "GitAi.Profile.context_compose",
    "GitAi.Profile.context_independent",
    "GitAi.Profile.storage_linked_worktree",
    "GitAi.Profile.storage_isolated",
    "GitAi.Profile.config_independent",
    "GitAi.Profile.witness_status_untracked_unpinned",
    "GitAi.Profile.witness_grep_color_unpinned",
    "GitAi.Profile.witness_blame_unpinned",
    "GitAi.Profile.witness_numstat_algorithm_unpinned",
    "GitAi.Profile.witness_rawdiff_renames_unpinned",
]
CORPUS = os.path.join(C.VERIF, "corpus", "C12", "cases.jsonl")
E2E_CORPUS = os.path.join(C.VERIF, "corpus", "C12", "e2e.jsonl")


def load_extractor():
    spec = importlib.util.spec_from_file_location("profile_tables", os.path.join(C.VERIF, "extract", "profile_tables.py"))
    m = importlib.util.module_from_spec(spec)
    spec.loader.exec_module(m)
    return m


# ------------------------------------------------------------------------------------------ phases

def phase_extract(res):
    """Regenerate Extracted/ProfileTables.lean. Returns (tables, calls) or (None, None)."""
    try:
        ex = load_extractor()
        r = ex.run(write=True)
    except Exception as e:          # ExtractError or an unexpected shape
        res.obligation("extract:profile_tables", False, "extraction")
        res.broken_tie("extract:profile_tables", f"{type(e).__name__}: {e}"[:3000])
        # fall back to the last good inventory for the run-time trace check
        try:
            j = json.load(open(os.path.join(C.BUILD, "c12-inventory.json")))
            return j["tables"], j["calls"]
        except Exception:
            return None, None
    ok = r["ok"]
    res.obligation("extract:profile_tables", ok, "extraction")
    if not ok:
        res.broken_tie("extract:profile_tables", {"unreviewed_call_sites": r["unreviewed"], "problems": r["problems"]})
    res.extra["inventory"] = {"call_sites": len(r["calls"]), "parsed": sum(1 for c in r["calls"] if c["parsed"]),
                              "profiles": {p: r["tables"]["options"][p] for p in r["tables"]["options"]}}
    return r["tables"], r["calls"]


def run_one(job):
    seed, knobs, ctx = job
    try:
        return job, U.Runner(U.Scenario(seed), knobs, ctx).run()
    except Exception as e:
        import traceback
        return job, {"exc": traceback.format_exc()[-1500:]}


def e2e_jobs(tier, seed):
    rng = random.Random(seed * 7919 + 13)
    knobs = list(U.KNOBS)
    if tier == "quick":
        seeds = [seed * 100 + 1, seed * 100 + 2]
        jobs = []
        for s in seeds:
            jobs.append((s, (), "root"))
            for k in knobs:
                jobs.append((s, (k,), "root"))
            for c in U.CONTEXTS[1:]:
                jobs.append((s, (), c))
        # one knob combined with each context
        for c in U.CONTEXTS[1:]:
            jobs.append((seeds[0], (rng.choice(knobs),), c))
        return jobs
    seeds = [seed * 100 + k for k in range(1, 9)]
    jobs = []
    for s in seeds:
        jobs.append((s, (), "root"))
        for k in knobs:
            jobs.append((s, (k,), "root"))
        for c in U.CONTEXTS[1:]:
            jobs.append((s, (), c))
        for _ in range(24):
            n = rng.choice([2, 2, 3])
            jobs.append((s, tuple(sorted(rng.sample(knobs, n))), rng.choice(U.CONTEXTS)))
    return jobs


def corpus_jobs():
    jobs = []
    try:
        for ln in open(E2E_CORPUS):
            ln = ln.strip()
            if ln:
                j = json.loads(ln)
                jobs.append((j["seed"], tuple(j["knobs"]), j["context"]))
    except FileNotFoundError:
        pass
    return jobs


def phase_e2e(res, jobs, tables, calls, label="e2e"):
    """Run the jobs in parallel; compare each against the baseline of its scenario; validate the trace."""
    need_base = {(s, (), "root") for (s, _, _) in jobs}
    alljobs = list(dict.fromkeys(list(need_base) + jobs))
    t0 = time.time()
    with ThreadPoolExecutor(16) as ex:
        results = dict(ex.map(run_one, alljobs))
    res.extra.setdefault("e2e", {})[label] = {"runs": len(alljobs), "wall_s": round(time.time() - t0, 1)}
    nfail = 0
    traces = set()
    ncmd = 0
    for job in alljobs:
        s, knobs, ctx = job
        o = results[job]
        if "exc" in o:
            res.broken_tie(f"{label}:runner", {"job": [s, list(knobs), ctx], "exception": o["exc"]})
            continue
        ncmd += o.get("_ncmd", 0)
        for a in o.get("_trace", []):
            traces.add(tuple(a))
        base = results.get((s, (), "root"))
        key = json.dumps([s, list(knobs), ctx])
        res.count_case(key)
        res.tag([f"context={ctx}"] + [f"knob={k}" for k in knobs] + ([] if knobs else ["knob=<none>"]))
        if o.get("foreign_prompt_note"):
            res.tag(["scenario:foreign-prompt-note"])
        if job == (s, (), "root"):
            if o.get("errors"):
                res.broken_tie(f"{label}:baseline", {"seed": s, "errors": o["errors"][:5]})
            # sanity of the scenario itself: it must contain AI attribution, otherwise comparing is vacuous
            n_ai = sum(1 for v in o["notes"].values() if v and "\n  " in ("\n" + v.split("\n---\n")[0]))
            res.tag([f"baseline-notes-with-ai={min(n_ai, 9)}"])
            if n_ai < 3:
                res.broken_tie(f"{label}:vacuous-scenario", {"seed": s, "notes_with_ai": n_ai})
            continue
        if base is None or "exc" in base:
            continue
        d = U.diff_obs(base, o)
        if d is not None:
            kind = d["kind"]
            what = "+".join(knobs) if knobs else "context"
            sig = f"config-dependent:{what}:{kind}" if knobs and ctx == "root" else f"context-dependent:{ctx}:{what}:{kind}"
            witness = {"scenario_seed": s, "knobs": list(knobs), "context": ctx, "settings": [U.KNOBS[k] for k in knobs],
                       "first_difference": C.trunc(d, 1500), "scenario": U.Scenario(s).describe(),
                       "replay": f"./check C12 --replay <this file>"}
            if res.oracle_failure(sig, witness, what=f"{kind} differ from the baseline run of the same history under {what} / started from {ctx}"):
                nfail += 1
    res.extra["e2e"][label]["git_commands"] = ncmd
    res.extra["e2e"][label]["distinct_internal_argv"] = len(traces)
    res.obligation(f"{label}:metamorphic notes/blame/stats equal to baseline ({len(alljobs)} runs)", nfail == 0, "oracle")
    # ---- inventory vs trace
    if calls is not None and traces:
        shapes = {}
        for a in traces:
            shapes.setdefault(tuple(U.SHA_RE.sub("<sha>", x) for x in a), a)
        bad = U.unmatched_trace(list(shapes.values()), calls, tables)
        res.obligation(f"{label}:every traced internal git argv matches an inventory entry ({len(shapes)} shapes)", not bad, "correspondence")
        if bad:
            res.broken_tie(f"{label}:inventory-vs-trace", {"unmatched": [list(a) for a in bad[:8]], "count": len(bad)})
        # concrete instances of parsed calls must be pinned too (the Lean theorem speaks about skeletons)
        parsed_calls = [c for c in calls if c["parsed"]]
        inst = [a for a in shapes.values() if any(U.match_call(c, a, tables) for c in parsed_calls)
                and not any(U.match_call(c, a, tables) for c in calls if not c["parsed"])]
        if inst:
            resp = C.run_driver([{"op": "prof_pinned_argv", "argv": list(a)} for a in inst])
            unp = [(list(a), r) for a, r in zip(inst, resp) if not r.get("pinned")]
            res.obligation(f"{label}:every traced instance of a parsed call is pinned ({len(inst)} instances)", not unp, "correspondence")
            kinds = {}
            for r in resp:
                kinds[r.get("kind", "?")] = kinds.get(r.get("kind", "?"), 0) + 1
            res.extra["e2e"][label]["traced_parsed_kinds"] = kinds
            if unp:
                res.broken_tie(f"{label}:traced-instance-unpinned", {"first": unp[:5]})
    return nfail


# ------------------------------------------------------------------------------------------ git kernel validation

def phase_kernel(res, calls):
    """Validate the hand-written kernel tables against the installed git: (a) the model of quote_c_style,
    (b) each knob changes some un-pinned output (it is a real knob) and (c) does not change the output of the
    pinned forms git-ai uses (effective argv of the inventory's parsed calls)."""
    sc = U.Scenario(4242)
    findings = {"inert_knobs": [], "pinned_changed": [], "quote_mismatch": []}
    with e2e.Env() as env:
        r = env.repo("k")
        for f, lines in sc.base.items():
            r.write(f, U.text_of(lines))
        odd = ["tab\tname.txt", "q\"uote.txt", "back\\slash.txt", "ünï/日本 🙂.txt", "ctl\x01\x7f.txt", "plain name.txt"]
        for f in odd:
            r.write(f, "x\n")
        r.plain_git("add", "-A", check=True)
        r.plain_git("commit", "-q", "-m", "k0", check=True)
        for s in sc.steps[:1]:
            for (_, _, f, lines) in s["edits"]:
                r.write(f, U.text_of(lines))
        r.plain_git("mv", "cp.txt", "cp moved.txt", check=True)
        r.plain_git("add", "-A", check=True)
        r.plain_git("commit", "-q", "-m", "k1", check=True)
        r.plain_git("notes", "--ref=ai", "add", "-m", "\"x\" note", "HEAD", check=True)
        r.write("untracked new.txt", "u\n")
        r.write("rep.txt", U.text_of(U.shuffle_lines(random.Random(3), sc.base["rep.txt"])))
        # (a) quoting
        reqs, want = [], []
        for qp in ("true", "false"):
            rc, out, _ = r.plain_git("-c", f"core.quotePath={qp}", "ls-files")
            printed = set(out.split("\n"))
            for f in odd + [sc.files[2], sc.lock]:
                reqs.append({"op": "prof_quote", "path": f, "quote_path": qp == "true"})
                want.append((f, qp, printed))
        for rq, (f, qp, printed), rp in zip(reqs, want, C.run_driver(reqs)):
            res.count_case("quote:" + f + qp)
            if rp.get("out") not in printed:
                findings["quote_mismatch"].append({"path": f, "quotePath": qp, "model": rp.get("out")})
        res.tag(["kernel:quote"] * len(reqs))
        # (b), (c)
        scripts = {"@GARBAGE": U.write_script(env, "kgarbage", 'echo "+++ b/GARBAGE"; exit 0'),
                   "@FAILPAGER": U.write_script(env, "kfailpager", "cat >/dev/null; exit 1"),
                   "@UPPER": U.write_script(env, "kupper", 'echo TEXTCONV-HEADER; sed 2d "$1" | tr a-z A-Z')}
        attr = os.path.join(env.root, "kattrs")
        open(attr, "w").write("*.txt diff=upper\n")
        unpinned = {
            "diff": ["diff", "HEAD~1", "HEAD"], "diff-wt": ["diff", "HEAD"], "numstat": ["show", "--numstat", "--format=", "HEAD"],
            "names": ["diff", "--name-status", "HEAD~1", "HEAD"], "status-h": ["status"], "status": ["status", "--porcelain=v2", "-z"],
            "blame-h": ["blame", "HEAD", "--", "rep.txt"], "blame": ["blame", "--line-porcelain", "HEAD", "--", sc.files[2]],
            "log": ["log", "-2"], "grep": ["grep", "-nI", "lock", "HEAD"], "notes": ["notes", "list"],
            "show-root": ["show", "--numstat", "--format=", "HEAD~1"],
        }
        # the pinned forms: effective argv skeletons of the inventory's parsed calls, holes filled
        pinned = {
            "patch": ["diff", "--no-ext-diff", "--no-textconv", "--src-prefix=a/", "--dst-prefix=b/", "--no-relative", "--no-color",
                      "--diff-algorithm=default", "--indent-heuristic", "--inter-hunk-context=0", "-U0", "--no-renames", "HEAD~1", "HEAD"],
            "patch-wt": ["diff", "--no-ext-diff", "--no-textconv", "--src-prefix=a/", "--dst-prefix=b/", "--no-relative", "--no-color",
                         "--diff-algorithm=default", "--indent-heuristic", "--inter-hunk-context=0", "-U0", "--no-renames", "HEAD"],
            "numstat": ["show", "--no-ext-diff", "--no-textconv", "--no-color", "--no-relative", "--no-renames", "--diff-algorithm=default",
                        "--numstat", "--format=", "--root", "HEAD"],
            "numstat-root": ["show", "--no-ext-diff", "--no-textconv", "--no-color", "--no-relative", "--no-renames", "--diff-algorithm=default",
                             "--numstat", "--format=", "--root", "HEAD~1"],
            "namesZ": ["diff", "--no-ext-diff", "--no-textconv", "--no-color", "--no-relative", "--name-only", "-z", "--no-renames", "HEAD~1", "HEAD"],
            "rawZ": ["diff", "--no-ext-diff", "--no-textconv", "--no-color", "--no-relative", "--raw", "-z", "--no-abbrev", "--no-renames", "HEAD~1", "HEAD"],
            "status": ["status", "--porcelain=v2", "-z", "--untracked-files=normal"],
            "blame": ["blame", "--line-porcelain", "--no-textconv", "--indent-heuristic", "HEAD", "--", "rep.txt"],
            "grep": ["grep", "--no-color", "-nI", "note", "refs/notes/ai"],
            "notes": ["notes", "--ref=ai", "list"],
            "pretty": ["show", "-s", "--no-notes", "--encoding=UTF-8", "--format=%an%n%ae%n%s", "HEAD"],
            "log-fmt": ["log", "--format=%H", "--reverse", "HEAD"],
        }
        quote_handled = {"patch", "patch-wt", "numstat", "numstat-root", "blame"}     # ParserHandles … quotePath
        if calls is not None:
            # the table above must be the skeletons the inventory really has (guards against drift)
            reqs = [{"op": "prof_pinned_argv", "argv": v} for v in pinned.values()]
            for name, rp in zip(pinned, C.run_driver(reqs)):
                if not rp.get("pinned"):
                    res.broken_tie("kernel:pinned-form-table", {"form": name, "model": rp})

        def canon(name, text):
            # fields no parser of git-ai reads: abbreviated blob ids of the `index` line (core.abbrev), the display-only
            # `boundary` marker of blame porcelain (blame.showRoot)
            if name.startswith("patch"):
                return "\n".join(l for l in text.split("\n") if not l.startswith("index "))
            if name == "blame":
                return "\n".join(l for l in text.split("\n") if l != "boundary")
            return text

        def outputs(cfgfile, cmds, use_attr, pinned_forms=False):
            env_o = {"GIT_CONFIG_GLOBAL": cfgfile}
            out = {}
            for name, argv in cmds.items():
                pre = ["-c", f"core.attributesFile={attr}"] if use_attr else []
                rc, so, se = r.plain_git(*pre, "--no-pager", *argv, env=env_o)
                out[name] = (rc, canon(name, so) if pinned_forms else so)
            return out

        base_cfg = env.env["GIT_CONFIG_GLOBAL"]
        base_text = open(base_cfg).read()
        b_unp, b_pin = outputs(base_cfg, unpinned, False), outputs(base_cfg, pinned, False, True)
        b_unp_a, b_pin_a = outputs(base_cfg, unpinned, True), outputs(base_cfg, pinned, True, True)
        for kn, settings in U.KNOBS.items():
            cfg = os.path.join(env.root, "cfg-" + kn.replace("/", "_"))
            open(cfg, "w").write(base_text)
            use_attr = False
            for (scope, key, val) in settings:
                if scope == "attr":
                    use_attr = True
                    continue
                val = scripts.get(val, val)
                r.plain_git("config", "--file", cfg, key, val, check=True)
            o_unp, o_pin = outputs(cfg, unpinned, use_attr), outputs(cfg, pinned, use_attr, True)
            bu, bp = (b_unp_a, b_pin_a) if use_attr else (b_unp, b_pin)
            changed = [n for n in unpinned if o_unp[n] != bu[n]]
            res.count_case("kernel:" + kn)
            res.tag([f"kernel:knob-effect={'yes' if changed else 'inert'}"])
            if not changed:
                findings["inert_knobs"].append(kn)
            for n in pinned:
                if kn.startswith("core.quotePath") and n in quote_handled:
                    continue
                if o_pin[n] != bp[n]:
                    findings["pinned_changed"].append({"knob": kn, "form": n, "argv": pinned[n],
                                                       "baseline": bp[n][1][:300], "variant": o_pin[n][1][:300]})
    res.extra["kernel_validation"] = {"inert_knobs_on_this_git": findings["inert_knobs"],
                                      "pinned_forms": len(pinned), "knobs": len(U.KNOBS)}
    res.obligation("kernel: model of git's C-style path quoting equals `git ls-files` output (both core.quotePath settings)",
                   not findings["quote_mismatch"], "correspondence")
    if findings["quote_mismatch"]:
        res.broken_tie("kernel:quote", findings["quote_mismatch"][:5])
    res.obligation("kernel: no sampled knob changes the output of a pinned form (Neutralises table)", not findings["pinned_changed"], "correspondence")
    if findings["pinned_changed"]:
        res.broken_tie("kernel:neutralises", findings["pinned_changed"][:5])
    # knobs that must be effective on any git >= 2.30 (otherwise the metamorphic runs would be vacuous)
    must = ["diff.noprefix", "diff.mnemonicPrefix", "diff.external", "textconv", "color.ui", "color.diff", "diff.renames.false",
            "core.quotePath.false", "status.showUntrackedFiles", "diff.context", "log.showRoot"]
    inert_must = [k for k in must if k in findings["inert_knobs"]]
    res.obligation("kernel: the core knobs visibly change un-pinned git output (non-vacuity)", not inert_must, "audit")
    if inert_must:
        res.broken_tie("kernel:inert-core-knobs", inert_must)


# ------------------------------------------------------------------------------------------ replay

def replay(res, path, tables, calls):
    j = json.load(open(path))
    w = j.get("witness") or {}
    if "scenario_seed" in w:
        jobs = [(w["scenario_seed"], tuple(w["knobs"]), w["context"])]
        phase_e2e(res, jobs, tables, calls, label="replay")
    elif "case" in w:
        # an in-process case: run the suite on a one-line corpus
        tmp = os.path.join(C.BUILD, f"c12-replay-{os.getpid()}.jsonl")
        case = w["case"]
        line = {"args": case.get("args"), "profile": case.get("profile")} if case.get("op") == "prof_rewrite" else {"path": case.get("path")}
        open(tmp, "w").write(json.dumps(line, ensure_ascii=False) + "\n")
        C.phase_suite(res, "c12", res.seed, 0, tmp, name="replay:c12")
        os.unlink(tmp)
    else:
        res.broken_tie("replay", "nothing replayable in the file (broken-obligation replays are re-checked by a normal run)")


# ------------------------------------------------------------------------------------------ main

def run(tier, seed):
    res = C.Result(PROP, tier, seed)
    res.rule = ("in-process: one case = one request sent to the real Rust function and the Lean model (argv × profile for "
                "args_with_internal_git_profile; quoted-path text for unescape_git_path; raw path × core.quotePath for the quoting "
                "kernel); end-to-end: one case = (generated history seed, set of configuration knobs, invocation context); kernel: one "
                "case = one knob or one quoted path checked on the installed git; distinct = distinct request / triple")
    res.trusted = ["Lean 4.33 kernel (axioms: propext, Quot.sound, Classical.choice only)",
                   "extract/profile_tables.py (lexer + reviewed parsed/unparsed list of call sites)",
                   "harness/src/suites/c12.rs generators and independent oracles",
                   "git kernel tables Affects / Neutralises / ParserHandles / classify / gitQuote in Model/Profile.lean: hand-written from "
                   "git's documentation, validated on the installed git by the kernel phase and by the metamorphic runs, not proved",
                   "vlib/e2e.py + vlib/props/c12_util.py scenario runner and canonicalisation (commit ids, timestamps, hash-map order of note sections)"]
    res.assumptions = ["captured stdout is not a terminal: pagers never run, color.*=auto is off (knob `color` means `always`)",
                       "config_independent is relative to the GitKernel assumption (which knob changes which output kind, which flag overrides it)",
                       "the pinning theorem is about the literal argv skeleton of each call site; concrete instances are checked on traced invocations"]
    tables, calls = phase_extract(res)
    C.phase_proofs(res, PROP, THEOREMS)

    ok, out = C.build_harness()
    if not ok:
        res.obligation("build harness against the repo working tree", False, "build")
        res.broken_tie("harness build", out[-3000:])
    okb, outb = C.build_git_ai()
    if not okb:
        res.obligation("build git-ai against the repo working tree", False, "build")
        res.broken_tie("git-ai build", outb[-3000:])

    if "--replay" in sys.argv:
        replay(res, sys.argv[sys.argv.index("--replay") + 1], tables, calls)
        return res.finish()

    bad = 0
    if ok:
        n = 6000 if tier == "quick" else 150000
        bad, _ = C.phase_suite(res, "c12", seed, n, CORPUS)
    if okb:
        phase_kernel(res, calls)
        jobs = corpus_jobs() + e2e_jobs(tier, seed)
        phase_e2e(res, jobs, tables, calls)

    if (bad or res.broken) and not res.violations:
        # a tie broke and no oracle has failed yet: search harder for a failing input on the implementation
        searched = []
        if ok:
            for s in range(seed + 1000, seed + 1004):
                C.phase_suite(res, "c12", s, 30000, None, name=f"search:c12:{s}")
                searched.append(f"c12 suite seed {s} x 30000")
                if res.violations:
                    break
        if okb and not res.violations:
            rng = random.Random(seed + 99)
            knobs = list(U.KNOBS)
            extra = []
            for s in (seed * 100 + 51, seed * 100 + 52, seed * 100 + 53):
                for k in knobs:
                    extra.append((s, (k,), rng.choice(U.CONTEXTS)))
                for _ in range(10):
                    extra.append((s, tuple(sorted(rng.sample(knobs, 3))), rng.choice(U.CONTEXTS)))
            phase_e2e(res, extra, tables, calls, label="search-e2e")
            searched.append(f"{len(extra)} extra metamorphic runs (3 fresh histories x every knob in a random context + 30 knob triples)")
        res.extra["search"] = "; ".join(searched) + "; all oracles evaluated on the implementation"
    return res.finish()
