"""C12 end-to-end machinery: configuration knobs, invocation contexts, the generated history,
observations (notes / blame --json / stats --json) and their canonicalisation, trace matching against
the extracted call inventory."""
import json, os, random, re, stat

from vlib import e2e

# ------------------------------------------------------------------------------------------ knobs
# name -> list of (scope, key, value) ; scope: "global" | "repo" ; special values resolved by apply_knob:
#   @GARBAGE  script printing garbage and exiting 0      @FAILPAGER  script that exits 1
#   @UPPER    textconv script (tr a-z A-Z)               attr:<text> appended to .git/info/attributes
KNOBS = {
    "diff.noprefix":            [("global", "diff.noprefix", "true")],
    "diff.mnemonicPrefix":      [("global", "diff.mnemonicPrefix", "true")],
    "diff.srcdstPrefix":        [("global", "diff.srcPrefix", "x/"), ("global", "diff.dstPrefix", "y/")],
    "diff.external":            [("global", "diff.external", "@GARBAGE")],
    "textconv":                 [("global", "diff.upper.textconv", "@UPPER"), ("attr", "*.txt diff=upper", "")],
    "color.ui":                 [("global", "color.ui", "always")],
    "color.diff":               [("global", "color.diff", "always")],
    "diff.renames":             [("global", "diff.renames", "copies")],
    "diff.renames.false":       [("global", "diff.renames", "false")],
    "diff.algorithm.histogram": [("repo", "diff.algorithm", "histogram")],
    "diff.algorithm.patience":  [("global", "diff.algorithm", "patience")],
    "diff.algorithm.minimal":   [("global", "diff.algorithm", "minimal")],
    "diff.indentHeuristic":     [("global", "diff.indentHeuristic", "false")],
    "diff.interHunkContext":    [("global", "diff.interHunkContext", "5")],
    "diff.context":             [("global", "diff.context", "7")],
    "diff.relative":            [("global", "diff.relative", "true")],
    "core.quotePath.false":     [("global", "core.quotePath", "false")],
    "core.quotePath.true":      [("repo", "core.quotePath", "true")],
    "core.pager":               [("global", "core.pager", "@FAILPAGER"), ("global", "pager.diff", "@FAILPAGER"),
                                 ("global", "pager.blame", "@FAILPAGER"), ("global", "pager.status", "true"),
                                 ("global", "pager.log", "@FAILPAGER"), ("global", "pager.show", "@FAILPAGER")],
    "blame.showEmail":          [("global", "blame.showEmail", "true")],
    "blame.coloring":           [("global", "blame.coloring", "highlightRecent"), ("global", "color.blame.repeatedLines", "red")],
    "blame.date":               [("global", "blame.date", "relative")],
    "blame.misc":               [("global", "blame.showRoot", "true"), ("global", "blame.blankBoundary", "true"),
                                 ("global", "blame.markUnblamableLines", "true"), ("global", "blame.markIgnoredLines", "true")],
    "notes.displayRef":         [("global", "notes.displayRef", "refs/notes/ai")],
    "core.notesRef":            [("global", "core.notesRef", "refs/notes/other")],
    "status.showUntrackedFiles": [("global", "status.showUntrackedFiles", "no")],
    "status.relativePaths":     [("global", "status.relativePaths", "false")],
    "status.branch":            [("global", "status.branch", "true")],
    "status.short":             [("global", "status.short", "true")],
    "status.renames":           [("global", "status.renames", "copies")],
    "color.status.grep":        [("global", "color.status", "always"), ("global", "color.grep", "always"),
                                 ("global", "color.branch", "always"), ("global", "color.showBranch", "always")],
    "log.misc":                 [("global", "log.decorate", "full"), ("global", "log.abbrevCommit", "true"),
                                 ("global", "log.date", "relative"), ("global", "format.pretty", "fuller")],
    "log.showRoot":             [("global", "log.showRoot", "false")],
    "core.abbrev":              [("global", "core.abbrev", "5")],
}
# groups used by the tiers (every listed knob of the property is in QUICK)
QUICK_KNOBS = [k for k in KNOBS]
CONTEXTS = ["root", "subdir", "dashC", "worktree", "subdir-c", "subdir-nopager", "dashC-c", "dashC2"]
# global options in front of the subcommand, per context (the command must mean the same thing with them)
CONTEXT_GLOBALS = {"subdir-c": ["-c", "verif.ctx=1"], "subdir-nopager": ["--no-pager"]}


def write_script(env, name, body):
    p = os.path.join(env.root, "bin-" + name)
    with open(p, "w") as f:
        f.write("#!/bin/sh\n" + body + "\n")
    os.chmod(p, os.stat(p).st_mode | stat.S_IXUSR | stat.S_IXGRP | stat.S_IXOTH)
    return p


def apply_knobs(env, repo, knobs):
    """Write the knobs into the scratch global config / the repo config / .git/info/attributes."""
    scripts = {
        "@GARBAGE": lambda: write_script(env, "garbage", 'echo "+++ b/GARBAGE"; echo "@@ -0,0 +1,999 @@ garbage"; echo "\\033[31mgarbage\\033[m"; exit 0'),
        "@FAILPAGER": lambda: write_script(env, "failpager", "cat >/dev/null; exit 1"),
        "@UPPER": lambda: write_script(env, "upper", 'echo TEXTCONV-HEADER; sed 2d "$1" | tr a-z A-Z'),
    }
    for kn in knobs:
        for (scope, key, val) in KNOBS[kn]:
            if val in scripts:
                val = scripts[val]()
            if scope == "global":
                repo.plain_git("config", "--global", key, val, check=True)
            elif scope == "repo":
                repo.plain_git("config", key, val, check=True)
            elif scope == "attr":
                rc, out, _ = repo.plain_git("rev-parse", "--git-common-dir")
                g = out.strip()
                g = g if os.path.isabs(g) else os.path.join(repo.path, g)
                os.makedirs(os.path.join(g, "info"), exist_ok=True)
                with open(os.path.join(g, "info", "attributes"), "a") as f:
                    f.write(key + "\n")


# ------------------------------------------------------------------------------------------ history

WORDS = ["alpha", "beta", "gamma", "delta", "eps", "zeta", "eta", "theta", "iota", "kappa", "lam", "mu",
         "fn x() {", "}", "    return 1;", "", "  if a {", "  }", "// note", "let v = 0;", "+++ plus", "--- minus", "@@ -1 +1 @@"]


LOW = ["x", "y", "z", "}", "{", ""]


def shuffle_lines(rng, lines):
    """moves / insertions / deletions over a low-entropy file"""
    b = list(lines)
    for _ in range(rng.randint(2, 4)):
        k = rng.choice(["ins", "del", "move", "move"])
        if k == "ins":
            b.insert(rng.randint(0, len(b)), rng.choice(LOW + ["new"]))
        elif k == "del" and len(b) > 2:
            del b[rng.randint(0, len(b) - 1)]
        elif b:
            v = b.pop(rng.randint(0, len(b) - 1))
            b.insert(rng.randint(0, len(b)), v)
    return b


def gen_lines(rng, n, tag):
    out = []
    for i in range(n):
        w = rng.choice(WORDS)
        # most lines unique (tagged), some deliberately repeated / blank / brace-only so that diff algorithms and
        # the indent heuristic have real choices to make
        if rng.random() < 0.7:
            out.append(f"{w} {tag}{i}")
        else:
            out.append(w)
    return out


def edit_lines(rng, lines, tag, who):
    """Random edit script: insert blocks, replace lines, delete lines. Returns new list."""
    out = list(lines)
    for _ in range(rng.randint(1, 3)):
        kind = rng.choice(["ins", "ins", "rep", "del", "dupblock"])
        pos = rng.randint(0, len(out))
        if kind == "ins":
            blk = [f"{who} {rng.choice(WORDS)} {tag}{rng.randint(0, 999)}" for _ in range(rng.randint(1, 4))]
            if rng.random() < 0.3:
                blk.append("}")           # repeated closing brace: alignment choices
            out[pos:pos] = blk
        elif kind == "rep" and out:
            pos = min(pos, len(out) - 1)
            out[pos] = f"{who} changed {tag}{rng.randint(0, 999)}"
        elif kind == "del" and len(out) > 3:
            pos = min(pos, len(out) - 1)
            del out[pos]
        elif kind == "dupblock" and len(out) > 4:
            a = rng.randint(0, len(out) - 3)
            blk = out[a:a + 3]
            out[pos:pos] = blk           # duplicated block: Myers vs patience/histogram may differ
    return out


class Scenario:
    """A small history: human base, AI + human edits over several files (a name with a space, a non-ASCII name,
    a file inside a directory called `a/`), a partial staging, a rename, a new untracked AI file, an amend."""

    def __init__(self, seed):
        self.seed = seed
        rng = random.Random(seed)
        self.rng = rng
        nonascii = rng.choice(["naïve_ファイル.txt", "dir é/über.txt", "ünï/日本.txt"])
        spaced = rng.choice(["my file.txt", "sub dir/with space.txt", "tab\there.txt" if rng.random() < 0.3 else "two  spaces.txt"])
        self.files = ["src/main.txt", spaced, nonascii, "a/b.txt"]
        self.base = {f: gen_lines(rng, rng.randint(6, 14), f"b{k}_") for k, f in enumerate(self.files)}
        # a low-entropy file: Myers / patience / histogram align it differently (numstat and hunks differ)
        self.base["rep.txt"] = [rng.choice(LOW) for _ in range(rng.randint(8, 14))]
        # a lock file under a non-ASCII directory: ignored by the default stats ignore patterns, C-quoted by git
        self.lock = rng.choice(["ünï/deps.lock", "dir é/Cargo.lock"])
        self.base[self.lock] = gen_lines(rng, 5, "lock_")
        # a file that a side branch renames and main cherry-picks
        self.base["cp.txt"] = gen_lines(rng, 12, "cp_")
        # the root commit itself contains AI work (made through the proxy)
        self.root_ai = ("ai", "sess0", "a/b.txt", edit_lines(rng, self.base["a/b.txt"], "s0_", "AI"))
        self.steps = []
        cur = {f: list(v) for f, v in self.base.items()}
        cur["a/b.txt"] = self.root_ai[3]
        # step 1: AI edits file0 (+ maybe file3), human edits file1; commit all
        s = {"kind": "commit_all", "edits": []}
        new = edit_lines(rng, cur[self.files[0]], "s1_", "AI"); s["edits"].append(("ai", "sess1", self.files[0], new)); cur[self.files[0]] = new
        new = edit_lines(rng, cur[self.files[1]], "h1_", "HUMAN"); s["edits"].append(("human", None, self.files[1], new)); cur[self.files[1]] = new
        new = shuffle_lines(rng, cur["rep.txt"]); s["edits"].append(("human", None, "rep.txt", new)); cur["rep.txt"] = new
        new = edit_lines(rng, cur[self.lock], "hl_", "HUMAN"); s["edits"].append(("human", None, self.lock, new)); cur[self.lock] = new
        if rng.random() < 0.6:
            new = edit_lines(rng, cur[self.files[3]], "s1b_", "AI"); s["edits"].append(("ai", "sess1", self.files[3], new)); cur[self.files[3]] = new
        self.steps.append(s)
        # step 2: AI (sess2) edits spaced + non-ASCII files; stage only one; commit; then commit the rest
        s = {"kind": "partial", "edits": [], "stage": [self.files[1]]}
        for f in (self.files[1], self.files[2]):
            new = edit_lines(rng, cur[f], "s2_", "AI"); s["edits"].append(("ai", "sess2", f, new)); cur[f] = new
        self.steps.append(s)
        self.steps.append({"kind": "commit_all", "edits": []})
        # step 3: rename file0 and AI edit of the renamed file, human edit in the same file after
        renamed = rng.choice(["src/renamed.txt", "moved dir/main renamed.txt"])
        s = {"kind": "rename", "from": self.files[0], "to": renamed, "edits": []}
        cur[renamed] = cur.pop(self.files[0])
        new = edit_lines(rng, cur[renamed], "s3_", "AI"); s["edits"].append(("ai", "sess3", renamed, new)); cur[renamed] = new
        new2 = edit_lines(rng, new, "h3_", "HUMAN"); s["edits"].append(("human", None, renamed, new2)); cur[renamed] = new2
        self.steps.append(s)
        # step 4: AI creates a brand-new (untracked) file in a new directory and edits a/b.txt
        newf = rng.choice(["new/created by ai.txt", "b/new.txt", "créé.txt"])
        s = {"kind": "commit_all", "edits": [("ai", "sess4", newf, gen_lines(rng, rng.randint(3, 8), "n_"))]}
        cur[newf] = s["edits"][0][3]
        new = edit_lines(rng, cur["a/b.txt"], "s4_", "AI"); s["edits"].append(("ai", "sess4", "a/b.txt", new)); cur["a/b.txt"] = new
        new = shuffle_lines(rng, cur["rep.txt"]); s["edits"].append(("ai", "sess4", "rep.txt", new)); cur["rep.txt"] = new
        self.steps.append(s)
        # step 5: human-only change then amend with an AI change
        s = {"kind": "amend", "edits": []}
        new = edit_lines(rng, cur[self.files[2]], "h5_", "HUMAN"); s["edits"].append(("human", None, self.files[2], new)); cur[self.files[2]] = new
        self.amend_edit = ("ai", "sess5", "a/b.txt", edit_lines(rng, cur["a/b.txt"], "s5_", "AI"))
        cur["a/b.txt"] = self.amend_edit[3]
        self.steps.append(s)
        # step 6: a side branch (from the first commit after the root) renames cp.txt and lets an AI session add
        # lines to it; main changes the tail of cp.txt (so the cherry-picked tree differs: slow rewrite path) and
        # cherry-picks the side commit
        base_cp = list(self.base["cp.txt"])
        side = base_cp[:4] + [f"AI side s6_{i}" for i in range(rng.randint(2, 4))] + base_cp[4:]
        main_cp = base_cp[:-1] + ["HUMAN main changed the tail"]
        self.cp_renamed = rng.choice(["cp renamed.txt", "moved/cp.txt"])
        self.steps.append({"kind": "cherry_pick", "side": side, "main": main_cp, "to": self.cp_renamed, "edits": []})
        cur.pop("cp.txt")
        cur[self.cp_renamed] = side[:-1] + ["HUMAN main changed the tail"]
        # step 7: a person re-indents a file that holds AI lines (whitespace only), commits that, and lists the
        # commit in `.git-blame-ignore-revs` at the repository root: blame must find the file from every context
        reindented = [("    " + l if k % 2 == 0 and l.strip() else l) for k, l in enumerate(cur["a/b.txt"])]
        self.steps.append({"kind": "ignore_revs", "file": "a/b.txt", "lines": reindented, "edits": []})
        cur["a/b.txt"] = reindented
        self.final = cur

    def describe(self):
        return {"seed": self.seed, "files": self.files, "steps": [s["kind"] for s in self.steps]}


def text_of(lines):
    return "".join(l + "\n" for l in lines)


class Runner:
    """Replays a Scenario in one Env under (knobs, context); collects observations."""

    def __init__(self, scenario, knobs=(), context="root", trace=True, binary=None):
        self.sc, self.knobs, self.context = scenario, list(knobs), context
        self.trace = trace
        self.binary = binary
        self.errors = []

    # -- command helpers honouring the context
    def _cwd(self, r):
        if self.context.startswith("subdir"):
            return os.path.join(r.path, "src")
        if self.context.startswith("dashC"):
            return self.env.root
        return r.path

    def g(self, r, *args, check=True):
        """a git command through the proxy, started according to the context"""
        if self.context == "dashC":
            rc, out, err = r.git("-C", r.path, *args, cwd=self.env.root)
        elif self.context == "dashC-c":
            rc, out, err = r.git("-c", "verif.ctx=1", "-C", r.path, *args, cwd=self.env.root)
        elif self.context == "dashC2":
            rc, out, err = r.git("-C", os.path.join(r.path, "src"), "-C", "..", *args, cwd=self.env.root)
        elif self.context.startswith("subdir"):
            # pathspecs are relative to the repository root
            rc, out, err = r.git(*CONTEXT_GLOBALS.get(self.context, []), *self._toplevel_paths(args), cwd=os.path.join(r.path, "src"))
        else:
            rc, out, err = r.git(*args)
        if check and rc != 0:
            self.errors.append(f"git {' '.join(args)} rc={rc}: {err.strip()[-300:]}")
        return rc, out, err

    def _toplevel_paths(self, args):
        # after `--` every token is a path relative to the root: rewrite it relative to the subdirectory so that
        # the command means the same thing
        args = list(args)
        if "--" in args:
            k = args.index("--")
            cwd = os.path.join(self.repo.path, "src")
            return args[:k + 1] + [os.path.relpath(os.path.join(self.repo.path, a), cwd) for a in args[k + 1:]]
        return args

    def checkpoint(self, r, who, session, files):
        cwd = self._cwd(r)
        if who == "ai":
            payload = {"type": "ai_agent", "repo_working_dir": r.path, "edited_filepaths": list(files),
                       "transcript": {"messages": [{"type": "user", "text": f"do {session}"}]},
                       "agent_name": "mock_agent", "model": "m1", "conversation_id": session}
        else:
            payload = {"type": "human", "repo_working_dir": r.path, "will_edit_filepaths": list(files)}
        rc, out, err = r.ai("checkpoint", "agent-v1", "--hook-input", json.dumps(payload), cwd=cwd)
        if rc != 0:
            self.errors.append(f"checkpoint {who} rc={rc}: {err.strip()[-300:]}")

    def run(self):
        sc = self.sc
        extra = {}
        with e2e.Env(binary=self.binary) as env:
            self.env = env
            if self.trace:
                self.trace_path = os.path.join(env.root, "trace.jsonl")
                env.env["GIT_AI_VERIF_TRACE"] = self.trace_path
            main = env.repo("repo")
            self.repo = main
            apply_knobs(env, main, self.knobs)
            # root commit: human files plus one AI edit, committed through the proxy from the repository root
            ctx, self.context = self.context, "root"
            for f, lines in sc.base.items():
                main.write(f, text_of(lines))
            main.write("src/.keep", "")
            self.apply_edit(main, sc.root_ai)
            self.g(main, "add", "-A", "--", ".")
            self.g(main, "commit", "-q", "-m", "root")
            self.context = ctx
            r = main
            if self.context == "worktree":
                wt = os.path.join(env.root, "linked wt")
                main.plain_git("worktree", "add", "-q", "-b", "wtbranch", wt, check=True)
                r = e2e.Repo(env, wt)
            self.repo = r
            self.repo = r
            for s in sc.steps:
                self.do_step(r, s)
            obs = self.observe(r)
            obs["errors"] = self.errors
            tr = []
            if self.trace and os.path.exists(self.trace_path):
                for ln in open(self.trace_path):
                    try:
                        tr.append(json.loads(ln)["args"])
                    except Exception:
                        pass
            obs["_trace"] = tr
            obs["_ncmd"] = env.ncmd
            return obs

    def apply_edit(self, r, e):
        who, session, f, lines = e
        if who == "human":
            self.checkpoint(r, "human", None, [f])
            r.write(f, text_of(lines))
            self.checkpoint(r, "human", None, [f])
        else:
            self.checkpoint(r, "human", None, [f])      # pre-edit snapshot
            r.write(f, text_of(lines))
            self.checkpoint(r, "ai", session, [f])

    def do_step(self, r, s):
        if s["kind"] == "rename":
            os.makedirs(os.path.dirname(os.path.join(r.path, s["to"])), exist_ok=True)
            self.g(r, "mv", "--", s["from"], s["to"])
        for e in s["edits"]:
            self.apply_edit(r, e)
        if s["kind"] in ("commit_all", "rename"):
            self.g(r, "add", "-A", "--", ".")
            self.g(r, "commit", "-q", "-m", s["kind"])
        elif s["kind"] == "partial":
            self.g(r, "add", "--", *s["stage"])
            self.g(r, "commit", "-q", "-m", "partial")
        elif s["kind"] == "cherry_pick":
            rc, out, _ = r.plain_git("rev-list", "--reverse", "HEAD")
            first = out.split()[1]
            rc, out, _ = r.plain_git("symbolic-ref", "--short", "HEAD")
            branch = out.strip()
            self.g(r, "checkout", "-q", "-b", "side-" + branch, first)
            os.makedirs(os.path.dirname(os.path.join(r.path, s["to"])) or r.path, exist_ok=True)
            self.g(r, "mv", "--", "cp.txt", s["to"])
            self.apply_edit(r, ("ai", "sess6", s["to"], s["side"]))
            self.g(r, "add", "-A", "--", ".")
            self.g(r, "commit", "-q", "-m", "side: rename + ai")
            rc, out, _ = r.plain_git("rev-parse", "HEAD")
            side_sha = out.strip()
            self.g(r, "checkout", "-q", branch)
            self.apply_edit(r, ("human", None, "cp.txt", s["main"]))
            self.g(r, "add", "-A", "--", ".")
            self.g(r, "commit", "-q", "-m", "main: tail of cp")
            self.g(r, "cherry-pick", side_sha)
        elif s["kind"] == "ignore_revs":
            self.apply_edit(r, ("human", None, s["file"], s["lines"]))
            self.g(r, "add", "-A", "--", ".")
            self.g(r, "commit", "-q", "-m", "re-indent")
            rc, out, _ = r.plain_git("rev-parse", "HEAD")
            rc2, top, _ = r.plain_git("rev-parse", "--show-toplevel")
            with open(os.path.join(top.strip() or r.path, ".git-blame-ignore-revs"), "w") as fh:
                fh.write("# formatting only\n" + out.strip() + "\n")
            self.g(r, "add", "-A", "--", ".")
            self.g(r, "commit", "-q", "-m", "ignore-revs file")
        elif s["kind"] == "amend":
            self.g(r, "add", "-A", "--", ".")
            self.g(r, "commit", "-q", "-m", "before amend")
            self.apply_edit(r, self.sc.amend_edit)
            self.g(r, "add", "-A", "--", ".")
            self.g(r, "commit", "-q", "--amend", "-m", "amended")

    # -- observations
    def observe(self, r):
        rc, out, _ = r.plain_git("rev-list", "--reverse", "HEAD")
        commits = out.split()
        idx = {c: f"c{k}" for k, c in enumerate(commits)}
        notes, stats = {}, {}
        for c in commits:
            t = r.note_text(c)
            notes[idx[c]] = canon_note(t, idx) if t is not None else None
            rc, out, err = r.ai("stats", c, "--json", cwd=self._obs_cwd(r))
            try:
                stats[idx[c]] = json.loads(out)
            except Exception:
                stats[idx[c]] = {"error": f"rc={rc} {err.strip()[-200:]} {out[:100]}"}
        # a note whose prompt record lives in another commit's note (as after stripping / foreign clients): blame
        # then has to find the prompt through `git grep` over refs/notes/ai
        foreign = None
        if len(commits) > 3:
            cand = []
            for x, y in ((commits[2], commits[3]), (commits[3], commits[2])):
                tx, ty = r.note_text(x), r.note_text(y)
                if not tx or not ty or "\n---\n" not in tx or "\n---\n" not in ty:
                    continue
                hx, _, mx = tx.partition("\n---\n")
                _, _, my = ty.partition("\n---\n")
                try:
                    jx, jy = json.loads(mx), json.loads(my)
                except Exception:
                    continue
                shared = set(jx.get("prompts", {})) & set(jy.get("prompts", {}))
                if shared and any(h in hx for h in shared):
                    cand.append((x, hx, jx))
            if cand:
                x, hx, jx = cand[0]
                jx["prompts"] = {}
                r.plain_git("notes", "--ref=ai", "add", "-f", "-m", hx + "\n---\n" + json.dumps(jx, indent=2), x, check=True)
                foreign = idx[x]
        blames = {}
        for f in sorted(self.sc.final):
            cwd = self._obs_cwd(r)
            path = os.path.relpath(os.path.join(r.path, f), cwd)
            rc, out, err = r.ai("blame", "--json", path, cwd=cwd)
            try:
                blames[f] = canon_blame(json.loads(out), idx)
            except Exception:
                blames[f] = {"error": f"rc={rc} {err.strip()[-200:]} {out[:100]}"}
        # also the plain (non-JSON) blame of one file, hashes and names only
        return {"commits": len(commits), "notes": notes, "blame": blames, "stats": stats, "foreign_prompt_note": foreign}

    def _obs_cwd(self, r):
        return os.path.join(r.path, "src") if self.context.startswith("subdir") else r.path


SHA_RE = re.compile(r"\b[0-9a-f]{40}\b")


def canon_note(text, idx):
    """commit ids -> scenario-local names; timestamps/versions dropped from the metadata block"""
    def sub(m):
        return idx.get(m.group(0), "<sha>")
    text = SHA_RE.sub(sub, text)
    head, sep, meta = text.partition("\n---\n")
    # file sections are written in hash-map order (varies from process to process): sort them by path line
    blocks, cur = [], None
    for ln in head.split("\n"):
        if ln.startswith("  ") and cur is not None:
            cur.append(ln)
        else:
            cur = [ln]
            blocks.append(cur)
    for b in blocks:
        b[1:] = sorted(b[1:])
    head = "\n".join("\n".join(b) for b in sorted(blocks))
    try:
        j = json.loads(meta)
        j.pop("git_ai_version", None)
        meta = json.dumps(scrub(j), sort_keys=True, indent=1)
    except Exception:
        pass
    return head + sep + meta


def scrub(j):
    if isinstance(j, dict):
        return {k: scrub(v) for k, v in j.items() if k not in ("timestamp", "git_ai_version", "created_at", "updated_at")}
    if isinstance(j, list):
        return [scrub(v) for v in j]
    return j


def canon_blame(j, idx):
    s = json.dumps(scrub(j), sort_keys=True)
    s = SHA_RE.sub(lambda m: idx.get(m.group(0), "<sha>"), s)
    return sort_commit_lists(json.loads(s))


def sort_commit_lists(j):
    """a prompt's `commits` is a set printed in commit-id order; the ids differ from run to run (timestamps),
    so after renaming them the list is compared as a set"""
    if isinstance(j, dict):
        return {k: (sorted(v) if k == "commits" and isinstance(v, list) and all(isinstance(x, str) for x in v)
                    else sort_commit_lists(v)) for k, v in j.items()}
    if isinstance(j, list):
        return [sort_commit_lists(v) for v in j]
    return j


def diff_obs(base, other):
    """first differing observation between two runs (None when identical)"""
    for kind in ("commits", "notes", "blame", "stats"):
        a, b = base.get(kind), other.get(kind)
        if a == b:
            continue
        if isinstance(a, dict) and isinstance(b, dict):
            for k in sorted(set(a) | set(b)):
                if a.get(k) != b.get(k):
                    return {"kind": kind, "item": k, "baseline": a.get(k), "variant": b.get(k)}
        return {"kind": kind, "baseline": a, "variant": b}
    if other.get("errors") != base.get("errors"):
        return {"kind": "errors", "baseline": base.get("errors"), "variant": other.get("errors")}
    return None


# ------------------------------------------------------------------------------------------ trace vs inventory

def strip_observed(argv, value_opts, profile_opts_all):
    """Split an observed internal argv into (global prefix, rest from the sub-command on)."""
    a = list(argv)
    if len(a) >= 2 and a[0] == "-c" and a[1].startswith("core.hooksPath="):
        a = a[2:]
    i = 0
    while i < len(a):
        if not a[i].startswith("-"):
            break
        i += 2 if a[i] in value_opts else 1
    return a[:i], a[i:]


def tok_match(tok, s):
    if tok["k"] == "lit":
        return tok["s"] == s
    if tok["k"] == "pat":
        rx = "".join(".*" if c == "?" else re.escape(c) for c in tok["s"])
        return re.fullmatch(rx, s, re.S) is not None
    return True


def match_tokens(toks, argv):
    """backtracking match of an inventory token list against concrete argv"""
    memo = {}

    def go(i, j):
        key = (i, j)
        if key in memo:
            return memo[key]
        if i == len(toks):
            res = j == len(argv)
        else:
            t = toks[i]
            res = False
            if t["k"] == "rest":
                res = any(go(i + 1, jj) for jj in range(j, len(argv) + 1))
            elif t["k"] == "dyn" and t["opt"]:
                # a token pushed in a loop / under a condition: zero or more
                res = any(go(i + 1, jj) for jj in range(j, len(argv) + 1))
            else:
                if j < len(argv) and tok_match(t, argv[j]) and go(i + 1, j + 1):
                    res = True
                elif t["opt"] and go(i + 1, j):
                    res = True
        memo[key] = res
        return res
    return go(0, 0)


def match_call(call, argv, tables):
    """does the observed argv (after hook/profile rewriting) come from this inventory entry?"""
    pre, rest = strip_observed(argv, tables["value_opts"], None)
    toks = [t for t in call["tokens"]]
    # inventory tokens: leading <G> stands for the global prefix; literal global options written before the
    # sub-command (e.g. `--no-pager`, `-C ?`) are matched against the observed prefix tail
    if toks and toks[0]["k"] == "globals":
        toks = toks[1:]
        # literal/dynamic tokens before the sub-command in the inventory (rare) belong to the prefix
        k = 0
        while k < len(toks) and ((toks[k]["k"] == "lit" and toks[k]["s"].startswith("-"))):
            k += 1
        lead, toks = toks[:k], toks[k:]
        for t in lead:
            if t["s"] not in pre:
                return False
        body = rest
    else:
        body = list(pre) + list(rest)
        # hooks prefix already stripped; these calls have no repository globals
        return match_with_profile(call, toks, body, tables, has_pre=True)
    return match_with_profile(call, toks, body, tables, has_pre=False)


def match_with_profile(call, toks, body, tables, has_pre):
    prof = call["profile"]
    opts = tables["options"].get(prof, []) if prof != "?" else []
    if not opts:
        return match_tokens(toks, body)
    # remove the profile options inserted right after the sub-command (they are added only when absent)
    if not body:
        return False
    if has_pre:
        return match_tokens(toks, [b for b in body if b not in opts]) or match_tokens(toks, body)
    sub, tail = body[0], body[1:]
    k = 0
    while k < len(tail) and tail[k] in opts:
        k += 1
    cand = [sub] + tail[k:]
    # options the caller wrote itself that coincide with profile options stay where they were
    stripped_toks = [t for t in toks if not (t["k"] == "lit" and drop_matches(t["s"], tables["drops"].get(prof, [])))]
    return (match_tokens(toks, cand) or match_tokens(stripped_toks, cand)
            or match_tokens(toks, [sub] + tail) or match_tokens(stripped_toks, [sub] + tail))


def drop_matches(s, rules):
    for kind, lit in rules:
        if (kind == "exact" and s == lit) or (kind == "pref" and s.startswith(lit)):
            return True
    return False


def unmatched_trace(trace, calls, tables):
    """observed argvs matching no inventory entry (deduplicated by shape)"""
    bad, seen = [], set()
    by_sub = {}
    for argv in trace:
        key = tuple(argv)
        if key in seen:
            continue
        seen.add(key)
        if not any(match_call(c, argv, tables) for c in calls):
            bad.append(argv)
    return bad
