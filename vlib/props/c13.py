"""C13 — wrapper mode and git-hooks mode record the same authorship (DESIGN §8 C13).

Proof: lean/GitAiModel/Props/C13.lean over Model/HookMode.lean (git's hook firing `fires` as a kernel table,
`managed` = run_managed_hook with its side-state files, `wrapper` = commands/hooks/*.rs, `invoke`/`both` = the
skip logic) and the tables extract/hook_tables.py regenerates from the working tree on every run.

Tie (end-to-end twin run, vlib/props/c13_run.py): the same generated sequence of edits, checkpoints and git
commands runs in four scratch repositories — W wrapper mode, H hooks mode (`git-ai git-hooks ensure`, plain git),
B both installed, T plain git with tracing hooks — with identical dates, so corresponding commits have identical
ids. After every operation:
  correspondence (model vs code; a disagreement is a broken tie, then a search)
    fires         the Lean `fires` table vs the hooks git really ran in T (name, arguments, stdin, in-progress markers)
    journal:W|H|B the rewrite_log events the model predicts for each configuration vs the events each twin appended
    side-state    the hook-mode side-state files the model predicts vs the files present in H
  oracles (on the implementation alone)
    events-differ:<op>   canonical handled journal events of H differ from W's
    notes-differ:<op>    a reachable commit's note (files, sessions, line sets, prompt records, base) differs
    blame-differs:<op>   `git-ai blame --json` of a file differs
    both-*:<op>          the same three for B against W (every event handled once), on the full journal
    side-state-left:<op> H keeps side-state files although no rebase / cherry-pick is in progress
    git-state-diverged   the twins' refs differ (the scenario is void)
  From the first operation of a scenario for which the model itself predicts different handler inputs (the region
  excluded from the `_partial` theorems, each family with a Lean negation witness) differences in notes / blame /
  lingering side state are reported under `modes-differ:<that op>`; the predicted difference of the events
  themselves is then not a failure (it is checked, per twin, by the journal correspondence).
"""
import concurrent.futures, json, os, sys, traceback

from vlib import common as C, e2e, sysrun as S
from vlib.props import c13_run as R, c13_util as U

sys.path.insert(0, os.path.join(C.VERIF, "extract"))

PROP = "C13"
NS = "GitAi.HookMode."
THEOREMS = [NS + t for t in [
    "events_equal_partial", "side_state_cleared_partial", "rebase_stop_masks", "witness_abort_leaves_mask",
    "checkpoint_after_abort_restores", "fix_tables", "regression_commit_after_abort", "witness_commit_after_abort",
    "witness_reset_after_abort", "regression_noop_rebase_restores_mask", "good_canon", "modes_equivalent_partial",
    "good_of_complete", "modes_equivalent_complete", "no_double_execution", "no_double_execution_seq",
    "no_double_execution_tables", "hook_name_tables", "managed_dispatch_matches_model", "wrapper_dispatch_matches_model",
    "handled_kinds_match_model", "witness_stash_apply", "witness_checkout_force", "witness_checkout_merge",
    "witness_checkout_path", "witness_rebase_drop", "witness_rebase_squash", "witness_cherry_pick_batch",
    "witness_rebase_autostash", "witness_pull_rebase_autostash",
    "witness_reset_unrecorded", "witness_reset_hard_same_head", "witness_reset_forward", "witness_stash_push_unrecorded"]]
CORPUS = os.path.join(C.VERIF, "corpus", "C13", "scenarios.jsonl")
WORKERS = 16
MANAGED = ["pre-commit", "prepare-commit-msg", "post-commit", "pre-rebase", "post-checkout", "post-merge", "pre-push",
           "post-rewrite", "reference-transaction"]
ZERO = "0" * 40
# operations outside the alphabet of the Lean model on which the two modes are known to differ
UNMODELLED_DIFFERING = {"cherry-pick-commit"}


# ------------------------------------------------------------------ observed → model vocabulary
def ev_to_model(ev, ix):
    """one rewrite_log line in the shape Driver/HookMode.lean prints journal events"""
    if not isinstance(ev, dict) or len(ev) != 1:
        return {"kind": "unparsable"}
    (k, v), = ev.items()
    L = lambda xs: [ix(x) for x in (xs or [])]
    if k == "commit":
        return {"kind": k, "base": ix(v.get("base_commit")), "sha": ix(v.get("commit_sha"))}
    if k == "commit_amend":
        return {"kind": k, "orig": ix(v.get("original_commit")), "new": ix(v.get("amended_commit_sha"))}
    if k == "merge_squash":
        return {"kind": k, "src_named": v.get("source_branch") != v.get("source_head"), "source_head": ix(v.get("source_head")),
                "base_head": ix(v.get("base_head"))}
    if k == "rebase_start":
        return {"kind": k, "original_head": ix(v.get("original_head")), "is_interactive": v.get("is_interactive"),
                "onto_head": ix(v.get("onto_head"))}
    if k == "rebase_complete":
        return {"kind": k, "original_head": ix(v.get("original_head")), "new_head": ix(v.get("new_head")),
                "is_interactive": v.get("is_interactive"), "original_commits": L(v.get("original_commits")),
                "new_commits": L(v.get("new_commits"))}
    if k in ("rebase_abort", "cherry_pick_abort"):
        return {"kind": k, "original_head": ix(v.get("original_head"))}
    if k == "cherry_pick_start":
        return {"kind": k, "original_head": ix(v.get("original_head")), "source_commits": L(v.get("source_commits"))}
    if k == "cherry_pick_complete":
        return {"kind": k, "original_head": ix(v.get("original_head")), "new_head": ix(v.get("new_head")),
                "source_commits": L(v.get("source_commits")), "new_commits": L(v.get("new_commits"))}
    if k == "reset":
        return {"kind": k, "reset_kind": v.get("kind"), "keep": v.get("keep"), "merge": v.get("merge"),
                "new_head_sha": ix(v.get("new_head_sha")), "old_head_sha": ix(v.get("old_head_sha"))}
    return {"kind": k}


def act_class(a):
    a = a or ""
    if not a:
        return ""
    if a.startswith("pull"):
        return "pull"
    if "amend" in a.lower():
        return "amend"
    if a.startswith("reset:"):
        return "reset"
    return "other"


def trace_to_model(trace, ix, resolve):
    """the hooks T recorded, filtered to the ones the model speaks about, in the shape `fires` is printed"""
    out = []
    for r in trace:
        h = r["hook"]
        if h not in MANAGED and h != "commit-msg":
            continue
        rebase = any(c.startswith("rebase-") for c in r["ctx"])
        cph = [c.split()[1] for c in r["ctx"] if c.startswith("cherry-pick-head ")]
        e = {"hook": h, "rebaseDir": rebase, "cpHead": bool(cph), "seqDir": "sequencer" in r["ctx"]}
        if not rebase:
            e["action"] = act_class(r["act"])
        z = lambda s: None if s == ZERO or set(s) == {"0"} else ix(s)
        if h == "reference-transaction":
            ups = []
            for line in r["stdin"]:
                f = line.split()
                if len(f) < 3:
                    continue
                ref = f[2]
                cls = "HEAD" if ref == "HEAD" else ("refs/stash" if ref == "refs/stash" else ("branch" if ref.startswith("refs/heads/") else None))
                if cls:
                    ups.append([z(f[0]), z(f[1]), cls])
            phase = r["args"][0] if r["args"] else ""
            has_stash = any(u[2] == "refs/stash" for u in ups)
            if not ups or not (has_stash or phase == "committed"):
                continue
            e["phase"] = phase
            e["ups"] = ups
            if not rebase:
                e["reflogReset"] = r["subj"].startswith("reset:") if phase == "committed" and not has_stash else None
        elif h == "pre-rebase":
            e["upstream"] = ix(resolve(r["args"][0])) if r["args"] else None
            e["branch"] = ix(resolve(r["args"][1])) if len(r["args"]) > 1 else None
        elif h == "post-rewrite":
            e["kind"] = r["args"][0] if r["args"] else ""
            e["pairs"] = [[ix(x.split()[0]), ix(x.split()[1])] for x in r["stdin"] if len(x.split()) >= 2]
        elif h == "post-checkout":
            e["old"], e["new"], e["flag"] = z(r["args"][0]), z(r["args"][1]), r["args"][2] == "1"
        elif h == "post-merge":
            e["squash"] = r["args"][:1] == ["1"]
        out.append(e)
    return out


def fires_to_cmp(fires):
    out = []
    for f in fires:
        e = {"hook": f["hook"], "rebaseDir": f["rebaseDir"], "cpHead": f["cpHead"] is not None, "seqDir": f["seqDir"]}
        if not f["rebaseDir"]:
            e["action"] = f["action"]
        for k in ("phase", "ups", "upstream", "branch", "kind", "pairs", "old", "new", "flag", "squash"):
            if k in f:
                e[k] = f[k]
        if f["hook"] == "reference-transaction" and not f["rebaseDir"]:
            has_stash = any(u[2] == "refs/stash" for u in f["ups"])
            e["reflogReset"] = f["reflogReset"] if f["phase"] == "committed" and not has_stash else None
        out.append(e)
    return out


def loosen(evs):
    """facts of the trace the kernel table does not claim: the sequencer directory on abort, reflog subject of
    no-op HEAD updates"""
    out = []
    for e in evs:
        e = dict(e)
        if e["hook"] == "reference-transaction" and all(u[0] == u[1] for u in e.get("ups", [])):
            e["reflogReset"] = None
            e["seqDir"] = None
        if e["rebaseDir"]:
            # inside a rebase the managed code looks at nothing but the rebase directory
            e["cpHead"] = e["seqDir"] = None
        out.append(e)
    return out


# ------------------------------------------------------------------ one scenario
def run_scenario(job):
    """one twin run; a harness exception (a command timing out on a loaded machine) is retried once"""
    out = run_scenario_once(job)
    if any(sig == "runner-exception" for sig, _ in out["failures"]):
        out = run_scenario_once(job)
    return out


def run_scenario_once(job):
    """job = {"seed", "macros": [[name, params]…], "name"} → result dict (JSON-able)"""
    seed, macros = job["seed"], job["macros"]
    res = {"job": job, "failures": [], "ties": [], "tags": [], "nops": 0, "log": [], "good": None, "compared": {"WH": 0, "WB": 0}}
    sc = None
    try:
        sc = R.Scenario(seed)
        sc.run_macro("base")
        for name, prm in macros:
            sc.run_macro(name, prm)
            if len(sc.ops) >= job.get("max_ops", 14):
                break
        evaluate(sc, res, sc.finish())
    except Exception as ex:
        res["failures"].append(("runner-exception", {"error": repr(ex), "trace": traceback.format_exc()[-1800:]}))
    finally:
        if sc:
            res["log"] = [compact_step(s) for s in sc.steps][:400]
            sc.close()
    return res


def compact_step(s):
    if s["k"] == "write":
        return {"k": "write", "path": s["path"], "lines": len(R.lines_of(s["content"]))}
    return s


def evaluate(sc, res, final=None):
    ops = sc.ops
    res["nops"] = len(ops)
    res["tags"].extend(f"op={o['label']}" for o in ops)
    # ---- the model's prediction for the longest prefix of operations whose facts are known
    mops = []
    for o in ops:
        m = o["model"]
        if not m or "error" in m:
            break
        mops.append(m)
    pred = None
    if mops:
        r = C.run_driver([{"op": "hookmode_run", "ops": mops}])[0]
        if "steps" in r:
            pred = r["steps"]
            res["good"] = r.get("good")
        else:
            res["ties"].append(("driver", {"response": r, "ops": mops}))
    res["tags"].append(f"model-ops={len(mops)}/{len(ops)}")
    resolve_cache = {}
    taint = None                # label of the first operation the model excludes from the agreeing region
    stale = None                # label of the operation after which the model says the hook mask stays on with no rebase in progress
    wh_done = False             # W-vs-H comparison stops at the first difference (everything later is a consequence)
    side_reported = False
    wb_done = False
    for k, o in enumerate(ops):
        lab = o["label"]
        obs, prev = o["obs"], o["prev"]
        heads = {t: (obs[t]["head"], tuple(obs[t]["refs"])) for t in obs}
        if len(set(heads.values())) != 1:
            res["failures"].append((f"git-state-diverged:{lab}", {"heads": {t: h[0] for t, h in heads.items()}, "op": o["args"]}))
            return
        ix = sc.ix
        delta = {t: obs[t]["journal"][len(prev[t]["journal"]):] for t in "WHB"}
        p = pred[k] if pred and k < len(pred) else None
        if lab == "revert":
            wh_done = True      # outside the common alphabet: the wrapper has no revert hook (B-vs-W still compared)
        if lab in UNMODELLED_DIFFERING and taint is None:
            taint = lab         # no Lean op for it; a recorded difference between the modes (known finding), twin run only
        # ---------------- correspondence with the model
        if p is not None:
            for t in "WHB":
                got = [ev_to_model(e, ix) for e in delta[t]]
                want = p[t]["journal"]
                if got != want:
                    res["ties"].append((f"journal:{t}", {"op": lab, "args": o["args"], "model_op": o["model"], "model": want, "observed": got}))
            def resolve(name):
                if name not in resolve_cache:
                    resolve_cache[name] = sc.tw["T"].r.plain_git("rev-parse", "--verify", "-q", name)[1].strip() or None
                return resolve_cache[name]
            tgot = loosen(trace_to_model(o["trace"], ix, lambda n: o.get("resolved", {}).get(n) or resolve(n)))
            twant = loosen(fires_to_cmp(p["fires"]))
            if tgot != twant:
                d = next((i for i, (a, b) in enumerate(zip(tgot, twant)) if a != b), min(len(tgot), len(twant)))
                res["ties"].append(("fires", {"op": lab, "args": o["args"], "first_difference_at": d,
                                              "model": twant[max(0, d - 1):d + 2], "observed": tgot[max(0, d - 1):d + 2],
                                              "n_model": len(twant), "n_observed": len(tgot)}))
            side_model = sorted(f for f, on in (("rebase_hook_mask_state.json", p["side"]["mask"]), ("pull_hook_state.json", p["side"]["pull"] is not None),
                                                 ("stash_ref_tx_state.json", p["side"]["stashTx"] is not None),
                                                 ("cherry_pick_batch_state.json", p["side"]["cpBatch"] is not None),
                                                 ("cherry_pick_hook_state", p["side"]["cpState"] is not None)) if on)
            if side_model != sorted(obs["H"]["side"]):
                res["ties"].append(("side-state", {"op": lab, "model": side_model, "observed": sorted(obs["H"]["side"])}))
            if not p["stepOk"] and taint is None:
                # `stale`: an earlier `rebase --abort` left the hook entry points renamed away (witness_abort_leaves_mask);
                # an operation other than commit / checkout / rewrite that follows is not seen by hooks mode
                only_side = p["wf"] and p["agree"] and p["journalOk"] and not p["sideOk"]
                taint = (stale + "+masked-op") if (stale and only_side) else lab
            stale = (stale or lab) if (p["side"]["mask"] and not obs["H"]["in_progress"]) else None
            res["tags"].append(f"stepOk={p['stepOk']}")
        # ---------------- oracles: H against W
        if not wh_done:
            res["compared"]["WH"] += 1
            diffs = []
            cw, ch = U.canon_journal(delta["W"]), U.canon_journal(delta["H"])
            if cw != ch:
                diffs.append(("events-differ", {"W": rename(cw, ix), "H": rename(ch, ix)}))
            nd = diff_maps(obs["W"]["notes"], obs["H"]["notes"])
            if nd:
                diffs.append(("notes-differ", {"commit": ix(nd[0]), "W": obs["W"]["notes"].get(nd[0]), "H": obs["H"]["notes"].get(nd[0]), "n": len(nd)}))
            bd = diff_maps(obs["W"]["blame"], obs["H"]["blame"])
            if bd:
                diffs.append(("blame-differs", {"path": bd[0], "W": obs["W"]["blame"].get(bd[0]), "H": obs["H"]["blame"].get(bd[0])}))
            left = obs["H"]["side"] if not obs["H"]["in_progress"] else []
            if p is not None and left == ["rebase_hook_mask_state.json"] and p["side"]["mask"] and stale == "rebase-abort":
                # what the model says of `rebase --abort` (no hook left to run): the next commit / checkout restores the
                # entry points; what an operation in between loses is compared on that operation
                left = []
            if left:
                diffs.append(("side-state-left", {"files": left}))
            if taint:
                # inside the excluded region the model itself predicts different handler inputs (checked above, per
                # twin, by the journal correspondence): only what the property speaks about — notes, blame — and
                # lingering side state count
                diffs = [x for x in diffs if x[0] != "events-differ"]
            if diffs:
                # everything after the first difference in what was recorded is a consequence of it; lingering side
                # state alone is reported once and the comparison goes on (its consequences show on later operations)
                wh_done = any(kd != "side-state-left" for kd, _ in diffs)
                if not wh_done:
                    if side_reported:
                        diffs = []
                    side_reported = True
                for kind, d in diffs:
                    sig = f"modes-differ:{taint}" if taint else f"{kind}:{lab}"
                    d.update({"kind": kind, "op": lab, "args": o["args"], "op_index": k, "model_op": o["model"],
                              "first_excluded_op": taint})
                    res["failures"].append((sig, d))
        # ---------------- oracles: B against W (every event handled once)
        if not wb_done:
            res["compared"]["WB"] += 1
            diffs = []
            fw, fb = [ev_to_model(e, ix) for e in delta["W"]], [ev_to_model(e, ix) for e in delta["B"]]
            if fw != fb:
                diffs.append(("both-events-differ", {"W": fw, "B": fb}))
            nd = diff_maps(obs["W"]["notes"], obs["B"]["notes"])
            if nd:
                diffs.append(("both-notes-differ", {"commit": ix(nd[0]), "W": obs["W"]["notes"].get(nd[0]), "B": obs["B"]["notes"].get(nd[0])}))
            bw, bb = obs["W"]["blame"], obs["B"].get("blame")
            if k == len(ops) - 1 and final and "B" in final:
                bw, bb = final["W"], final["B"]         # blame of the both-installed twin: once, at the end
            bd = diff_maps(bw, bb) if bb is not None else []
            if bd:
                diffs.append(("both-blame-differs", {"path": bd[0], "W": bw.get(bd[0]), "B": bb.get(bd[0])}))
            if obs["B"]["side"]:
                diffs.append(("both-side-state", {"files": obs["B"]["side"]}))
            if diffs:
                wb_done = True
                for kind, d in diffs:
                    d.update({"kind": kind, "op": lab, "args": o["args"], "op_index": k})
                    res["failures"].append((f"{kind}:{lab}", d))
    res["tags"].append("scenario=" + ("tainted:" + taint if taint else "agreeing"))
    if taint is None and pred and len(pred) == len(ops) and not res["good"]:
        res["ties"].append(("good", {"detail": "every step is stepOk but `good` is false"}))


def rename(evs, ix):
    def f(v):
        if isinstance(v, str) and len(v) == 40:
            return ix(v)
        if isinstance(v, list):
            return [f(x) for x in v]
        if isinstance(v, tuple):
            return [f(x) for x in v]
        if isinstance(v, dict):
            return {k: f(x) for k, x in v.items()}
        return v
    return f(evs)


def diff_maps(a, b):
    return [k for k in sorted(set(a) | set(b)) if a.get(k) != b.get(k)]


# ------------------------------------------------------------------ generation
def gen_job(seed, profile):
    """agree: macros of the agreeing region only (plus, sometimes, a `revert` for the both-installed twin).
    full: the same with exactly ONE macro of the excluded region somewhere, so that a later difference is attributed
    to one excluded operation (`modes-differ:<op>`) unambiguously."""
    rng = S.Rng(seed ^ 0x13C)
    n = 2 + rng.below(2)
    macros = [[rng.pick(R.MACROS_AGREE), {}] for _ in range(n)]
    if profile == "full":
        excluded = [m for m in R.MACROS_FULL if m not in R.MACROS_AGREE and m != "revert"]
        macros[rng.below(len(macros))] = [rng.pick(excluded), {}]
    elif rng.chance(1, 3):
        macros.append(["revert", {}])
    return {"seed": seed, "macros": macros, "profile": profile, "max_ops": 22}


def load_corpus():
    jobs = []
    try:
        for line in open(CORPUS):
            line = line.strip()
            if line and not line.startswith("#"):
                jobs.append(json.loads(line))
    except FileNotFoundError:
        pass
    return jobs


def phase(res, jobs, kind0):
    with concurrent.futures.ThreadPoolExecutor(WORKERS) as ex:
        outs = list(ex.map(run_scenario, jobs))
    ties = 0
    for out in outs:
        job = out["job"]
        kind = job.get("_kind") or kind0
        res.count_case(json.dumps(out["log"], ensure_ascii=False, sort_keys=True), nontrivial=out["nops"] >= 3)
        res.tag([f"{kind}:macro={m[0]}" for m in job["macros"]] + out["tags"])
        res.tags["ops-compared:W-vs-H"] = res.tags.get("ops-compared:W-vs-H", 0) + out["compared"]["WH"]
        res.tags["ops-compared:W-vs-B"] = res.tags.get("ops-compared:W-vs-B", 0) + out["compared"]["WB"]
        res.sample({"job": job, "ops": [t for t in out["tags"] if t.startswith("op=")]}, cap=3)
        seen = set()
        for sig, d in out["failures"]:
            if sig in seen:
                continue
            seen.add(sig)
            res.oracle_failure(sig, {"job": job, "detail": C.trunc(d, 3000), "steps": out["log"][:120]},
                               what=f"twin run: {sig}")
        for name, d in out["ties"]:
            ties += 1
            if ties <= 6:
                res.broken_tie(f"model-correspondence:{name}", {"job": job, "detail": C.trunc(d, 2500)})
    return outs, ties


def run(tier, seed):
    res = C.Result(PROP, tier, seed)
    res.rule = ("end-to-end twin run: generated macro sequences (work/amend, rebase plain|--onto|with strategy options (-X <v>, -s <v>, "
                "--empty <v>, …)|--autostash|nothing to replay|-i reorder|squash|fixup|drop, conflict stop+continue|skip|abort "
                "(then agent edit | commit by hand | reset), cherry-pick single|range|-n|conflict (continue | abort | concluded with git commit), "
                "reset soft|mixed|hard (+unrecorded edits, same head, forward), stash push/pop/apply, merge --squash, checkout/switch "
                "plain|-c|-f|-m|paths, pull ff|rebase|rebase with every local commit already upstream|rebase --autostash, revert, "
                "the first git-ai checkpoint after an aborted rebase as an operation of its own) executed "
                "in lock-step in a wrapper-mode, a hooks-mode, a both-installed and a hook-tracing repository with identical dates; "
                "non-trivial = at least 3 compared operations")
    res.trusted = ["Lean 4.33 kernel", "extract/hook_tables.py", "vlib/props/c13*.py (twin runner, canonicalisation, independent note parser of vlib/e2e.py)",
                   "real git 2.39.5 (object ids, hook firing)"]
    res.assumptions = [
        "PARTIAL (DESIGN §10): `fires` — which hooks git runs, with which arguments/stdin and which repository facts visible — is a "
        "kernel table written from githooks(5) and validated by the tracing twin on git 2.39.5 only",
        "the 3.8k-line hook module is modelled at the level of its event translation (run_managed_hook, hook_requires_managed_repo_lookup, "
        "maybe_* helpers, side-state files as explicit state), not line by line; fidelity rests on the journal / side-state correspondence of the twin run",
        "both modes end in the same handlers (handle_rewrite_log_event → rewrite_authorship_if_needed, reconstruct_working_log_after_reset, "
        "rename/delete_working_log, post_stash_hook, restore_stashed_va): equality of notes/blame is derived from equality of the canonical handler "
        "inputs for an arbitrary handler function; a human checkpoint with nothing unrecorded and a rename of an absent working log are no-ops",
        "repository-local core.hooksPath is the managed directory (as `git-hooks ensure` sets it); feature flag rewrite_stash on (debug build); "
        "no forwarding target; the self-heal thread is off (GIT_AI_TEST_DB_PATH set, as in the project's own hooks-mode tests)",
        "outside the agreeing region `stepOk` (Lean negation witnesses; known findings modes-differ:<op>) the twins are compared only up to the first difference",
    ]
    # 1. extraction
    try:
        import hook_tables
        x, changed = hook_tables.main()
        res.obligation("extract HookTables from the working tree", True, "extract")
        res.extra["hook_tables"] = {"managed": x["managed"], "uses_managed": x["uses_managed"], "spawn_sites": x["spawn_sites"],
                                    "spawn_sites_with_env": x["spawn_sites_with_env"], "handled": x["handled"], "regenerated": changed}
    except Exception as e:
        res.obligation("extract HookTables from the working tree", False, "extract")
        res.broken_tie("extract HookTables", repr(e))
    # 2. proofs
    C.phase_proofs(res, PROP, THEOREMS)
    # 3. binary
    ok, out = C.build_git_ai()
    res.obligation("build binary from the working tree", ok, "build")
    if not ok:
        res.broken_tie("build", out[-3000:])
        return res.finish()
    # 4. corpus, then generated twin runs
    corpus = [j for j in load_corpus() if tier == "thorough" or j.get("tier") != "thorough"]
    n = 16 if tier == "quick" else 400
    jobs = [gen_job(seed * 100000 + i, "agree" if i % 2 == 0 else "full") for i in range(n)]
    # one pool for both (no barrier between the corpus and the generated scenarios); corpus results are reported first
    for j in corpus:
        j["_kind"] = "corpus"
    for j in jobs:
        j["_kind"] = "gen"
    outs_all, ties_all = phase(res, corpus + jobs, None)
    outs, outs2, ties, ties2 = outs_all[:len(corpus)], outs_all[len(corpus):], ties_all, 0
    res.obligation("correspondence:fires+journal+side-state (model vs twins)", ties + ties2 == 0, "correspondence")
    res.extra["twin"] = {"corpus": len(corpus), "generated": len(jobs), "model_disagreements": ties + ties2,
                         "scenarios_agreeing": sum(1 for o in outs + outs2 if "scenario=agreeing" in o["tags"]),
                         "operations": sum(o["nops"] for o in outs + outs2)}
    # 5. a broken tie without a failing input: search on the implementation with more seeds
    if res.broken and not res.violations:
        extra = [gen_job(seed * 100000 + 50000 + i, "agree") for i in range(40 if tier == "quick" else 200)]
        phase(res, extra, "search")
        res.extra["search"] = f"{len(extra)} further agreeing-profile twin runs searched for a failing input"
    return res.finish()


if __name__ == "__main__":
    # debugging aid: python3 -m vlib.props.c13 <seed> <macro> [<macro>…]
    C.DRIVER_BIN = os.environ.get("C13_DRIVER", C.DRIVER_BIN)
    job = {"seed": int(sys.argv[1]), "macros": [[m, {}] for m in sys.argv[2:]]}
    out = run_scenario(job)
    print(json.dumps({k: out[k] for k in ("failures", "ties", "tags", "good", "compared")}, indent=1)[:20000])
