"""C13 twin-run machinery: the same generated sequence of edits, checkpoints and git commands is executed in
lock-step in four scratch repositories ("twins"), each in its own isolated environment:

  W  wrapper mode   every git command goes through the git-ai proxy (GIT_AI=git <binary> …)
  H  hooks mode     `git-ai git-hooks ensure` (isolated HOME / GIT_CONFIG_GLOBAL, GIT_AI_GLOBAL_GIT_HOOKS=true),
                    then plain git: git-ai only sees what git's hooks tell it
  B  both           hooks installed *and* commands go through the proxy (double-execution check)
  T  trace          plain git, no git-ai; core.hooksPath points at scripts that log every hook invocation
                    (name, arguments, stdin, GIT_REFLOG_ACTION, in-progress markers): validates `fires`

All twins get the same clock per step (same author/committer dates) so that corresponding commits have
the *same* object ids in all four repositories; this is checked after every operation.
"""
import json, os, stat

from vlib import e2e, sysrun as S
from vlib.props import c13_util as U

TOOL = S.TOOL
CLOCK0 = 1760000000          # must stay >= blame.rs OLDEST_AI_BLAME_DATE (2025-07-04), see e2e.Env

TRACE_HOOK = r'''#!/bin/sh
# logs one record per hook invocation (C13 `fires` validation)
gd="${GIT_DIR:-.git}"
n=$(basename "$0")
{
  printf 'HOOK %s\n' "$n"
  for a in "$@"; do printf 'ARG %s\n' "$a"; done
  printf 'ACT %s\n' "$GIT_REFLOG_ACTION"
  [ -d "$gd/rebase-merge" ] && printf 'CTX rebase-merge\n'
  [ -d "$gd/rebase-apply" ] && printf 'CTX rebase-apply\n'
  [ -f "$gd/CHERRY_PICK_HEAD" ] && printf 'CTX cherry-pick-head %s\n' "$(cat "$gd/CHERRY_PICK_HEAD")"
  [ -d "$gd/sequencer" ] && printf 'CTX sequencer\n'
  [ -f "$gd/sequencer/todo" ] && [ -n "$(grep -v '^#' "$gd/sequencer/todo" | tr -d ' \n')" ] && printf 'CTX sequencer-todo-pending\n'
  [ -f "$gd/MERGE_HEAD" ] && printf 'CTX merge-head\n'
  [ -f "$gd/SQUASH_MSG" ] && printf 'CTX squash-msg\n'
  case "$n" in
    post-rewrite|reference-transaction|pre-push) while IFS= read -r line; do printf 'IN %s\n' "$line"; done ;;
  esac
  printf 'END\n'
} >> "$C13_TRACE"
exit 0
'''
TRACED_HOOKS = ["pre-commit", "prepare-commit-msg", "commit-msg", "post-commit", "pre-rebase", "post-checkout",
                "post-merge", "pre-push", "post-rewrite", "reference-transaction", "pre-merge-commit", "post-applypatch",
                "pre-applypatch", "applypatch-msg"]


def parse_trace(path, start=0):
    """[{hook,args,act,ctx:[..],stdin:[..]}] from record index `start`"""
    out, cur = [], None
    try:
        data = open(path, errors="replace").read().split("\n")
    except FileNotFoundError:
        return []
    for line in data:
        if line.startswith("HOOK "):
            cur = {"hook": line[5:], "args": [], "act": "", "ctx": [], "stdin": []}
        elif cur is None:
            continue
        elif line.startswith("ARG "):
            cur["args"].append(line[4:])
        elif line.startswith("ACT "):
            cur["act"] = line[4:]
        elif line.startswith("CTX "):
            cur["ctx"].append(line[4:])
        elif line.startswith("IN "):
            cur["stdin"].append(line[3:])
        elif line == "END":
            out.append(cur); cur = None
    return out[start:]


class Twin:
    def __init__(self, kind):
        self.kind = kind
        if kind in ("H", "B"):
            self.env = U.HooksEnv()
        else:
            self.env = e2e.Env()
        self.r = None
        self.trace_path = None
        self.ntrace = 0
        self.up = None       # bare upstream
        self.peer = None     # a plain clone used to create upstream commits

    def close(self):
        self.env.__exit__(None, None, None)

    def init(self):
        env = self.env
        if self.kind == "H":
            self.r = env.repo("r")
        elif self.kind == "B":
            self.r = env.repo("r", both=True)
        else:
            self.r = env.repo("r")
        if self.kind == "T":
            hd = os.path.join(env.root, "trace-hooks")
            os.makedirs(hd)
            for h in TRACED_HOOKS:
                p = os.path.join(hd, h)
                open(p, "w").write(TRACE_HOOK)
                os.chmod(p, os.stat(p).st_mode | stat.S_IXUSR | stat.S_IXGRP | stat.S_IXOTH)
            self.trace_path = os.path.join(env.root, "trace.log")
            env.env["C13_TRACE"] = self.trace_path
            self.r.plain_git("config", "core.hooksPath", hd)

    # ---------------------------------------------------------------- one low-level step
    def step(self, st):
        r = self.r
        k = st["k"]
        if k == "write":
            r.write(st["path"], st["content"]); return 0
        if k == "hcp":
            if self.kind == "T": return 0
            return r.human_checkpoint(st["files"])[0]
        if k == "aicp":
            if self.kind == "T": return 0
            return r.ai_checkpoint(st["session"], st["files"], tool=TOOL)[0]
        if k == "git":
            fn = r.plain_git if self.kind == "T" else r.git
            rc, out, err = fn(*st["args"], env=st.get("env"))
            self.last_err = err
            return rc
        if k == "plain":            # set-up plumbing that is not part of the compared alphabet
            env = dict(st.get("env") or {})
            if self.kind in ("H", "B", "T"):
                # keep managed / tracing hooks out of set-up plumbing
                args = ["-c", "core.hooksPath=/dev/null"] + list(st["args"])
            else:
                args = list(st["args"])
            cwd = {"r": r.path, "root": self.env.root, "peer": os.path.join(self.env.root, "peer")}[st.get("cwd", "r")]
            rc, out, err = r.plain_git(*args, cwd=cwd, env=env)
            self.last_err = err
            return rc
        if k == "peer_write":
            p = os.path.join(self.env.root, "peer", st["path"])
            os.makedirs(os.path.dirname(p), exist_ok=True)
            open(p, "w").write(st["content"]); return 0
        raise ValueError(k)

    def new_trace(self):
        recs = parse_trace(self.trace_path, self.ntrace)
        self.ntrace += len(recs)
        return recs


# ------------------------------------------------------------------ observations of one twin
def observe(tw, files=True):
    r = tw.r
    o = {}
    o["head"] = r.head()
    rc, out, _ = r.plain_git("for-each-ref", "--format=%(refname) %(objectname)", "refs/heads/", "refs/stash")
    o["refs"] = sorted(l for l in out.split("\n") if l)
    rc, out, _ = r.plain_git("symbolic-ref", "-q", "HEAD")
    o["branch"] = out.strip()
    if tw.kind == "T":
        return o
    o["journal"] = U.rewrite_log(r)
    o["side"] = U.side_state(r)
    rc, out, _ = r.plain_git("rev-list", "--all")
    commits = [c for c in out.split("\n") if c]
    nl = r.notes_list()
    o["notes"] = {}
    for c in commits:
        if c in nl:
            o["notes"][c] = U.canon_note(r.note_text(c))
    o["note_keys_foreign"] = sorted(k for k in nl if k not in set(commits))
    o["blame"] = {}
    if files:
        rc, out, _ = r.plain_git("ls-files", "-z")
        for p in [x for x in out.split("\0") if x]:
            bj = r.blame(p)
            o["blame"][p] = U.canon_blame(bj)
    gd = os.path.join(r.path, ".git")
    o["in_progress"] = [n for n in ("rebase-merge", "rebase-apply", "CHERRY_PICK_HEAD", "sequencer", "MERGE_HEAD") if os.path.exists(os.path.join(gd, n))]
    o["wl"] = U.working_logs(r)
    return o
